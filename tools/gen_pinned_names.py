#!/usr/bin/env python3
"""Regenerate sa/pinned_names.json (names, parameter names and body fingerprints of the private functions of the pinned
tree) - run on the pinned /repo only; sa/renames.py uses it to undo pure renames before the rules run."""
import ast
import glob
import json
import os
import sys

ROOT = os.path.dirname(os.path.dirname(os.path.abspath(__file__)))
sys.path.insert(0, ROOT)
from sa import renames  # noqa: E402

repo = sys.argv[1] if len(sys.argv) > 1 else "/repo"
out = {}
for path in sorted(glob.glob(os.path.join(repo, "anytree", "**", "*.py"), recursive=True)):
    rel = os.path.relpath(path, repo)
    tree = ast.parse(open(path, encoding="utf-8").read())
    rec = renames.record(tree)
    rec = {k: v for k, v in rec.items() if v}
    if rec:
        out[rel] = rec
with open(renames.PINNED_FILE, "w", encoding="utf-8") as fh:
    json.dump(out, fh, indent=1, sort_keys=True)
    fh.write("\n")
from sa import newoptions  # noqa: E402
sigs = {}
for path in sorted(glob.glob(os.path.join(repo, "anytree", "**", "*.py"), recursive=True)):
    rel = os.path.relpath(path, repo)
    rec = newoptions.record_signatures(ast.parse(open(path, encoding="utf-8").read()))
    if rec:
        sigs[rel] = rec
with open(newoptions.SIG_FILE, "w", encoding="utf-8") as fh:
    json.dump(sigs, fh, indent=1, sort_keys=True)
    fh.write("\n")
print("recorded %d signatures in %d modules" % (sum(len(v) for v in sigs.values()), len(sigs)))
print("recorded %d private functions in %d modules" % (sum(len(v2) for v in out.values() for v2 in v.values()), len(out)))
