#!/usr/bin/env python3
"""Regenerate /verif/MANIFEST.json from the rule modules that exist."""
import importlib
import json
import os
import sys

ROOT = os.path.dirname(os.path.dirname(os.path.abspath(__file__)))
sys.path.insert(0, ROOT)

TECH = {
    "C01": "static analysis: who-may-write scan + typestate over abstract event traces of the mutators",
    "C02": "static analysis: ordering/guard rules over abstract event traces + CFG dominance + type inference",
    "C03": "static analysis: veto-before-write typestate over exhaustively enumerated abstract traces",
    "C16": "static analysis: hook typestate automaton over abstract event traces + who-may-call scan",
    "C17": "static analysis: type-inference-driven AST lint (identity-only)",
    "C18": "static analysis: AST equality modulo renaming with a verified difference table",
}
NOTES = {}
NA = {
}


def main():
    props = [json.loads(l) for l in open(os.path.join(ROOT, "properties.jsonl"))]
    checks, na, served = [], [], []
    for p in props:
        pid = p["id"]
        path = os.path.join(ROOT, "sa", "rules", pid.lower() + ".py")
        if pid in NA or not os.path.exists(path):
            na.append({"property_id": pid, "reason": NA.get(pid, "check under construction; not claimed yet")})
            continue
        mod = importlib.import_module("sa.rules." + pid.lower())
        from sa.rules.common import explanation_of
        served.append(pid)
        checks.append({
            "property_id": pid,
            "quick_cmd": "/venv/bin/python -m sa.check %s --tier quick" % pid,
            "thorough_cmd": "/venv/bin/python -m sa.check %s --tier thorough" % pid,
            "evidence_file": "/verif/evidence/%s.json" % pid,
            "replay_cmd_template": "/venv/bin/python -m sa.check %s --replay {path}" % pid,
            "engine": "sa",
            "level_claimed": {"category": mod.LEVEL, "text": explanation_of(mod, pid), "design_ref": "DESIGN.md section 4, %s" % pid},
            "level_note": "Decides the named structural clauses (each a necessary condition of the property), not the "
                          "behaviour as a whole. Assumes: " + "; ".join(mod.ASSUMPTIONS),
            "technique": getattr(mod, "TECHNIQUE", TECH.get(pid, "static analysis over the parsed source (ast)")),
        })
    m = {
        "version": 1,
        "setup_cmd": "/venv/bin/python -m compileall -q sa",
        "hooks": {"guard": "ANYTREE_VERIF",
                  "enable": "no hooks: every check parses /repo's working tree with ast; nothing is built, imported or instrumented",
                  "baseline_off_cmd": "cd /repo && /venv/bin/python -m pytest -ra -q -p no:cacheprovider --timeout=900 --continue-on-collection-errors",
                  "source_commits": [], "add_only": True},
        "engines": [{"name": "sa", "path": "/verif/sa", "serves_properties": served,
                     "kind_free_text": "custom static analyser over Python ast (stdlib only): program model with name mangling and "
                                       "property accessors, CFG with guard nodes/dominators, flow-sensitive node-type inference with call "
                                       "resolution, abstract event-trace interpreter for the mixins' mutators, per-property rule modules, "
                                       "self-validation corpus (seeded violations + benign twins) in the thorough tier"}],
        "checks": checks,
        "notes": "All checks are static: `python -m sa.check <id>` parses /repo/anytree, decides the rules of DESIGN.md section 4 and "
                 "writes evidence/<id>.json. exit 0 = held (KNOWN-FINDING lines for recorded genuine defects), 1 = VIOLATION, "
                 "2 = ANALYSIS-ERROR (no verdict). Genuine defects repaired in /repo by 'fix:' commits are listed in known_findings.json.",
        "not_applicable": na,
    }
    with open(os.path.join(ROOT, "MANIFEST.json"), "w") as fh:
        json.dump(m, fh, indent=1)
        fh.write("\n")
    print("checks:", served, "not claimed:", [x["property_id"] for x in na])


if __name__ == "__main__":
    main()
