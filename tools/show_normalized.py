#!/usr/bin/env python3
"""Debug aid: print functions whose normalised form (sa.inline + sa.normalize) differs from the source.
    python tools/show_normalized.py [repo] [substring of relpath]"""
import ast, sys, os
sys.path.insert(0, os.path.dirname(os.path.dirname(os.path.abspath(__file__))))
from sa.model import Program
repo = sys.argv[1] if len(sys.argv) > 1 else "/repo"
sub = sys.argv[2] if len(sys.argv) > 2 else ""
a = Program(repo, inline=False)
b = Program(repo, inline=True)
for rel in sorted(b.modules):
    if sub not in rel:
        continue
    fa = {}
    for n in ast.walk(a.modules[rel].tree):
        if isinstance(n, ast.FunctionDef):
            fa.setdefault(n.name, []).append(ast.unparse(n))
    for n in ast.walk(b.modules[rel].tree):
        if isinstance(n, ast.FunctionDef):
            u = ast.unparse(n)
            if u not in fa.get(n.name, []):
                print("### %s :: %s" % (rel, n.name))
                print(u)
                print()
