#!/usr/bin/env python3
"""Evaluate one candidate mutation (a directory with patch.diff and demo.py)
on a scratch copy of /repo: confirm it is a valid seeded change (tests still
pass, demo passes before and fails after) and report which checks fire.

    python tools/eval_mutation.py /tmp/mut/C01A [--checks C01,C02] [--json out.json]
"""
import argparse
import json
import os
import re
import shutil
import subprocess
import sys
import tempfile
from concurrent.futures import ThreadPoolExecutor

ROOT = os.path.dirname(os.path.dirname(os.path.abspath(__file__)))
PY = "/venv/bin/python"
ALL = ["C01", "C02", "C03", "C04", "C05", "C06", "C07", "C08", "C09", "C10", "C11", "C12", "C13", "C14", "C15", "C16", "C17", "C18", "C19", "C20"]


def run(cmd, cwd, timeout=900):
    p = subprocess.run(cmd, cwd=cwd, stdout=subprocess.PIPE, stderr=subprocess.STDOUT, text=True, timeout=timeout)
    return p.returncode, p.stdout


def main():
    ap = argparse.ArgumentParser()
    ap.add_argument("mutdir")
    ap.add_argument("--checks", default=",".join(ALL))
    ap.add_argument("--json", default=None)
    ap.add_argument("--skip-tests", action="store_true")
    ap.add_argument("--keep", action="store_true")
    a = ap.parse_args()
    a.mutdir = os.path.abspath(a.mutdir)
    patch = os.path.join(a.mutdir, "patch.diff")
    demo = os.path.join(a.mutdir, "demo.py")
    tmp = tempfile.mkdtemp(prefix="mut-eval-")
    res = {"mutation": a.mutdir}
    try:
        tree = os.path.join(tmp, "tree")
        shutil.copytree("/repo", tree, ignore=shutil.ignore_patterns(".git", "__pycache__", ".pytest_cache"))
        if os.path.exists(demo):
            shutil.copy(demo, os.path.join(tree, "demo.py"))
            rc, out = run([PY, "demo.py"], tree)
            res["demo_clean_rc"] = rc
        rc, out = run(["patch", "-p1", "--no-backup-if-mismatch", "-i", patch], tree)
        res["patch_applied"] = rc == 0
        if rc != 0:
            res["patch_output"] = out[-800:]
        if not a.skip_tests and rc == 0:
            rc, out = run([PY, "-m", "pytest", "-q", "-p", "no:cacheprovider", "--timeout=900"], tree)
            m = re.search(r"(\d+) failed, (\d+) passed", out) or re.search(r"(\d+) passed", out)
            res["pytest"] = out.strip().splitlines()[-1] if out.strip() else ""
            res["tests_ok"] = bool(re.search(r"\b160 passed", out)) and bool(re.search(r"\b3 failed", out))
        if os.path.exists(demo) and res["patch_applied"]:
            rc, out = run([PY, "demo.py"], tree)
            res["demo_mutated_rc"] = rc
            res["demo_output_tail"] = out[-600:]

        def chk(c):
            rc, out = run([PY, "-m", "sa.check", c, "--repo", tree, "--no-selftest"], ROOT)
            fired = []
            for line in out.splitlines():
                m = re.match(r"^(\S+?):(\d+)\s+(\S+)\s+(\S+)\s+`", line)
                if m and not line.startswith("KNOWN-FINDING"):
                    fired.append("%s@%s:%s" % (m.group(3), m.group(4), m.group(2)))
            err = [l for l in out.splitlines() if l.startswith("ANALYSIS-ERROR")]
            return c, rc, fired, err
        with ThreadPoolExecutor(8) as ex:
            results = list(ex.map(chk, a.checks.split(",")))
        res["checks"] = {c: {"rc": rc, "fired": fired[:6], "error": err[:1]} for c, rc, fired, err in results if rc != 0}
        res["fired_checks"] = [c for c, rc, _, _ in results if rc == 1]
        res["error_checks"] = [c for c, rc, _, _ in results if rc == 2]
    finally:
        if not a.keep:
            shutil.rmtree(tmp, ignore_errors=True)
        else:
            res["kept"] = tmp
    print(json.dumps(res, indent=1))
    if a.json:
        with open(a.json, "w") as fh:
            json.dump(res, fh, indent=1)


if __name__ == "__main__":
    main()
