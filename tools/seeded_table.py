#!/usr/bin/env python3
"""Rewrite the table between the SEEDED-TABLE markers of DESIGN.md from seeded/*/meta.json."""
import glob
import json
import os
import re

ROOT = os.path.dirname(os.path.dirname(os.path.abspath(__file__)))
rows = []
for mf in sorted(glob.glob(os.path.join(ROOT, "seeded", "*", "meta.json"))):
    m = json.load(open(mf))
    patch = open(os.path.join(os.path.dirname(mf), "patch.diff")).read()
    files = sorted(set(re.findall(r"^\+\+\+ b/(\S+)", patch, re.M)))
    what = m.get("summary") or m["needs_to_manifest"][:150].replace("|", "/")
    rules = "; ".join("%s: %s" % (c, ", ".join(sorted({r.split("@")[0] for r in v}))) for c, v in sorted(m["rules_reported"].items()))
    nov = sorted(m.get("analysis_errors") or [])
    missed = "**none - no verdict (ANALYSIS-ERROR) from %s**" % ", ".join(nov) if nov else "**none (missed: declined clause)**"
    rows.append("| %s | %s | %s | %s | %s |" % (m["id"], m["breaks_property"], ", ".join(f.replace("anytree/", "") for f in files),
                                              rules or missed, "yes" if m["caught_by_own_property_check"] else ("other check" if m["checks_that_fire"] else ("no verdict" if nov else "no"))))
table = "| id | property | files touched | checks → rules that fire | caught by its own property's check |\n|---|---|---|---|---|\n" + "\n".join(rows)
p = os.path.join(ROOT, "DESIGN.md")
s = open(p).read()
a, b = "<!-- SEEDED-TABLE-BEGIN -->", "<!-- SEEDED-TABLE-END -->"
if a in s:
    s = s[: s.index(a) + len(a)] + "\n" + table + "\n" + s[s.index(b):]
    open(p, "w").write(s)
n_all = len(rows)
print("%d seeded changes; %d caught by some check; %d no verdict; %d by their own property's check" % (
    n_all, sum(1 for r in rows if "**none" not in r), sum(1 for r in rows if "no verdict (ANALYSIS" in r), sum(1 for r in rows if r.endswith("| yes |"))))
