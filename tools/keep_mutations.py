#!/usr/bin/env python3
"""Re-verify candidate mutations and store the valid ones under /verif/seeded/<id>/.

    python tools/keep_mutations.py /tmp/mut/C01A /tmp/mut/C01B ...
A candidate is kept only if (on a scratch copy of /repo) its demo passes on the
clean tree, the patch applies, the baseline suite still gives 160 passed / the
3 known failures, and the demo fails with the patch."""
import json
import os
import re
import shutil
import subprocess
import sys

ROOT = os.path.dirname(os.path.dirname(os.path.abspath(__file__)))


def main():
    for src in sys.argv[1:]:
        mid = os.path.basename(src.rstrip("/"))
        prop = mid[:3]
        out = subprocess.run(["/venv/bin/python", os.path.join(ROOT, "tools", "eval_mutation.py"), src], stdout=subprocess.PIPE, text=True).stdout
        r = json.loads(out)
        valid = r.get("demo_clean_rc") == 0 and r.get("patch_applied") and r.get("tests_ok") and r.get("demo_mutated_rc") not in (0, None)
        if not valid:
            print("%s REJECTED %s" % (mid, {k: r.get(k) for k in ("demo_clean_rc", "patch_applied", "tests_ok", "demo_mutated_rc")}))
            continue
        dst = os.path.join(ROOT, "seeded", mid)
        os.makedirs(dst, exist_ok=True)
        for fn in ("patch.diff", "demo.py", "notes.md"):
            if os.path.exists(os.path.join(src, fn)) and os.path.abspath(src) != os.path.abspath(dst):
                shutil.copy(os.path.join(src, fn), os.path.join(dst, fn))
        notes = open(os.path.join(src, "notes.md")).read() if os.path.exists(os.path.join(src, "notes.md")) else ""
        meta = {
            "id": mid,
            "breaks_property": prop,
            "origin": "independent sub-agent given only the property text and a scratch worktree of /repo (no access to /verif)",
            "needs_to_manifest": _needs(notes),
            "what_was_run": [
                "scratch copy of /repo (outside /repo and /verif, removed afterwards)",
                "demo.py on the clean copy: exit %s" % r.get("demo_clean_rc"),
                "patch -p1 < patch.diff: applied",
                "baseline suite: %s" % r.get("pytest"),
                "demo.py with the patch: exit %s" % r.get("demo_mutated_rc"),
                "all 18 quick checks with --repo <scratch copy>",
            ],
            "checks_that_fire": r.get("fired_checks"),
            "rules_reported": {c: v["fired"] for c, v in r.get("checks", {}).items() if v["rc"] == 1},
            "analysis_errors": r.get("error_checks"),
            "caught_by_own_property_check": prop in (r.get("fired_checks") or []),
        }
        with open(os.path.join(dst, "meta.json"), "w") as fh:
            json.dump(meta, fh, indent=1)
            fh.write("\n")
        print("%s kept; fired=%s own=%s" % (mid, r.get("fired_checks"), meta["caught_by_own_property_check"]))


def _needs(notes):
    m = re.search(r"(?im)^.*(trigger|needs?|only shows|circumstance|manifest)[^\n]*\n?.*$", notes)
    txt = " ".join(notes.split())
    return txt[:600]


if __name__ == "__main__":
    main()
