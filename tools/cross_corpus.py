#!/usr/bin/env python3
"""Does a behaviour-preserving refactoring hide a seeded defect from the checks?

For every patch of the benign corpus and every hand-written *seeded* text-edit variant that touches one of the
same files and whose anchor text is still present after the benign patch, both are applied to a scratch copy and
the variant's checks are run: the seeded defect must still be reported (VIOLATION with the variant's rule), or the
run must end without verdict (ANALYSIS-ERROR) - a silent pass means the normalisation layer / a generalised rule
masks a real violation.

    python tools/cross_corpus.py [--benign 'Y*'] [--jobs 16]
Prints one line per masked combination; exit 0 if none."""
import argparse
import fnmatch
import multiprocessing
import os
import re
import shutil
import subprocess
import sys
import tempfile

ROOT = os.path.dirname(os.path.dirname(os.path.abspath(__file__)))
sys.path.insert(0, ROOT)


def files_of_patch(path):
    out = set()
    for line in open(path, encoding="utf-8"):
        m = re.match(r"^\+\+\+ b/(\S+)", line)
        if m:
            out.add(m.group(1))
    return out


def run_combo(args):
    bid, bpatch, variant, prop = args
    from sa.check import run_rules
    from sa.model import AnalysisError
    from sa.report import split_known
    d = tempfile.mkdtemp(prefix="sa-cross-")
    try:
        shutil.copytree("/repo/anytree", os.path.join(d, "anytree"), ignore=shutil.ignore_patterns("__pycache__"))
        r = subprocess.run(["patch", "-p1", "-s", "--no-backup-if-mismatch", "-f", "-i", bpatch], cwd=d,
                           stdout=subprocess.PIPE, stderr=subprocess.STDOUT)
        if r.returncode != 0:
            return (bid, variant["id"], prop, "benign-patch-failed", [])
        for edit in variant["edits"]:
            rel, old, new = edit[0], edit[1], edit[2]
            count = edit[3] if len(edit) > 3 else 1
            path = os.path.join(d, rel)
            s = open(path, encoding="utf-8").read()
            if s.count(old) < 1 or (count and s.count(old) != count):
                return (bid, variant["id"], prop, "skipped", [])
            open(path, "w", encoding="utf-8").write(s.replace(old, new))
        try:
            ctx, _ = run_rules(prop, d, "quick", 0)
        except AnalysisError as exc:
            return (bid, variant["id"], prop, "no-verdict", [str(exc)[:120]])
        except Exception as exc:  # checker bug: also not a pass
            return (bid, variant["id"], prop, "no-verdict", ["internal %r" % exc])
        hits, new = split_known(ctx)
        rules = sorted({f.rule for f in new})
        want = set(variant.get("rules") or [])
        if new and (not want or want & set(rules)):
            return (bid, variant["id"], prop, "fired", rules)
        if new:
            return (bid, variant["id"], prop, "fired-other-rule", rules)
        return (bid, variant["id"], prop, "MASKED", [])
    finally:
        shutil.rmtree(d, ignore_errors=True)


def main():
    ap = argparse.ArgumentParser()
    ap.add_argument("--benign", default="*")
    ap.add_argument("--jobs", type=int, default=16)
    a = ap.parse_args()
    from sa.selftest import variants
    seeded = [v for v in variants.VARIANTS if v["kind"] == "seeded" and v.get("edits") and not v.get("patch")]
    todo = []
    for bdir in sorted(os.listdir(os.path.join(ROOT, "benign"))):
        if not fnmatch.fnmatch(bdir, a.benign):
            continue
        bpatch = os.path.join(ROOT, "benign", bdir, "patch.diff")
        if not os.path.exists(bpatch):
            continue
        bfiles = files_of_patch(bpatch)
        for v in seeded:
            vfiles = {e[0] for e in v["edits"]}
            if not (vfiles & bfiles):
                continue
            for prop in v["props"]:
                todo.append((bdir, bpatch, v, prop))
    print("%d combinations" % len(todo), flush=True)
    with multiprocessing.Pool(a.jobs, maxtasksperchild=6) as pool:
        res = pool.map(run_combo, todo, chunksize=1)
    stat = {}
    for bid, vid, prop, status, info in res:
        stat[status] = stat.get(status, 0) + 1
        if status in ("MASKED", "fired-other-rule"):
            print("%-16s %-8s %-45s %s %s" % (status, bid, vid, prop, ",".join(info)))
    print(stat)
    return 1 if stat.get("MASKED") else 0


if __name__ == "__main__":
    sys.exit(main())
