"""Reproductions of the genuine defects D1-D10 (DESIGN section 5).

Documentation only: the static checks never run this file.  Run it with
    /venv/bin/python findings/repro_defects.py
Each line prints what the property demands and what the code does."""
import sys
sys.path.insert(0, "/repo")
from anytree import Node, NodeMixin, Resolver, LoopError
from anytree.exporter import DotExporter, MermaidExporter
from anytree.util import leftsibling, rightsibling


def show(tag, ok, detail):
    print("%-4s %-9s %s" % (tag, "holds" if ok else "VIOLATED", detail))


# D1  C07: relaxed get with a miss before the last component
top = Node("top"); Node("sub1", parent=top)
try:
    r = Resolver(relax=True).get(top, "sub2/x")
    show("D1", r is None, "Resolver(relax=True).get(top, 'sub2/x') -> %r" % (r,))
except Exception as exc:
    show("D1", False, "Resolver(relax=True).get(top, 'sub2/x') raised %r" % (exc,))


# D2  C17/C08: '**' de-duplicates by __eq__
class EqNode(Node):
    def __eq__(self, other):
        return True
    __hash__ = None
t = EqNode("t"); EqNode("a", parent=t); EqNode("b", parent=t)
res = Resolver().glob(t, "**")
show("D2", len(res) == 3, "glob(t, '**') on always-equal nodes returned %d of 3 nodes" % len(res))


# D3  C03: move vetoed by _pre_attach leaves the node detached
class Veto(NodeMixin):
    veto = None
    def __init__(self, name, parent=None):
        self.name = name; self.parent = parent
    def _pre_attach(self, parent):
        if Veto.veto == "attach":
            raise RuntimeError("veto")
    def _pre_detach(self, parent):
        if Veto.veto == ("detach", self.name):
            raise RuntimeError("veto")
    def _pre_attach_children(self, children):
        if Veto.veto == "attach_children":
            raise RuntimeError("veto")
a = Veto("a"); b = Veto("b"); x = Veto("x", parent=a)
Veto.veto = "attach"
try:
    x.parent = b
except RuntimeError:
    pass
Veto.veto = None
show("D3", x.parent is a and a.children == (x,), "x.parent = b vetoed by _pre_attach: x.parent is %r, a.children=%r" % (
    getattr(x.parent, "name", None), [c.name for c in a.children]))

# D4  C03: del children, second child vetoes
a = Veto("a"); c1 = Veto("c1", parent=a); c2 = Veto("c2", parent=a)
Veto.veto = ("detach", "c2")
try:
    del a.children
except RuntimeError:
    pass
Veto.veto = None
show("D4", [c.name for c in a.children] == ["c1", "c2"], "del a.children vetoed at c2: a.children=%r" % [c.name for c in a.children])

# D5  C03: children setter, current child vetoes its detach (deleter is outside the try)
a = Veto("a"); c1 = Veto("c1", parent=a); c2 = Veto("c2", parent=a); n = Veto("n")
Veto.veto = ("detach", "c2")
try:
    a.children = [n]
except RuntimeError:
    pass
Veto.veto = None
show("D5", [c.name for c in a.children] == ["c1", "c2"], "a.children=[n] vetoed at c2: a.children=%r" % [c.name for c in a.children])

# D6  C03: persistent _pre_attach_children veto -> rollback re-enters the setter
a = Veto("a"); c1 = Veto("c1", parent=a); n = Veto("n")
Veto.veto = "attach_children"
try:
    a.children = [n]
    err = None
except RecursionError as exc:
    err = "RecursionError"
except RuntimeError as exc:
    err = "RuntimeError"
Veto.veto = None
show("D6", err == "RuntimeError" and [c.name for c in a.children] == ["c1"],
     "a.children=[n] with persistent _pre_attach_children veto: %s, a.children=%r" % (err, [c.name for c in a.children]))

# D7  C03: LoopError in the attach loop does not return stolen children
q = Node("q"); z = Node("z", parent=q); aa = Node("a"); xx = Node("x", parent=aa)
try:
    xx.children = [z, aa]
except LoopError:
    pass
show("D7", z.parent is q, "x.children=[z, a] (a ancestor of x) -> LoopError, z.parent is %r (was q)" % (getattr(z.parent, "name", None),))


# D8  C17: leftsibling/rightsibling use truthiness and equality
class Falsy(Node):
    def __bool__(self):
        return False
r = Falsy("r"); l = Falsy("l", parent=r); m = Falsy("m", parent=r)
show("D8a", leftsibling(m) is l, "leftsibling under a falsy parent -> %r" % (leftsibling(m),))
r = EqNode("r"); l = EqNode("l", parent=r); m = EqNode("m", parent=r); k = EqNode("k", parent=r)
show("D8b", rightsibling(m) is k and leftsibling(k) is m, "rightsibling(m) among always-equal siblings -> %s" % rightsibling(m).name)

# D9  C12: DotExporter emits an edge to a stopped (undeclared) child
r = Node("r"); Node("a", parent=r); Node("b", parent=r)
lines = list(DotExporter(r, stop=lambda n: n.name == "a"))
show("D9", not any('-> "a"' in l for l in lines), "DotExporter(stop=a): %r" % [l.strip() for l in lines[1:-1]])

# D10 C12/C13: maxlevel=0
lines = list(DotExporter(r, maxlevel=0))
show("D10a", len(lines) == 2, "DotExporter(maxlevel=0): %r" % [l.strip() for l in lines[1:-1]])
lines = list(MermaidExporter(r, maxlevel=0))
show("D10b", len(lines) == 1, "MermaidExporter(maxlevel=0): %r" % lines[1:])
