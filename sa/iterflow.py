"""Abstract interpretation of the five iterator strategies (C06).

Domain: for every node / node-sequence value its *level* (start node = level
1) as a constant or `symbol + constant`, whether `stop` has been applied to it
("checked") and whether it is known to lie within maxlevel ("admitted");
integers as constant / symbol + constant; the maxlevel parameter minus a
constant.  Branch facts record the outcomes of `_abort_at_level(level,
maxlevel)`, `stop(x)` and `filter_(x)`.  Loops are solved to a fixpoint with a
constant-difference widening (all level quantities must shift by the same
amount per iteration).  Pure dataflow over the CFG; nothing is executed."""

import ast

from .cfg import CFG
from .model import AnalysisError, Func, norm

TOPV = ("top",)
MAXNONE = ("maxnone",)


def lv_add(l, n):
    if l is None or l == "TOP":
        return l
    if l[0] == "c":
        return ("c", l[1] + n)
    return ("s", l[1], l[2] + n)


def lv_join(a, b):
    if a is None:
        return b
    if b is None:
        return a
    if a == b:
        return a
    if a == "TOP" or b == "TOP":
        return "TOP"
    # a loop-head symbol stands for every iteration including the first:
    # the symbolic value subsumes the constant of the entry pass
    if a[0] == "c" and b[0] == "s" and b[1].startswith("σ"):
        return b
    if b[0] == "c" and a[0] == "s" and a[1].startswith("σ"):
        return a
    return "TOP"


def lv_show(l):
    if l is None:
        return "⊥"
    if l == "TOP":
        return "⊤"
    if l[0] == "c":
        return str(l[1])
    return "%s%+d" % (l[1], l[2]) if l[2] else l[1]


class Seq:
    __slots__ = ("level", "checked", "admitted", "rec", "filtered")

    def __init__(self, level, checked, admitted, rec=False, filtered=False):
        self.level, self.checked, self.admitted, self.rec, self.filtered = level, checked, admitted, rec, filtered

    def key(self):
        return ("seq", self.level, self.checked, self.admitted, self.rec, self.filtered)

    def __repr__(self):
        return "Seq(level=%s%s%s%s%s)" % (lv_show(self.level), ", checked" if self.checked else "", ", admitted" if self.admitted else "",
                                          ", rec" if self.rec else "", ", filtered" if self.filtered else "")


class Node:
    __slots__ = ("level", "checked", "admitted", "rec", "name")

    def __init__(self, level, checked, admitted, rec=False):
        self.level, self.checked, self.admitted, self.rec = level, checked, admitted, rec

    def key(self):
        return ("node", self.level, self.checked, self.admitted, self.rec)

    def __repr__(self):
        return "Node(level=%s%s%s)" % (lv_show(self.level), ", checked" if self.checked else "", ", admitted" if self.admitted else "")


class OptNode:
    """a node or None (`children[0] if children else None`): usable as a node only behind an `is None` test"""
    __slots__ = ("node",)

    def __init__(self, node):
        self.node = node

    def key(self):
        return ("optnode",) + self.node.key()

    def __repr__(self):
        return "Opt%r" % (self.node,)


def vkey(v):
    return v.key() if isinstance(v, (Seq, Node, OptNode)) else v


def vjoin(a, b):
    if a is None:
        return b
    if b is None:
        return a
    if isinstance(a, Seq) and isinstance(b, Seq):
        # the empty sequence (a fresh accumulator) contributes no element
        if a.level is None and not a.rec and b.level is not None:
            return b
        if b.level is None and not b.rec and a.level is not None:
            return a
        return Seq(lv_join(a.level, b.level), a.checked and b.checked, a.admitted and b.admitted, a.rec and b.rec, a.filtered and b.filtered)
    if isinstance(a, Node) and isinstance(b, Node):
        return Node(lv_join(a.level, b.level), a.checked and b.checked, a.admitted and b.admitted, a.rec and b.rec)
    if vkey(a) == vkey(b):
        return a
    for x, y in ((a, b), (b, a)):
        if isinstance(x, Node) and y == MAXNONE:
            return OptNode(x)
        if isinstance(x, OptNode) and (y == MAXNONE or isinstance(y, (Node, OptNode))):
            other = y.node if isinstance(y, OptNode) else y
            return x if y == MAXNONE else OptNode(vjoin(x.node, other))
    for x, y in ((a, b), (b, a)):
        if isinstance(x, Seq) and x.level is None and isinstance(y, tuple) and y and y[0] == "gen":
            return y
    if a == MAXNONE and isinstance(b, tuple) and b[0] == "max":
        return b
    if b == MAXNONE and isinstance(a, tuple) and a[0] == "max":
        return a
    if isinstance(a, tuple) and isinstance(b, tuple) and a[0] == "int" and b[0] == "int":
        return ("int", lv_join(a[1], b[1]))
    if isinstance(a, tuple) and isinstance(b, tuple) and a[0] == "abortv" and b[0] == "abortv" and a[2] == b[2]:
        j = lv_join(a[1], b[1])
        return ("abortv", j, a[2]) if j not in (None, "TOP") else TOPV
    return TOPV


def levels_of(v):
    if isinstance(v, (Seq, Node)):
        return [v.level]
    if isinstance(v, tuple) and v[0] == "int":
        return [v[1]]
    if isinstance(v, tuple) and v[0] == "abortv":
        return [v[1]]
    return []


def with_level(v, l):
    if isinstance(v, Seq):
        return Seq(l, v.checked, v.admitted, v.rec, v.filtered)
    if isinstance(v, Node):
        return Node(l, v.checked, v.admitted, v.rec)
    if isinstance(v, tuple) and v[0] == "int":
        return ("int", l)
    if isinstance(v, tuple) and v[0] == "abortv":
        return ("abortv", l, v[2])
    return v


class Problem:
    def __init__(self, rule, func, node, why, construct=None, undecided=False):
        self.rule, self.func, self.node, self.why, self.construct = rule, func, node, why, construct
        self.undecided = undecided  # the abstract domain cannot relate this code to the nodes it handles (no verdict)


class Obl:
    def __init__(self, rule, func, node, what):
        self.rule, self.func, self.node, self.what = rule, func, node, what


class IterFlow:
    """Analyses all strategy functions of anytree/iterators."""

    def __init__(self, program):
        self.p = program
        self.problems = []
        self.obligations = []
        self.base = program.cls("AbstractIter")
        self.funcs = {}
        for cls in program.classes.values():
            if cls.is_subclass_of(self.base):
                for f in cls.funcs():
                    self.funcs[(cls.name, f.srcname)] = f
        # recursive generators nested in a strategy (a closure over filter_/stop/maxlevel)
        for (c_, n_), f_ in list(self.funcs.items()):
            for g in f_.nested:
                if not g.is_lambda and self.is_rec_strategy(g):
                    self.funcs[("%s.%s" % (c_, n_), g.srcname)] = g
        # module-level helpers of the iterator modules (a strategy moved out of its class)
        self.modfuncs = {}
        for g in program.all_funcs:
            if g.cls is None and g.outer is None and not g.is_lambda and g.module.relpath.startswith("anytree/iterators/"):
                self.modfuncs[(g.module.relpath, g.srcname)] = g
                if self.is_rec_strategy(g):
                    self.funcs[("<%s>" % g.module.relpath, g.srcname)] = g
        # inferred preconditions of sequence parameters: (checked, admitted)
        self.pre = {}
        self.callsite_facts = {}
        self.summaries = {}
        self._problem_keys = set()
        self.symref = {}
        self.loop_iter_values = {}
        self._helper_stack = []
        self.get_children_ok = None

    # --------------------------------------------------------------- driver
    def strategy_funcs(self):
        out = []
        for (c, n), f in sorted(self.funcs.items()):
            if (n in ("_iter", "__next", "_get_grandchildren", "__init") or self.is_rec_strategy(f)) and not (c == "AbstractIter" and n == "_iter"):
                out.append(f)
        return out

    def run(self):
        fs = self.strategy_funcs()
        for f in fs:
            self.pre[f] = (True, True)
        for _ in range(6):
            self.callsite_facts = {f: [] for f in fs}
            self.problems, self.obligations, self._problem_keys = [], [], set()
            for f in fs:
                self.analyse(f, record=True)
            new = {}
            for f in fs:
                sites = self.callsite_facts.get(f, [])
                if f.srcname == "__init" or not sites:
                    new[f] = self.pre[f]
                    continue
                new[f] = (all(c for c, a in sites), all(a for c, a in sites))
            if f.srcname != "__init" and new == self.pre:
                break
            if new == self.pre:
                break
            self.pre = new
        return self

    def problem(self, rule, func, node, why, construct=None, undecided=False):
        cons = construct or " ".join(norm(node).split())
        k = (rule, func.where, cons)
        if k in self._problem_keys:
            return
        self._problem_keys.add(k)
        self.problems.append(Problem(rule, func, node, why, cons, undecided))

    def ok(self, rule, func, node, what):
        self.obligations.append(Obl(rule, func, node, what))

    # ------------------------------------------------------------- analysis
    @staticmethod
    def level_param(f):
        """the explicit level parameter of a (recursive) strategy function: the one parameter that is none of the
        strategy arguments; -> (name, constant default or None) or None"""
        if f.srcname in ("__init", "_get_grandchildren", "_get_children", "_abort_at_level"):
            return None
        sp = IterFlow.seq_param(f)
        extra = [p for p in f.posparams if p not in ("self", sp, "filter_", "stop", "maxlevel")]
        if len(extra) != 1 or sp is None:
            return None
        a = f.node.args
        pos = a.posonlyargs + a.args
        dflt = None
        for prm, d in zip(pos[len(pos) - len(a.defaults):], a.defaults):
            if prm.arg == extra[0] and isinstance(d, ast.Constant) and isinstance(d.value, int) and not isinstance(d.value, bool):
                dflt = d.value
        return extra[0], dflt

    @staticmethod
    def seq_param(f):
        """the parameter that carries the node sequence of a strategy: `children`, or the first parameter of a nested /
        module-level helper whatever it is called"""
        ps = [p for p in f.posparams if p != f.selfname]
        if "children" in ps:
            return "children"
        if f.srcname in ("__init", "_abort_at_level") or not ps:
            return None
        if (f.outer is not None or f.cls is None) and ps[0] not in ("filter_", "stop", "maxlevel", "level", "node"):
            return ps[0]
        return None

    @staticmethod
    def is_rec_strategy(f):
        """a recursive generator over a `children` sequence (the shape of PostOrderIter.__next), whatever it is called
        and wherever it lives"""
        if IterFlow.seq_param(f) is None or not IterFlow._is_generator(f):
            return False
        for n in ast.walk(f.node):
            if isinstance(n, ast.Call):
                fn = n.func
                nm = fn.id if isinstance(fn, ast.Name) else fn.attr if isinstance(fn, ast.Attribute) else None
                if nm == f.srcname:
                    return True
        return False

    @staticmethod
    def _is_generator(f):
        stack = list(f.node.body)
        while stack:
            x = stack.pop()
            if isinstance(x, (ast.Yield, ast.YieldFrom)):
                return True
            if isinstance(x, (ast.FunctionDef, ast.AsyncFunctionDef, ast.Lambda, ast.ClassDef)):
                continue
            stack.extend(ast.iter_child_nodes(x))
        return False

    def entry_env(self, f):
        env = {}
        ps = f.posparams
        checked, admitted = self.pre.get(f, (True, True))
        if f.srcname == "__init":
            env[ps[0]] = ("iterself",)
            return env
        lp = self.level_param(f)
        sp = self.seq_param(f)
        if f.outer is not None and f.outer.srcname != "__init":
            # a nested helper sees the enclosing strategy's parameters (closure)
            for k_, v_ in self.entry_env(f.outer).items():
                if k_ not in ps:
                    env[k_] = v_
        for prm in ps:
            if prm == sp and sp is not None:
                if lp is not None:
                    env[prm] = Seq(("s", "level", 0), checked, False)
                elif f.srcname == "_get_grandchildren":
                    env[prm] = Seq(("s", "L", 0), checked, admitted)
                else:
                    env[prm] = Seq(("c", 1), checked, admitted)
            elif lp is not None and prm == lp[0]:
                env[prm] = ("int", ("s", "level", 0))
            elif prm == "maxlevel":
                env[prm] = ("max", 0)
            elif prm in ("filter_", "stop"):
                env[prm] = ("fn", prm)
            else:
                env[prm] = TOPV
        return env

    def analyse(self, f, record=False, entry=None):
        cfg = CFG(f.node, f.body, name=f.where)
        reach = cfg.reachable_nodes()
        instate = {cfg.entry.id: entry if entry is not None else (self.entry_env(f), frozenset())}
        work = [cfg.entry]
        steps = 0
        rets = []
        while work:
            steps += 1
            if steps > 4000:
                raise AnalysisError("iterflow did not converge in %s" % f.where)
            n = work.pop(0)
            st = instate[n.id]
            out = self.transfer(f, cfg, n, st, False, rets)
            if out is None:
                continue
            for s, lab in n.succ:
                if s.id not in reach or lab == "exc":
                    continue
                if s.id in instate:
                    new = self.join_states(instate[s.id], out, s, lab == "back")
                    if self.state_key(new) == self.state_key(instate[s.id]):
                        continue
                    instate[s.id] = new
                else:
                    instate[s.id] = out
                if s not in work:
                    work.append(s)
        if record:
            rets = []
            for n in cfg.nodes:
                if n.id in instate and n.id in reach:
                    self.transfer(f, cfg, n, instate[n.id], True, rets)
        ret = None
        for r in rets:
            ret = vjoin(ret, r)
        if entry is None:
            self.summaries[f] = ret
        return ret

    def state_key(self, st):
        env, facts = st
        return (tuple(sorted((k, vkey(v)) for k, v in env.items())), facts)

    def join_states(self, a, b, node, is_back):
        enva, fa = a
        envb, fb = b
        # constant-difference widening at loop heads: the integer counters define the per-iteration shift d;
        # every level that shifts by d (or is still empty) becomes symbol+constant, a level that is unchanged
        # stays, anything else (e.g. a dead variable carried over from the previous iteration) loses its level alone
        if is_back:
            int_d, seq_d = set(), set()
            for k in enva:
                if k in envb:
                    for la, lb in zip(levels_of(enva[k]), levels_of(envb[k])):
                        dlt = self._delta(la, lb)
                        if dlt not in (0, None) and la is not None and lb is not None:
                            (int_d if isinstance(enva[k], tuple) else seq_d).add(dlt)
            d = None
            if len(int_d) == 1:
                d = next(iter(int_d))
            elif not int_d and len(seq_d) == 1:
                d = next(iter(seq_d))
            if d is not None:
                sym = "σ%d" % node.id
                if sym not in self.symref:
                    ref = None
                    for k in sorted(enva, key=lambda x: (not isinstance(enva[x], tuple), x)):
                        if k in envb:
                            for la, lb in zip(levels_of(enva[k]), levels_of(envb[k])):
                                if self._delta(la, lb) == d and ref is None and la is not None and la != "TOP" and la[0] == "c":
                                    ref = la
                    if ref is not None:
                        self.symref[sym] = ref[1]
                if sym in self.symref:
                    base = self.symref[sym]
                    env = {}
                    for k in sorted(set(enva) | set(envb)):
                        va, vb = enva.get(k), envb.get(k)
                        if va is None or vb is None:
                            env[k] = va if va is not None else vb
                            continue
                        las, lbs = levels_of(va), levels_of(vb)
                        if las and lbs:
                            la, lb = las[0], lbs[0]
                            dd = self._delta(la, lb)
                            if dd == 0 and la is not None and lb is not None:
                                env[k] = vjoin(va, vb)
                                continue
                            shifting = dd == d or (dd == 0 and (la is None or lb is None))
                            if shifting and (la is not None or lb is not None):
                                src = la if la is not None else lv_add(lb, -d)
                                if src != "TOP" and src[0] == "c":
                                    newl = ("s", sym, src[1] - base)
                                elif src != "TOP" and src[0] == "s" and src[1] == sym:
                                    newl = src
                                else:
                                    newl = "TOP"
                                env[k] = vjoin(with_level(va, newl), with_level(vb, newl))
                                continue
                            if la is not None and lb is not None:
                                env[k] = vjoin(with_level(va, "TOP"), with_level(vb, "TOP"))
                                continue
                        env[k] = vjoin(va, vb)
                    return (env, self.facts_join(fa, fb))
        env = {}
        for k in set(enva) | set(envb):
            va, vb = enva.get(k), envb.get(k)
            env[k] = va if vb is None else (vb if va is None else vjoin(va, vb))
        return (env, self.facts_join(fa, fb))

    def facts_join(self, fa, fb):
        out = set(fa & fb)
        for x, y in ((fa, fb), (fb, fa)):
            if ("unbounded",) in x and ("unbounded",) not in y:
                out |= {z for z in y if z[0] == "noabort"}
        for x in fa - fb:
            if x[0] in ("noabort", "abort"):
                for y in fb - fa:
                    if y[0] == x[0] and self._delta(x[1], y[1]) == 0:
                        out.add(x if x[1][0] == "s" else y)
        return frozenset(out)

    def _delta(self, la, lb):
        if la is None or lb is None:
            return 0
        if la == "TOP" or lb == "TOP":
            return None
        if la[0] == "c" and lb[0] == "c":
            return lb[1] - la[1]
        if la[0] == "s" and lb[0] == "s" and la[1] == lb[1]:
            return lb[2] - la[2]
        # a constant seen on the entry pass is the instance σ = symref[σ] of the symbolic value
        if la[0] == "s" and lb[0] == "c" and la[1] in self.symref:
            return (lb[1] - self.symref[la[1]]) - la[2]
        if la[0] == "c" and lb[0] == "s" and lb[1] in self.symref:
            return lb[2] - (la[1] - self.symref[lb[1]])
        return None

    # ------------------------------------------------------------- transfer
    def transfer(self, f, cfg, n, st, rec, rets):
        env, facts = st
        k = n.kind
        if k == "guard":
            return self.guard(f, n, env, facts, rec)
        if k == "test":
            self.ev(f, n.cond, env, facts, rec, n)
            return st
        if k == "foriter":
            it = self.ev(f, n.ast.iter, env, facts, rec, n)
            self.loop_iter_values[id(n.ast)] = vjoin(self.loop_iter_values.get(id(n.ast)), it) if id(n.ast) in self.loop_iter_values else it
            if isinstance(it, tuple) and it[0] == "count":
                env2 = dict(env)
                env2["#count%d" % id(n.ast)] = ("int", lv_add(it[1], -1))
                return (env2, facts)
            return st
        if k == "loopin":
            it = self.ev(f, n.ast.iter, env, facts, False, n)
            env2 = dict(env)
            if isinstance(it, tuple) and it[0] == "count":
                key = "#count%d" % id(n.ast)
                cur = env.get(key, ("int", lv_add(it[1], -1)))
                nxt = ("int", lv_add(cur[1], 1)) if isinstance(cur, tuple) and cur[0] == "int" else TOPV
                env2[key] = nxt
                self.bind(f, n.ast.target, nxt, env2)
                return (env2, facts)
            self.bind(f, n.ast.target, self.elem(it), env2)
            return (env2, facts)
        if k == "return":
            if n.ast.value is not None:
                v = self.ev(f, n.ast.value, env, facts, rec, n)
                rets.append(v)
                # a strategy that is not itself a generator function hands back what it returns: that must be the result of a
                # tracked strategy call, otherwise nothing is known about the nodes it will yield
                if rec and f.srcname == "_iter" and not self._is_generator(f) and not (isinstance(v, tuple) and v and v[0] == "gen"):
                    self.problem("S2", f, n.ast, "the strategy returns `%s`, which is not the result of a tracked strategy / recursive "
                                 "call: the nodes it yields are produced by code this analysis does not follow" % norm(n.ast.value),
                                 undecided=True)
            return st
        if k == "stmt":
            s = n.ast
            if isinstance(s, ast.Assign):
                v = self.ev(f, s.value, env, facts, rec, n)
                env2 = dict(env)
                for t in s.targets:
                    self.bind(f, t, v, env2)
                return (env2, facts)
            if isinstance(s, ast.AugAssign) and isinstance(s.target, ast.Name):
                cur = env.get(s.target.id, TOPV)
                v = self.ev(f, s.value, env, facts, rec, n)
                env2 = dict(env)
                env2[s.target.id] = self.binop(s.op, cur, v)
                return (env2, facts)
            if isinstance(s, ast.Expr):
                c = s.value
                if isinstance(c, ast.Call) and isinstance(c.func, ast.Attribute) and c.func.attr in ("append", "extend") \
                        and isinstance(c.func.value, ast.Name) and isinstance(env.get(c.func.value.id), Seq) and len(c.args) == 1:
                    v = self.ev(f, c.args[0], env, facts, rec, n)
                    add = None
                    if c.func.attr == "append" and isinstance(v, Node):
                        adm, _ = self.admitted_here(v, facts)
                        # appended behind `if filter_(x):` - the accumulator holds filtered nodes only
                        flt = isinstance(c.args[0], ast.Name) and ("filter", c.args[0].id, True) in facts
                        add = Seq(v.level, v.checked, adm, False, flt)
                    elif c.func.attr == "extend" and isinstance(v, Seq):
                        add = v
                    env2 = dict(env)
                    env2[c.func.value.id] = vjoin(env[c.func.value.id], add) if add is not None else TOPV
                    return (env2, facts)
                self.ev(f, s.value, env, facts, rec, n)
                return st
            return st
        if k == "assert":
            return st
        return st

    def bind(self, f, t, v, env):
        if isinstance(t, ast.Name):
            env[t.id] = v
        elif isinstance(t, (ast.Tuple, ast.List)):
            for e in t.elts:
                self.bind(f, e, TOPV, env)

    def elem(self, v):
        if isinstance(v, Seq):
            if v.level is None:
                return Node(None, True, True, True)  # empty sequence: the loop body never runs
            return Node(v.level, v.checked, v.admitted, v.rec)
        if isinstance(v, tuple) and v[0] == "gen":
            return Node(None, True, True, True)
        if isinstance(v, tuple) and v[0] == "iterobj":
            return ("group",)
        return TOPV

    def guard(self, f, n, env, facts, rec):
        c, o = n.cond, n.outcome
        if isinstance(c, ast.Call):
            name = c.func.attr if isinstance(c.func, ast.Attribute) else (c.func.id if isinstance(c.func, ast.Name) else "")
            if name == "_abort_at_level" and len(c.args) == 2:
                lv = self.ev(f, c.args[0], env, facts, False, n)
                mv = self.ev(f, c.args[1], env, facts, False, n)
                g = None
                if isinstance(lv, tuple) and lv[0] == "int" and isinstance(mv, tuple) and mv[0] == "max":
                    g = lv_add(lv[1], mv[1])
                elif isinstance(lv, tuple) and lv[0] == "int" and mv == MAXNONE:
                    g = None
                if g is not None and g != "TOP":
                    return (env, facts | {("abort" if o else "noabort", g)})
                if rec and mv != MAXNONE:
                    self.problem("S3", f, c, "the depth guard `%s` does not compare a tracked level with this iterator's maxlevel: "
                                 "the level bookkeeping cannot be related to the nodes it guards" % norm(c), undecided=True)
                return (env, facts)
            fv = self.ev(f, c.func, env, facts, False, n) if isinstance(c.func, ast.Name) else None
            if fv == ("fn", "stop") and len(c.args) == 1 and not isinstance(c.args[0], ast.Name):
                return (env, facts | {("stopped" if o else "stopfalse", norm(c.args[0]))})
            if fv == ("fn", "filter_") and len(c.args) == 1 and not isinstance(c.args[0], ast.Name):
                return (env, facts | {("filter", norm(c.args[0]), o)})
            if fv == ("fn", "stop") and len(c.args) == 1 and isinstance(c.args[0], ast.Name):
                x = c.args[0].id
                v = env.get(x)
                if isinstance(v, Node) and not o:
                    env2 = dict(env)
                    env2[x] = Node(v.level, True, v.admitted, v.rec)
                    return (env2, facts)
                return (env, facts)
            if fv == ("fn", "filter_") and len(c.args) == 1 and isinstance(c.args[0], ast.Name):
                return (env, facts | {("filter", c.args[0].id, o)})
        if isinstance(c, ast.Compare) and len(c.ops) == 1:
            lv = self.ev(f, c.left, env, facts, False, n)
            rv = self.ev(f, c.comparators[0], env, facts, False, n)
            op = type(c.ops[0])
            # `start is None` on a node-or-None value
            for a, b, side in ((lv, rv, c.left), (rv, lv, c.comparators[0])):
                if isinstance(a, OptNode) and b == MAXNONE and op in (ast.Is, ast.IsNot) and isinstance(side, ast.Name):
                    is_none = o if op is ast.Is else not o
                    env2 = dict(env)
                    env2[side.id] = MAXNONE if is_none else a.node
                    return (env2, facts)
            # `maxlevel is None` / `is not None`
            for a, b in ((lv, rv), (rv, lv)):
                if isinstance(a, tuple) and a[0] == "max" and b == MAXNONE and op in (ast.Is, ast.IsNot):
                    is_none = o if op is ast.Is else not o
                    return (env, facts | ({("unbounded",)} if is_none else {("bounded",)}))
            # level > maxlevel  (and the mirrored / negated spellings)
            lvl, mx, aop = None, None, None
            if isinstance(lv, tuple) and lv[0] == "int" and isinstance(rv, tuple) and rv[0] == "max":
                lvl, mx, aop = lv, rv, op
            elif isinstance(rv, tuple) and rv[0] == "int" and isinstance(lv, tuple) and lv[0] == "max":
                lvl, mx = rv, lv
                aop = {ast.Gt: ast.Lt, ast.Lt: ast.Gt, ast.GtE: ast.LtE, ast.LtE: ast.GtE}.get(op)
            if lvl is not None and aop in (ast.Gt, ast.LtE, ast.GtE, ast.Lt) and lvl[1] not in (None, "TOP"):
                # normalise to "level > maxlevel" == abort(level)
                if aop is ast.Gt:
                    g, aborted = lv_add(lvl[1], mx[1]), o
                elif aop is ast.LtE:
                    g, aborted = lv_add(lvl[1], mx[1]), not o
                elif aop is ast.GtE:  # level >= m  <=>  level + 1 > m
                    g, aborted = lv_add(lvl[1], mx[1] + 1), o
                else:  # level < m  <=> not (level + 1 > m)
                    g, aborted = lv_add(lvl[1], mx[1] + 1), not o
                return (env, facts | {("abort" if aborted else "noabort", g)})
        if isinstance(c, ast.Name) and env.get(c.id) == ("group",):
            if rec:
                self.problem("S5", f, c, "the truth value of a level group decides the control flow: an admitted level whose nodes are all "
                             "filtered out (an empty tuple) is treated like the end of the traversal")
            return (env, facts)
        if isinstance(c, ast.Name) and isinstance(env.get(c.id), Seq):
            return (env, facts | {("nonempty", c.id, o)})
        if isinstance(c, ast.Name) and isinstance(env.get(c.id), tuple) and env[c.id][0] == "abortv":
            _, g, truthy_is_abort = env[c.id]
            aborted = o if truthy_is_abort else not o
            return (env, facts | {("abort" if aborted else "noabort", g)})
        return (env, facts)

    def admitted_here(self, v, facts):
        """(ok, detail): the value lies within maxlevel at this point"""
        if v.admitted or v.level is None:
            return True, "admitted by construction"
        if ("unbounded",) in facts:
            return True, "maxlevel is None on this path"
        if v.level == "TOP":
            return False, "its level is not tracked consistently"
        gs = [g for kind, *rest in facts if kind == "noabort" for g in rest]
        if v.level in gs:
            return True, "under `not _abort_at_level(%s, maxlevel)`" % lv_show(v.level)
        if gs:
            return False, "it is at level %s but the depth guard in force tests level %s" % (lv_show(v.level), ", ".join(lv_show(g) for g in gs))
        return False, "it is at level %s and no depth guard is in force" % lv_show(v.level)

    # ---------------------------------------------------------- expressions
    def binop(self, op, l, r):
        if isinstance(op, ast.Add):
            if isinstance(l, Seq) and isinstance(r, Seq):
                return Seq(lv_join(l.level, r.level), l.checked and r.checked, l.admitted and r.admitted, False, l.filtered and r.filtered)
            if isinstance(l, tuple) and l[0] == "int" and isinstance(r, tuple) and r[0] == "int" and r[1] is not None and r[1] != "TOP" and r[1][0] == "c":
                return ("int", lv_add(l[1], r[1][1]))
            if isinstance(r, tuple) and r[0] == "int" and isinstance(l, tuple) and l[0] == "int" and l[1] is not None and l[1] != "TOP" and l[1][0] == "c":
                return ("int", lv_add(r[1], l[1][1]))
        if isinstance(op, ast.Sub):
            if isinstance(l, tuple) and l[0] == "max" and isinstance(r, tuple) and r[0] == "int" and r[1] not in (None, "TOP") and r[1][0] == "c":
                return ("max", l[1] + r[1][1])
            if isinstance(l, tuple) and l[0] == "int" and isinstance(r, tuple) and r[0] == "int" and r[1] not in (None, "TOP") and r[1][0] == "c":
                return ("int", lv_add(l[1], -r[1][1]))
        return TOPV

    def ev(self, f, e, env, facts, rec, cn):
        v = self._ev(f, e, env, facts, rec, cn)
        if isinstance(v, Node) and not v.checked and not isinstance(e, ast.Name) and ("stopfalse", norm(e)) in facts:
            v = Node(v.level, True, v.admitted, v.rec)
        return v

    def _ev(self, f, e, env, facts, rec, cn):
        if isinstance(e, ast.Constant):
            if isinstance(e.value, bool):
                return TOPV
            if isinstance(e.value, int):
                return ("int", ("c", e.value))
            if e.value is None:
                return MAXNONE
            return TOPV
        if isinstance(e, ast.Name):
            return env.get(e.id, ("global", e.id))
        if isinstance(e, ast.List) or isinstance(e, ast.Tuple):
            if not e.elts:
                return Seq(None, True, True)
            vs = [self.ev(f, x, env, facts, rec, cn) for x in e.elts]
            if all(isinstance(v, Node) for v in vs):
                out = None
                for v in vs:
                    adm, _ = self.admitted_here(v, facts)
                    out = vjoin(out, Seq(v.level, v.checked, adm))
                return out
            return TOPV
        if isinstance(e, ast.BinOp):
            return self.binop(e.op, self.ev(f, e.left, env, facts, rec, cn), self.ev(f, e.right, env, facts, rec, cn))
        if isinstance(e, ast.IfExp):
            self.ev(f, e.test, env, facts, rec, cn)
            return vjoin(self.ev(f, e.body, env, facts, rec, cn), self.ev(f, e.orelse, env, facts, rec, cn))
        if isinstance(e, ast.BoolOp):
            out = None
            first = self.ev(f, e.values[0], env, facts, rec, cn)
            if isinstance(e.op, ast.Or) and isinstance(first, tuple) and first[0] == "fn" and f.srcname == "__init":
                # `self.filter_ or <default>`: the default stands for the same option (that it is a constant hook with
                # the right answer is rule S4's obligation)
                return first
            for v in e.values:
                out = vjoin(out, self.ev(f, v, env, facts, rec, cn)) if out is not None else self.ev(f, v, env, facts, rec, cn)
            return out
        if isinstance(e, ast.Attribute):
            recv = self.ev(f, e.value, env, facts, rec, cn)
            if recv == ("iterself",):
                if e.attr == "node":
                    return Node(("c", 1), False, False)
                if e.attr == "maxlevel":
                    return ("max", 0)
                if e.attr in ("filter_", "stop"):
                    return ("fn", e.attr)
                if e.attr.endswith("default_filter"):
                    return ("fn", "filter_")
                if e.attr.endswith("default_stop"):
                    return ("fn", "stop")
                return ("selfattr", e.attr)
            if isinstance(recv, tuple) and recv[0] == "global":
                if e.attr.endswith("default_filter"):
                    return ("fn", "filter_")
                if e.attr.endswith("default_stop"):
                    return ("fn", "stop")
                return ("global", recv[1] + "." + e.attr)
            if isinstance(recv, Node) and e.attr == "children":
                if rec:
                    if recv.checked:
                        self.ok("S1", f, e, "children of %r are loaded only after stop() was false for it" % recv)
                    else:
                        self.problem("S1", f, e, "the children of a node are loaded although stop() has not been applied to that node: "
                                     "the traversal descends below a stopped node (stop must prune the whole subtree)")
                return Seq(lv_add(recv.level, 1) if recv.level is not None else None, False, False)
            return TOPV
        if isinstance(e, ast.Subscript):
            recv = self.ev(f, e.value, env, facts, rec, cn)
            if recv == ("group",) and isinstance(e.slice, ast.Slice):
                return ("group",)  # a slice of a level group (e.g. the reversed copy group[::-1]) holds nodes of that group only
            if isinstance(recv, Seq) and not isinstance(e.slice, ast.Slice):
                return Node(recv.level, recv.checked, recv.admitted)
            return TOPV
        if isinstance(e, (ast.ListComp, ast.GeneratorExp)):
            return self.comp(f, e, env, facts, rec, cn)
        if isinstance(e, ast.Call):
            return self.call(f, e, env, facts, rec, cn)
        if isinstance(e, ast.Yield):
            v = self.ev(f, e.value, env, facts, rec, cn) if e.value is not None else TOPV
            if rec:
                self.check_yield(f, e, v, env, facts, cn)
            return TOPV
        if isinstance(e, ast.YieldFrom):
            v = self.ev(f, e.value, env, facts, rec, cn)
            if rec and not (isinstance(v, tuple) and v[0] == "gen"):
                self.problem("S2", f, e, "yield from a value that is not the result of a recursive strategy call", undecided=True)
            return TOPV
        if isinstance(e, ast.UnaryOp):
            v = self.ev(f, e.operand, env, facts, rec, cn)
            if isinstance(e.op, ast.Not) and isinstance(v, tuple) and v[0] == "abortv":
                return ("abortv", v[1], not v[2])
            return TOPV
        if isinstance(e, ast.Compare):
            return TOPV
        if isinstance(e, ast.Lambda):
            return TOPV
        return TOPV

    def comp(self, f, e, env, facts, rec, cn):
        if not e.generators or not all(isinstance(g.target, ast.Name) for g in e.generators):
            return TOPV
        cenv = dict(env)
        for g in e.generators[:-1]:
            srcv = self.ev(f, g.iter, cenv, facts, rec, cn)
            if not isinstance(srcv, Seq):
                return TOPV
            node = self.elem(srcv)
            for c in g.ifs:
                t, pol = c, True
                if isinstance(t, ast.UnaryOp) and isinstance(t.op, ast.Not):
                    t, pol = t.operand, False
                if isinstance(t, ast.Call) and len(t.args) == 1 and isinstance(t.args[0], ast.Name) and t.args[0].id == g.target.id \
                        and self.ev(f, t.func, cenv, facts, False, cn) == ("fn", "stop") and pol is False and isinstance(node, Node):
                    node = Node(node.level, True, node.admitted, node.rec)
                elif rec:
                    self.problem("S2", f, c, "comprehension condition `%s` on an outer loop variable is not `not stop(x)`" % norm(c))
            cenv[g.target.id] = node
        env = cenv
        g = e.generators[-1]
        src = self.ev(f, g.iter, env, facts, rec, cn)
        if not isinstance(src, Seq):
            return TOPV
        var = g.target.id
        if not (isinstance(e.elt, ast.Name) and e.elt.id == var):
            return TOPV
        checked, filtered = src.checked, src.filtered
        conds = []
        for c in g.ifs:
            conds.extend(c.values if isinstance(c, ast.BoolOp) and isinstance(c.op, ast.And) else [c])
        for c in conds:
            pol = True
            t = c
            if isinstance(t, ast.Compare) and len(t.ops) == 1 and isinstance(t.ops[0], ast.IsNot) and isinstance(t.left, ast.Name) and t.left.id == var \
                    and isinstance(t.comparators[0], ast.Constant) and t.comparators[0].value is None:
                continue  # `x is not None`: placeholders in a duck-typed children sequence are dropped, no node is
            if isinstance(t, ast.UnaryOp) and isinstance(t.op, ast.Not):
                pol, t = False, t.operand
            if isinstance(t, ast.Call) and len(t.args) == 1 and isinstance(t.args[0], ast.Name) and t.args[0].id == var:
                fv = self.ev(f, t.func, env, facts, False, cn)
                if fv == ("fn", "stop") and pol is False:
                    checked = True
                    continue
                if fv == ("fn", "filter_") and pol is True:
                    filtered = True
                    continue
            if rec:
                self.problem("S2", f, c, "comprehension condition `%s` is neither `not stop(x)` nor `filter_(x)`" % norm(c))
        return Seq(src.level, checked, src.admitted, src.rec, filtered)

    def call(self, f, e, env, facts, rec, cn):
        fn = e.func
        name = fn.attr if isinstance(fn, ast.Attribute) else (fn.id if isinstance(fn, ast.Name) else "")
        args = [self.ev(f, a, env, facts, rec, cn) for a in e.args if not isinstance(a, ast.Starred)]
        kw = {k.arg: self.ev(f, k.value, env, facts, rec, cn) for k in e.keywords}
        if name == "_get_children" and len(args) == 2 and self.get_children_ok is None:
            self.get_children_ok = self.verify_get_children()
        if name == "_get_children" and len(args) == 2:
            s, st = args
            if rec:
                if st == ("fn", "stop"):
                    self.ok("S1", f, e, "stop applied to %r" % (s,))
                else:
                    self.problem("S1", f, e, "_get_children is not given this iterator's stop function")
            if isinstance(s, Seq):
                adm, _ = self.admitted_here(Seq(s.level, True, s.admitted), facts)
                return Seq(s.level, st == ("fn", "stop"), adm)
            return TOPV
        if name in ("tuple", "list") and len(args) == 1 and isinstance(args[0], Node) and args[0].level == ("c", 1) and not args[0].checked:
            # the start value taken as a collection of start nodes (`list(node)` behind an exact-type test): all on level 1,
            # none of them stop-checked yet.  (Whether `node` may be iterated at all is the identity lint's subject.)
            return Seq(("c", 1), False, False)
        if name in ("tuple", "list", "reversed") and len(args) == 1:
            return args[0]
        if name == "next" and args and isinstance(args[0], tuple) and args[0][0] == "iterobj":
            return ("group",)
        if name == "next" and args and isinstance(args[0], tuple) and args[0][0] == "gen" and len(args[0]) > 1 and args[0][1].endswith("GroupIter"):
            return ("group",)  # an item of a group strategy run directly
        if name == "count" and (isinstance(fn, ast.Attribute) or isinstance(fn, ast.Name)):
            start = args[0] if args else kw.get("start", ("int", ("c", 0)))
            step = args[1] if len(args) > 1 else kw.get("step", ("int", ("c", 1)))
            if isinstance(start, tuple) and start[0] == "int" and step == ("int", ("c", 1)):
                return ("count", start[1])
            return TOPV
        if name in ("len", "iter", "enumerate", "isinstance"):
            return TOPV
        # user callbacks in value position
        fv = self.ev(f, fn, env, facts, False, cn) if isinstance(fn, ast.Name) else None
        if fv in (("fn", "stop"), ("fn", "filter_")):
            return TOPV
        # iterator construction inside a strategy (ZigZag)
        tgt = self.p.classes.get(name) if isinstance(fn, ast.Name) else None
        if tgt is not None and tgt.is_subclass_of(self.base):
            if rec:
                b = dict(zip(["node", "filter_", "stop", "maxlevel"], args))
                b.update(kw)
                good = b.get("filter_") == ("fn", "filter_") and b.get("stop") == ("fn", "stop") and b.get("maxlevel") == ("max", 0)
                start = b.get("node")
                forest = isinstance(start, Seq) and start.level == ("c", 1) and self._init_accepts_list()
                if good and ((isinstance(start, Node) and start.level == ("c", 1)) or forest):
                    self.ok("S4", f, e, "filter_, stop, maxlevel forwarded unchanged to %s over the start node" % name)
                else:
                    self.problem("S4", f, e, "%s is not constructed over the start node with this iterator's filter_, stop and maxlevel "
                                 "in the slots of the same name" % name)
            return ("iterobj", name)
        # strategy functions of the package
        callee = None
        if isinstance(fn, ast.Attribute):
            owner = None
            if isinstance(fn.value, ast.Name) and fn.value.id in self.p.classes:
                owner = self.p.classes[fn.value.id]
            elif self.ev(f, fn.value, env, facts, False, cn) == ("iterself",):
                owner = f.cls
            if owner is not None:
                from .model import mangle
                mem = owner.lookup(mangle(f.cls.name if f.cls is not None else owner.name, fn.attr)) or owner.lookup(fn.attr)
                if isinstance(mem, Func) and not (mem.cls is self.base and mem.srcname == "_iter"):
                    callee = mem
                elif owner.name == "AbstractIter" or True:
                    # self._iter(...) dispatches to every strategy
                    if fn.attr == "_iter":
                        callee = "dispatch"
        if callee is None and isinstance(fn, ast.Name):
            scope = f
            while scope is not None and callee is None:
                for g in scope.nested:
                    if g.srcname == fn.id and not g.is_lambda:
                        callee = g
                scope = scope.outer
        if callee is None and isinstance(fn, ast.Name):
            g = self.modfuncs.get((f.module.relpath, fn.id))
            if g is not None:
                callee = g
        if callee == "dispatch":
            for (c, nme), g in self.funcs.items():
                if nme == "_iter" and c != "AbstractIter":
                    self.call_site(f, e, g, args, kw, facts, rec)
            return ("gen",)
        if isinstance(callee, Func):
            if callee.srcname in ("_iter", "__next") or self.is_rec_strategy(callee):
                self.call_site(f, e, callee, args, kw, facts, rec)
                if callee.srcname == "_iter" and callee.cls is not None and callee.cls is not f.cls:
                    return ("gen", callee.cls.name)  # another iterator's strategy run directly (ZigZag on LevelOrderGroup)
                return ("gen",)
            if callee.srcname == "_get_grandchildren":
                self.call_site(f, e, callee, args, kw, facts, rec)
                summ = self.summaries.get(callee)
                s = args[0] if args else None
                if isinstance(summ, Seq) and isinstance(s, Seq) and summ.level not in (None, "TOP") and summ.level[0] == "s":
                    lvl = lv_add(s.level, summ.level[2]) if s.level not in (None, "TOP") else s.level
                    adm, _ = self.admitted_here(Seq(lvl, True, False), facts)
                    return Seq(lvl, summ.checked, adm)
                return TOPV
            if callee.srcname not in ("_iter", "__next", "_get_grandchildren", "_abort_at_level", "_get_children") and callee not in self._helper_stack:
                return self.call_helper(f, callee, args, kw, facts, rec)
            if callee.srcname == "_abort_at_level":
                if len(args) == 2 and isinstance(args[0], tuple) and args[0][0] == "int" and isinstance(args[1], tuple) and args[1][0] == "max":
                    g = lv_add(args[0][1], args[1][1])
                    if g is not None and g != "TOP":
                        return ("abortv", g, True)  # truthy <=> abort
                return TOPV
        return TOPV

    def _init_accepts_list(self):
        from .rules.c05 import accepts_list_start
        ini = self.funcs.get(("AbstractIter", "__init"))
        return ini is not None and accepts_list_start(ini.node)

    def verify_get_children(self):
        """_get_children(children, stop) returns nodes of its argument only, each with stop(node) false"""
        g = self.funcs.get(("AbstractIter", "_get_children"))
        if g is None:
            raise AnalysisError("anchor AbstractIter._get_children not found")
        ps = g.posparams
        env = {ps[0]: Seq(("s", "L", 0), False, True), ps[1]: ("fn", "stop")}
        self._helper_stack.append(g)
        try:
            ret = self.analyse(g, record=False, entry=(env, frozenset()))
        finally:
            self._helper_stack.pop()
        ok = isinstance(ret, Seq) and ret.checked and ret.level in (("s", "L", 0), None)
        return (ok, ret)

    def call_helper(self, f, callee, args, kw, facts, rec):
        """context-sensitive analysis of any other member function of the iterator classes"""
        ps = callee.posparams
        env = {}
        for i, prm in enumerate(ps):
            if i < len(args):
                env[prm] = args[i]
            elif prm in kw:
                env[prm] = kw[prm]
            else:
                env[prm] = TOPV
        self._helper_stack.append(callee)
        try:
            return self.analyse(callee, record=rec, entry=(env, frozenset(x for x in facts if x[0] in ("noabort", "abort", "unbounded", "bounded"))))
        finally:
            self._helper_stack.pop()

    def call_site(self, f, e, callee, args, kw, facts, rec):
        ps = callee.posparams
        b = dict(zip(ps, args))
        b.update(kw)
        s = b.get(self.seq_param(callee) or "children")
        if not isinstance(s, Seq):
            if rec:
                self.problem("S3", f, e, "the sequence passed to %s is not a tracked node sequence" % callee.qual, undecided=True)
            return
        adm, why = self.admitted_here(s, facts)
        self.callsite_facts.setdefault(callee, []).append((s.checked, adm))
        if not rec:
            return
        if callee.srcname == "_get_grandchildren":
            if b.get("stop") == ("fn", "stop"):
                self.ok("S4", f, e, "stop passed on unchanged")
            else:
                self.problem("S4", f, e, "stop is not passed on unchanged to %s" % callee.qual)
            return
        # level agreement
        mv = b.get("maxlevel")
        lp = self.level_param(callee)
        if lp is not None:
            lv = b.get(lp[0])
            if lv is None and lp[1] is not None:
                lv = ("int", ("c", lp[1]))
            if isinstance(lv, tuple) and lv[0] == "int" and lv[1] == s.level and s.level not in (None, "TOP"):
                self.ok("S3", f, e, "level argument %s equals the level of the sequence passed" % lv_show(s.level))
            elif s.level is None:
                self.ok("S3", f, e, "empty sequence")
            else:
                self.problem("S3", f, e, "the level argument (%s) does not equal the level of the nodes passed (%s): the depth limit is "
                             "applied one level off" % (lv_show(lv[1]) if isinstance(lv, tuple) and lv[0] == "int" else "?", lv_show(s.level)))
            if mv != ("max", 0) and mv is not None:
                self.problem("S3", f, e, "maxlevel is not passed on unchanged to %s" % callee.qual)
        else:
            k = mv[1] if isinstance(mv, tuple) and mv[0] == "max" else None
            if s.level is None:
                self.ok("S3", f, e, "empty sequence")
            elif k is None or s.level == "TOP":
                self.problem("S3", f, e, "cannot relate the sequence passed to %s to the maxlevel passed with it" % callee.qual)
            else:
                rel = lv_add(s.level, -k)
                if rel == ("c", 1):
                    self.ok("S3", f, e, "nodes at level %s passed with maxlevel - %d: level 1 for the callee" % (lv_show(s.level), k))
                else:
                    self.problem("S3", f, e, "nodes at level %s are passed with maxlevel - %d, i.e. as level %s of the callee, which "
                                 "treats its argument as level 1: the depth limit is off by %s" % (
                                     lv_show(s.level), k, lv_show(rel), "one or more levels"))
        for opt in ("filter_", "stop"):
            if opt not in callee.posparams and callee.outer is not None:
                continue  # captured from the enclosing strategy (closure): the same option by construction
            if b.get(opt) != ("fn", opt):
                self.problem("S4", f, e, "%s is not passed on unchanged to %s" % (opt, callee.qual))
            else:
                self.ok("S4", f, e, "%s passed on unchanged" % opt)

    # ---------------------------------------------------------------- yields
    def check_yield(self, f, y, v, env, facts, cn):
        val = y.value
        if v == ("group",):
            self.ok("S2", f, y, "group from the forwarded LevelOrderGroupIter")
            return
        if isinstance(v, Node):
            if v.rec:
                self.ok("S2", f, y, "element of a recursive strategy call (restricted there)")
                return
            if v.checked:
                self.ok("S1", f, y, "yielded node passed stop()")
            else:
                self.problem("S1", f, y, "a node is yielded although stop() has not been applied to it")
            adm, why = self.admitted_here(v, facts)
            if adm:
                self.ok("S3", f, y, "yielded node within maxlevel (%s)" % why)
            else:
                self.problem("S3", f, y, "a node is yielded although it is not known to lie within maxlevel: %s" % why,
                             undecided=(v.level == "TOP"))
            name = val.id if isinstance(val, ast.Name) else norm(val)
            if name is not None and ("filter", name, True) in facts:
                self.ok("S2", f, y, "yield guarded by filter_(%s)" % name)
            else:
                self.problem("S2", f, y, "a node is yielded without filter_(node) being true on this path")
            return
        if isinstance(v, Seq):
            if v.rec:
                self.ok("S2", f, y, "group of a recursive strategy call")
                return
            if not v.checked:
                self.problem("S1", f, y, "a group is yielded whose nodes have not passed stop()")
            else:
                self.ok("S1", f, y, "group nodes passed stop()")
            adm, why = self.admitted_here(v, facts)
            if adm:
                self.ok("S3", f, y, "group within maxlevel (%s)" % why)
            else:
                self.problem("S3", f, y, "a level group is yielded although it is not known to lie within maxlevel: %s" % why)
            if v.filtered:
                self.ok("S2", f, y, "group restricted by filter_")
            else:
                self.problem("S2", f, y, "a level group is yielded without restricting it by filter_")
            return
        self.problem("S2", f, y, "yielded value `%s` is not a tracked node, group or recursive result" % norm(val), undecided=True)
