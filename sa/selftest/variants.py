"""Self-validation corpus: seeded violations (must fire) and benign twins
(must stay silent).  Edits are (relpath, old text, new text[, expected count])
against /repo's current sources."""

NM = "anytree/node/nodemixin.py"
LM = "anytree/node/lightnodemixin.py"

VARIANTS = []


def seeded(id_, props, edits, rules=None, **kw):
    VARIANTS.append(dict(id=id_, props=props, kind="seeded", edits=edits, rules=rules, **kw))


def benign(id_, props, edits, **kw):
    VARIANTS.append(dict(id=id_, props=props, kind="benign", edits=edits, **kw))


def both(old, new, count=1):
    """the same edit applied to both mixins"""
    return [(NM, old, new, count), (LM, old, new, count)]


# ------------------------------------------------------------------ C18
seeded("c18-light-insert-front", ["C18"], [(LM, "parentchildren.append(self)", "parentchildren.insert(0, self)")], ["M4"])
seeded("c18-node-only-noop-guard", ["C18"], [(NM, "if parent is not value:", "if parent is not value or value is None:")], ["M4"])
seeded("c18-light-drop-post-detach", ["C18"], [(LM, "            self._post_detach(parent)\n", "")], ["M4"])
seeded("c18-light-height", ["C18"], [(LM, "return max(child.height for child in children) + 1", "return max(child.height for child in children)")], ["M4"])
seeded("c18-light-siblings-eq", ["C18"], [(LM, "if node is not self)", "if node != self)")], ["M4"])
seeded("c18-light-extra-member", ["C18"], [(LM, "    @property\n    def is_root(self):", "    def extra(self):\n        return 1\n\n    @property\n    def is_root(self):")], ["M1"])
seeded("c18-slots-missing", ["C18"], [(LM, '__slots__ = ["__parent", "__children"]', '__slots__ = ["__parent"]')], ["M6"])
seeded("c18-typecheck-one-mixin", ["C18"], [(NM, "if value is not None and not isinstance(value, (NodeMixin, LightNodeMixin)):", "if value is not None and not isinstance(value, NodeMixin):")], ["M4"])
seeded("c18-light-separator", ["C18"], [(LM, 'separator = "/"', 'separator = "|"')], ["M5"])
benign("c18-both-rename-local", ["C18"], both("parentchildren", "pchildren_", 0))
benign("c18-light-rename-local", ["C18"], [(LM, "parentchildren", "plist", 0)])
benign("c18-docstring-only", ["C18"], [(LM, "Parent Node.", "The parent node.")])
benign("c18-light-not-is", ["C18"], [(LM, "if parent is not value:", "if not (parent is value):")])
benign("c18-both-early-return", ["C18"], both("""        if parent is not value:
            self.__check_loop(value)
            self.__detach(parent)
            self.__attach(value)
""", """        if parent is value:
            return
        self.__check_loop(value)
        self.__detach(parent)
        self.__attach(value)
"""))
