"""Self-validation corpus: seeded violations (must fire) and benign twins
(must stay silent).  Edits are (relpath, old text, new text[, expected count])
against /repo's current sources."""

NM = "anytree/node/nodemixin.py"
LM = "anytree/node/lightnodemixin.py"

VARIANTS = []


def seeded(id_, props, edits, rules=None, **kw):
    VARIANTS.append(dict(id=id_, props=props, kind="seeded", edits=edits, rules=rules, **kw))


def benign(id_, props, edits, **kw):
    VARIANTS.append(dict(id=id_, props=props, kind="benign", edits=edits, **kw))


def both(old, new, count=1):
    """the same edit applied to both mixins"""
    return [(NM, old, new, count), (LM, old, new, count)]


# ------------------------------------------------------------------ C18
seeded("c18-light-insert-front", ["C18"], [(LM, "parentchildren.append(self)", "parentchildren.insert(0, self)")], ["M4"])
seeded("c18-node-only-noop-guard", ["C18"], [(NM, "if parent is not value:", "if parent is not value or value is None:")], ["M4"])
seeded("c18-light-drop-post-detach", ["C18"], [(LM, "            self._post_detach(parent)\n", "")], ["M4"])
seeded("c18-light-height", ["C18"], [(LM, "return max(child.height for child in children) + 1", "return max(child.height for child in children)")], ["M4"])
seeded("c18-light-siblings-eq", ["C18"], [(LM, "if node is not self)", "if node != self)")], ["M4"])
seeded("c18-light-extra-member", ["C18"], [(LM, "    @property\n    def is_root(self):", "    def extra(self):\n        return 1\n\n    @property\n    def is_root(self):")], ["M1"])
seeded("c18-slots-missing", ["C18"], [(LM, '__slots__ = ["__parent", "__children"]', '__slots__ = ["__parent"]')], ["M6"])
# a node-type check that names only the mixin's own class is as dead for a tree built from that mixin as one naming both
# (C18 compares a NodeMixin history with the same history on LightNodeMixin nodes, not mixed trees): benign since round 13
benign("c18-typecheck-one-mixin", ["C18"], [(NM, "if value is not None and not isinstance(value, (NodeMixin, LightNodeMixin)):", "if value is not None and not isinstance(value, NodeMixin):")])
seeded("c18-light-separator", ["C18"], [(LM, 'separator = "/"', 'separator = "|"')], ["M5"])
benign("c18-both-rename-local", ["C18"], both("parentchildren", "pchildren_", 0))
benign("c18-light-rename-local", ["C18"], [(LM, "parentchildren", "plist", 0)])
benign("c18-docstring-only", ["C18"], [(LM, "Parent Node.", "The parent node.")])
benign("c18-light-not-is", ["C18"], [(LM, "if parent is not value:", "if not (parent is value):")])
benign("c18-both-early-return", ["C18"], both("""        if parent is not value:
            self.__check_loop(value)
            self.__detach(parent)
            self.__attach(value)
""", """        if parent is value:
            return
        self.__check_loop(value)
        self.__detach(parent)
        self.__attach(value)
"""))

# ------------------------------------------------------- C01 / C02 / C03 / C16
DET_ATOMIC = """            parent.__children = [child for child in parentchildren if child is not self]
            self.__parent = None
"""
seeded("c01-hook-between-atomic-writes", ["C01", "C16"], both(
    DET_ATOMIC + "            # ATOMIC END\n            self._post_detach(parent)\n",
    "            parent.__children = [child for child in parentchildren if child is not self]\n"
    "            self._post_detach(parent)\n            self.__parent = None\n            # ATOMIC END\n"), ["W2", "H1"])
seeded("c01-children-returns-raw-list", ["C01"], both(
    "        return tuple(self.__children_or_empty)\n", "        return self.__children_or_empty\n"), ["W6"])
seeded("c01-foreign-link-write", ["C01"], [("anytree/node/node.py", "        self.name = name\n",
                                            "        self.name = name\n        self._NodeMixin__children = []\n")], ["W1"])
seeded("c01-setattr-string-link-write", ["C01"], [("anytree/importer/dictimporter.py", "        for child in children:\n",
                                                   "        setattr(node, \"_NodeMixin__parent\", parent)\n        for child in children:\n")], ["W1"])
seeded("c01-loopcheck-after-detach", ["C01", "C03"], both(
    "            self.__check_loop(value)\n            self.__detach(parent)\n",
    "            self.__detach(parent)\n            self.__check_loop(value)\n"), ["W5", "A2"])
seeded("c01-no-ancestor-scan", ["C01"], both(
    """            if any(child is self for child in node.iter_path_reverse()):
                msg = "Cannot set parent. %r is parent of %r."
                raise LoopError(msg % (self, node))
""", ""), ["W5"])
seeded("c01-assert-unguarded", ["C01"], both(
    """        if ASSERTIONS:  # pragma: no branch
            assert len(self.children) == 0
""", """        assert len(self.children) == 0
"""), ["W8"])
seeded("c01-only-list-write", ["C01"], both("            self.__parent = None\n", "            pass\n"), ["W2"])
seeded("c01-attach-wrong-parent-field", ["C01"], both("            self.__parent = parent\n            # ATOMIC END\n            self._post_attach",
                                                       "            self.__parent = self\n            # ATOMIC END\n            self._post_attach"), ["W3"])
seeded("c01-deleter-clears-list-directly", ["C01"], both(
    "        for child in self.children:\n            child.parent = None\n",
    "        for child in self.children:\n            child.parent = None\n        self.__children_or_empty.clear()\n"), ["W7"])
benign("c01-attach-by-concat", ["C01", "C02", "C16", "C03"], both(
    "            parentchildren.append(self)\n", "            parent.__children = parentchildren + [self]\n"))
benign("c01-loopcheck-as-for-loop", ["C01", "C02", "C03"], both(
    """            if any(child is self for child in node.iter_path_reverse()):
                msg = "Cannot set parent. %r is parent of %r."
                raise LoopError(msg % (self, node))
""", """            for child in node.iter_path_reverse():
                if child is self:
                    msg = "Cannot set parent. %r is parent of %r."
                    raise LoopError(msg % (self, node))
"""))
benign("c01-noop-guard-early-return", ["C01", "C02", "C03", "C16"], both("""        if parent is not value:
            self.__check_loop(value)
            self.__detach(parent)
            self.__attach(value)
""", """        if value is parent:
            return
        self.__check_loop(value)
        self.__detach(parent)
        self.__attach(value)
"""))
benign("c01-detach-filter-not-is", ["C01", "C02", "C16"], both(
    "[child for child in parentchildren if child is not self]", "[c for c in parentchildren if not (c is self)]"))

seeded("c02-attach-at-front", ["C02"], both("            parentchildren.append(self)\n", "            parentchildren.insert(0, self)\n"), ["E4"])
seeded("c02-no-noop-guard", ["C02", "C16"], both("        if parent is not value:\n", "        if True:\n"), ["E1", "H3"])
# (was listed as seeded until round 19: with `or value is None` the body is also entered for None -> None, but __detach(None) and
# __attach(None) are guarded by `is not None` themselves, so no hook fires and no link is written: behaviour-preserving.  E1 now
# accepts effects behind "new value is None and stored parent is not None", which is what those guards establish.)
benign("c02-noop-guard-on-equality-of-none", ["C02"], both("        if parent is not value:\n", "        if parent is not value or value is None:\n"))
seeded("c02-attach-loop-reversed", ["C02"], both(
    "            for child in children:\n                child.parent = self\n",
    "            for child in reversed(children):\n                child.parent = self\n"), ["E5"])
seeded("c02-duplicates-by-equality", ["C02", "C17"], both(
    "            childid = id(child)\n", "            childid = child\n"), ["E3", "T2", "T4"])
seeded("c02-duplicate-check-dropped", ["C02"], both(
    """            if childid not in seen:
                seen.add(childid)
            else:
                msg = "Cannot add node %r multiple times as child." % (child,)
                raise TreeError(msg)
""", "            seen.add(childid)\n"), ["E3", "E2"])
seeded("c02-constructor-drops-last-child", ["C02"], [("anytree/node/anynode.py", "            self.children = children\n",
                                                      "            self.children = children[:-1]\n")], ["E5c"])
seeded("c02-constructor-parent-conditional", ["C02"], [("anytree/node/node.py", "        self.parent = parent\n",
                                                        "        if parent:\n            self.parent = parent\n")], ["E5c"])
seeded("c02-detach-removes-by-equality", ["C02", "C17"], both(
    "[child for child in parentchildren if child is not self]", "[child for child in parentchildren if child != self]"), ["E4", "T1", "W3"])
seeded("c02-attach-before-detach-children", ["C02", "C16"], both(
    """        old_children = self.children
        del self.children
        try:
            self._pre_attach_children(children)
            for child in children:
                child.parent = self
""", """        old_children = self.children
        try:
            self._pre_attach_children(children)
            for child in children:
                child.parent = self
            for child in old_children:
                if not any(child is c for c in children):
                    child.parent = None
"""), ["E5", "H5", "H4"])

seeded("c03-typecheck-after-detach", ["C03", "C02"], [(NM, """        if value is not None and not isinstance(value, (NodeMixin, LightNodeMixin)):
            msg = "Parent node %r is not of type 'NodeMixin'." % (value,)
            raise TreeError(msg)
        if hasattr(self, "_NodeMixin__parent"):
            parent = self.__parent
        else:
            parent = None
        if parent is not value:
            self.__check_loop(value)
            self.__detach(parent)
""", """        if hasattr(self, "_NodeMixin__parent"):
            parent = self.__parent
        else:
            parent = None
        if parent is not value:
            self.__check_loop(value)
            self.__detach(parent)
            if value is not None and not isinstance(value, (NodeMixin, LightNodeMixin)):
                msg = "Parent node %r is not of type 'NodeMixin'." % (value,)
                raise TreeError(msg)
""")], ["A2", "E2"])
seeded("c03-pre-detach-after-write", ["C03", "C16"], both(
    "            self._pre_detach(parent)\n            parentchildren = parent.__children_or_empty\n",
    "            parentchildren = parent.__children_or_empty\n") + both(
    "            # ATOMIC END\n            self._post_detach(parent)\n",
    "            # ATOMIC END\n            self._pre_detach(parent)\n            self._post_detach(parent)\n"), ["A2", "H1"])
seeded("c03-try-removed", ["C03"], both("""        try:
            self._pre_attach_children(children)
            for child in children:
                child.parent = self
            self._post_attach_children(children)
            if ASSERTIONS:  # pragma: no branch
                assert len(self.children) == len(children)
        except Exception:
            self.children = old_children
            raise
""", """        self._pre_attach_children(children)
        for child in children:
            child.parent = self
        self._post_attach_children(children)
"""), ["A2"])
seeded("c03-validation-after-delete", ["C03", "C02"], [(NM, """        NodeMixin.__check_children(children)
        # ATOMIC start
        old_children = self.children
        del self.children
""", """        # ATOMIC start
        old_children = self.children
        del self.children
        NodeMixin.__check_children(children)
""")], ["A2", "E2"])
seeded("c03-handler-catches-only-looperror", ["C03"], both("        except Exception:\n            self.children = old_children\n",
                                                        "        except LoopError:\n            self.children = old_children\n"), ["A2"])

seeded("c16-post-detach-dropped", ["C16"], both("            self._post_detach(parent)\n", ""), ["H1"])
seeded("c16-post-attach-doubled", ["C16"], both("            self._post_attach(parent)\n",
                                                "            self._post_attach(parent)\n            self._post_attach(parent)\n"), ["H1"])
seeded("c16-pre-detach-wrong-arg", ["C16"], both("            self._pre_detach(parent)\n", "            self._pre_detach(self)\n"), ["H1"])
seeded("c16-post-attach-on-parent", ["C16"], both("            self._post_attach(parent)\n", "            parent._post_attach(self)\n"), ["H1"])
seeded("c16-pre-detach-children-after-loop", ["C16"], both(
    """        self._pre_detach_children(children)
        for child in self.children:
            child.parent = None
""", """        for child in self.children:
            child.parent = None
        self._pre_detach_children(children)
"""), ["H4"])
seeded("c16-post-detach-children-new-snapshot", ["C16"], both(
    "        self._post_detach_children(children)\n", "        self._post_detach_children(self.children)\n"), ["H4"])
seeded("c16-attach-children-hook-gets-raw-arg", ["C16"], both(
    "        children = tuple(children)\n", "        children_ = tuple(children)\n") + both(
    "            self._post_attach_children(children)\n", "            self._post_attach_children(children)\n"), None, allow_error=True)
seeded("c16-hook-called-elsewhere", ["C16"], [("anytree/node/node.py", "        self.parent = parent\n",
                                               "        self.parent = parent\n        self._post_attach(parent)\n")], ["H6"])
seeded("c16-default-hook-not-empty", ["C16"], both(
    '        """Method call before attaching to `parent`."""\n',
    '        """Method call before attaching to `parent`."""\n        self.touched = True\n'), ["H6"])
seeded("c16-hook-on-noop-path", ["C16", "C02"], both(
    "        if parent is not value:\n            self.__check_loop(value)\n",
    "        self._pre_attach(value)\n        if parent is not value:\n            self.__check_loop(value)\n"), ["H1", "E1"])
seeded("c16-post-hook-exception-swallowed", ["C16"], both(
    "            self.__attach(value)\n", "            try:\n                self.__attach(value)\n            except Exception:\n                pass\n"), ["H3"])

# ------------------------------------------------------------------ C07 / C08
RS = "anytree/resolver.py"
seeded("c07-none-guard-removed-in-get", ["C07"], [(RS, "                node = self.__get(node, part)\n                if node is None:\n                    return None\n",
                                                   "                node = self.__get(node, part)\n")], ["R2"])
seeded("c07-relax-guard-removed-from-raise", ["C07"], [(RS, """                if parent is None:
                    if self.relax:
                        return None
                    raise RootResolverError(node)
""", """                if parent is None:
                    raise RootResolverError(node)
""")], ["R1", "R2"])
seeded("c07-relaxed-root-mismatch-returns-node", ["C07", "C08"], [(RS, """            if not cmp_(rootpart, parts[0]):
                if self.relax:
                    return None, None
""", """            if not cmp_(rootpart, parts[0]):
                if self.relax:
                    return node, parts
""")], ["R5"])
seeded("c07-start-guard-dropped", ["C07"], [(RS, "        if node is None and self.relax:\n            return None\n", "")], ["R2"])
seeded("c07-wrong-error-class-up", ["C07"], [(RS, "                    raise RootResolverError(node)\n                node = parent\n",
                                              "                    raise ChildResolverError(node, part, self.pathattr)\n                node = parent\n")], ["R3"])
seeded("c07-getattr-without-default", ["C07", "C08"], [(RS, "return str(getattr(node, name, None))", "return str(getattr(node, name))")], ["R4"])
seeded("c07-index-without-guard", ["C07", "C08"], [(RS, "        if path.startswith(sep):\n", "        if path:\n")], ["R4"])
benign("c07-relax-guard-as-conjunct", ["C07"], [(RS, """                if parent is None:
                    if self.relax:
                        return None
                    raise RootResolverError(node)
""", """                if parent is None and self.relax:
                    return None
                if parent is None:
                    raise RootResolverError(node)
""")])
benign("c07-none-guard-flipped", ["C07"], [(RS, "                if node is None:\n                    return None\n",
                                            "                if None is node:\n                    return node\n")])

seeded("c08-no-escape", ["C08"], [(RS, "                re_pat += re.escape(char)\n", "                re_pat += char\n")], ["G1"])
seeded("c08-no-end-anchor", ["C08"], [(RS, 'return "(?ms)" + re_pat + r"\\Z"', 'return "(?ms)" + re_pat')], ["G1"])
seeded("c08-dollar-anchor", ["C08"], [(RS, 'return "(?ms)" + re_pat + r"\\Z"', 'return "(?ms)" + re_pat + "$"')], ["G1"])
seeded("c08-star-as-plus", ["C08"], [(RS, '                re_pat += ".*"\n', '                re_pat += ".+"\n')], ["G1"])
seeded("c08-search-instead-of-match", ["C08"], [(RS, "return re_pat.match(name) is not None", "return re_pat.search(name) is not None")], ["G1"])
seeded("c08-key-without-ignorecase", ["C08"], [(RS, "        k = (pat, self.ignorecase)\n", "        k = pat\n")], ["G2"])
seeded("c08-clear-after-store", ["C08"], [(RS, """            if len(Resolver._match_cache) >= _MAXCACHE:
                Resolver._match_cache.clear()
            flags = 0
            if self.ignorecase:
                flags |= re.IGNORECASE
            Resolver._match_cache[k] = re_pat = re.compile(res, flags=flags)
""", """            flags = 0
            if self.ignorecase:
                flags |= re.IGNORECASE
            Resolver._match_cache[k] = re_pat = re.compile(res, flags=flags)
            if len(Resolver._match_cache) >= _MAXCACHE:
                Resolver._match_cache.clear()
            re_pat = Resolver._match_cache[k]
""")], ["G3"])
seeded("c08-dedupe-by-equality", ["C08", "C17"], [(RS, "if not any(match is seen for seen in matches):", "if match not in matches:")], ["G5", "T2"])
seeded("c08-handler-too-broad", ["C08"], [(RS, "                except ChildResolverError:\n", "                except Exception:\n")], ["G4"])
seeded("c08-cache-mutated-elsewhere", ["C08"], [(RS, "        self.relax = relax\n", "        self.relax = relax\n        Resolver._match_cache.clear()\n")], ["G3"])
benign("c08-translate-join", ["C08"], [(RS, '        return "(?ms)" + re_pat + r"\\Z"', '        body = re_pat\n        return "(?ms)" + body + r"\\Z"')])

seeded("c08-glob-relax-guard-removed", ["C08"], [(RS, """            if parent is None:
                if self.relax:
                    return []
                raise RootResolverError(node)
            return self.__glob(parent, remainder)
""", """            if parent is None:
                raise RootResolverError(node)
            return self.__glob(parent, remainder)
""")], ["R1", "R2"])
seeded("c08-glob-strict-raise-ignores-relax", ["C08"], [(RS, "if not matches and not Resolver.is_wildcard(name) and not self.relax:", "if not matches and not Resolver.is_wildcard(name):")], ["R1", "R2"])

# ------------------------------------------------------------------ C12 / C13
DX = "anytree/exporter/dotexporter.py"
MX = "anytree/exporter/mermaidexporter.py"
seeded("c12-maxlevel-truthiness", ["C12"], [(DX, "self.maxlevel - 1 if self.maxlevel is not None else None", "self.maxlevel - 1 if self.maxlevel else None")], ["D2"])
seeded("c13-maxlevel-truthiness", ["C13"], [(MX, "self.maxlevel - 1 if self.maxlevel is not None else None", "self.maxlevel - 1 if self.maxlevel else None")], ["D2"])
seeded("c12-edge-maxlevel-not-decremented", ["C12"], [(DX, "self.maxlevel - 1 if self.maxlevel is not None else None", "self.maxlevel if self.maxlevel is not None else None")], ["D1a"])
seeded("c13-edge-pass-without-stop", ["C13"], [(MX, "for node in PreOrderIter(self.node, filter_=filter_, stop=stop, maxlevel=maxlevel):", "for node in PreOrderIter(self.node, filter_=filter_, maxlevel=maxlevel):")], ["D1a"])
seeded("c13-child-guard-without-stop", ["C13"], [(MX, "if filter_(child) and not stop(child):", "if filter_(child):")], ["D1b"])
seeded("c12-child-guard-without-filter", ["C12"], [(DX, "                if not filter_(child):\n                    continue\n", "")], ["D1b"])
seeded("c12-edge-pass-other-filter", ["C12"], [(DX, "for node in PreOrderIter(self.node, filter_=filter_, stop=self.stop, maxlevel=maxlevel):", "for node in PreOrderIter(self.node, stop=self.stop, maxlevel=maxlevel):")], ["D1a"])
seeded("c12-childname-not-escaped", ["C12"], [(DX, "DotExporter.esc(childname),", "childname,")], ["D3"])
seeded("c12-esc-only-quotes", ["C12"], [(DX, '_RE_ESC = re.compile(r\'["\\\\]\')', '_RE_ESC = re.compile(r\'["]\')')], ["D3"])
seeded("c12-unique-map-keyed-by-node", ["C12", "C17"], [(DX, "        node_id = id(node)\n        try:\n            num = self.__node_ids[node_id]\n        except KeyError:\n            num = self.__node_ids[node_id] = next(self.__node_counter)\n        return hex(num)",
                                                       "        node_id = node\n        try:\n            num = self.__node_ids[node_id]\n        except KeyError:\n            num = self.__node_ids[node_id] = next(self.__node_counter)\n        return hex(num)")], ["D4", "T4"])
seeded("c13-ids-reset-on-iter", ["C13"], [(MX, '        indent = " " * self.indent\n        nodenamefunc = self.nodenamefunc or self._default_nodenamefunc\n        nodefunc',
                                           '        indent = " " * self.indent\n        self.__node_ids = {}\n        nodenamefunc = self.nodenamefunc or self._default_nodenamefunc\n        nodefunc')], ["D4"])
seeded("c13-label-not-escaped", ["C13"], [(MX, "return '[\"%s\"]' % (MermaidExporter.esc(node.name),)", "return '[\"%s\"]' % (node.name,)")], ["D3"])
seeded("c12-edges-before-nodes", ["C12"], [(DX, """        for node in self.__iter_nodes(indent, nodenamefunc, nodeattrfunc, filter_):
            yield node
        for edge in self.__iter_edges(indent, nodenamefunc, edgeattrfunc, edgetypefunc, filter_):
            yield edge
""", """        for edge in self.__iter_edges(indent, nodenamefunc, edgeattrfunc, edgetypefunc, filter_):
            yield edge
        for node in self.__iter_nodes(indent, nodenamefunc, nodeattrfunc, filter_):
            yield node
""")], ["D5"])
seeded("c12-legacy-drops-kwargs", ["C12"], [("anytree/dotexport.py", "super(RenderTreeGraph, self).__init__(*args, **kwargs)", "super(RenderTreeGraph, self).__init__(*args)")], ["D5"])
seeded("c12-option-not-stored", ["C12"], [(DX, "        self.stop = stop\n", "        self.stop = None\n")], ["D5"])
seeded("c13-tofile-skips-lines", ["C13"], [(MX, "            for line in self:\n                file.write(\"%s\\n\" % line)\n            file.write(\"```\")", "            for line in list(self)[1:]:\n                file.write(\"%s\\n\" % line)\n            file.write(\"```\")")], ["D5"])
benign("c12-maxlevel-none-test-flipped", ["C12"], [(DX, "self.maxlevel - 1 if self.maxlevel is not None else None", "None if self.maxlevel is None else self.maxlevel - 1")])
benign("c13-child-guard-nested-ifs", ["C13"], [(MX, "                if filter_(child) and not stop(child):\n                    childname = nodenamefunc(child)\n                    edge = edgefunc(node, child)\n                    yield \"%s%s%s%s\" % (indent, nodename, edge, childname)",
                                                  "                if stop(child):\n                    continue\n                if not filter_(child):\n                    continue\n                childname = nodenamefunc(child)\n                edge = edgefunc(node, child)\n                yield \"%s%s%s%s\" % (indent, nodename, edge, childname)")])

# ------------------------------------------------------------ C14 / C11 / C10
SE = "anytree/search.py"
CSE = "anytree/cachedsearch.py"
seeded("c14-mincount-le", ["C14"], [(SE, "if mincount is not None and resultlen < mincount:", "if mincount is not None and resultlen <= mincount:")], ["F3"])
seeded("c14-maxcount-ge", ["C14"], [(SE, "if maxcount is not None and resultlen > maxcount:", "if maxcount is not None and resultlen >= maxcount:")], ["F3"])
seeded("c14-mincount-truthiness", ["C14"], [(SE, "if mincount is not None and resultlen < mincount:", "if mincount and resultlen < mincount:")], ["F3"])
seeded("c14-cached-drops-maxlevel", ["C14"], [(CSE, "    return search.find(node, filter_=filter_, stop=stop, maxlevel=maxlevel)", "    return search.find(node, filter_=filter_, stop=stop)")], ["F1"])
seeded("c14-cached-swaps-counts", ["C14"], [(CSE, "return search.findall(node, filter_=filter_, stop=stop, maxlevel=maxlevel, mincount=mincount, maxcount=maxcount)",
                                             "return search.findall(node, filter_=filter_, stop=stop, maxlevel=maxlevel, mincount=maxcount, maxcount=mincount)")], ["F1"])
seeded("c14-cached-default-differs", ["C14"], [(CSE, 'def find_by_attr(node, value, name="name", maxlevel=None):', 'def find_by_attr(node, value, name="id", maxlevel=None):')], ["F1"])
seeded("c14-findall-stop-as-filter", ["C14"], [(SE, "result = tuple(PreOrderIter(node, filter_, stop, maxlevel))", "result = tuple(PreOrderIter(node, filter_, filter_, maxlevel))")], ["F2"])
seeded("c14-find-maxcount-2", ["C14"], [(SE, "items = _findall(node, filter_, stop=stop, maxlevel=maxlevel, maxcount=1)", "items = _findall(node, filter_, stop=stop, maxlevel=maxlevel, maxcount=2)")], ["F2"])
seeded("c14-find-by-attr-drops-maxlevel", ["C14"], [(SE, "    return _find(node, filter_=lambda n: _filter_by_name(n, name, value), maxlevel=maxlevel)", "    return _find(node, filter_=lambda n: _filter_by_name(n, name, value))")], ["F2"])
seeded("c14-attr-filter-no-guard", ["C14"], [(SE, "    try:\n        return getattr(node, name) == value\n    except AttributeError:\n        return False", "    return getattr(node, name) == value")], ["F4"])
seeded("c14-result-sliced", ["C14"], [(SE, "    return result\n\n\ndef _filter_by_name", "    return result[:maxcount]\n\n\ndef _filter_by_name")], ["F2"])
benign("c14-bound-orientation-flipped", ["C14"], [(SE, "if mincount is not None and resultlen < mincount:", "if mincount is not None and mincount > resultlen:")])
benign("c14-cached-positional", ["C14"], [(CSE, "    return search.find(node, filter_=filter_, stop=stop, maxlevel=maxlevel)", "    return search.find(node, filter_, stop, maxlevel)")])

JE = "anytree/exporter/jsonexporter.py"
JI = "anytree/importer/jsonimporter.py"
seeded("c11-write-drops-kwargs", ["C11"], [(JE, "return json.dump(data, filehandle, **self.kwargs)", "return json.dump(data, filehandle)")], ["J1"])
seeded("c11-maxlevel-not-forwarded", ["C11"], [(JE, "        if self.maxlevel is not None:\n            dictexporter.maxlevel = self.maxlevel\n", "")], ["J3", "J2"])
seeded("c11-maxlevel-truthiness", ["C11"], [(JE, "        if self.maxlevel is not None:\n", "        if self.maxlevel:\n")], ["J3"])
seeded("c11-read-ignores-kwargs", ["C11"], [(JI, "return self.__import(json.load(filehandle, **self.kwargs))", "return self.__import(json.load(filehandle))")], ["J1"])
seeded("c11-write-bypasses-export", ["C11"], [(JE, "        data = self._export(node)\n        return json.dump(", "        data = DictExporter().export(node)\n        return json.dump(")], ["J1"])
seeded("c11-supplied-importer-ignored", ["C11"], [(JI, "dictimporter = self.dictimporter or DictImporter()", "dictimporter = DictImporter()")], ["J3", "J2"])
benign("c11-export-inline", ["C11"], [(JE, "        data = self._export(node)\n        return json.dumps(data, **self.kwargs)", "        return json.dumps(self._export(node), **self.kwargs)")])

DEX = "anytree/exporter/dictexporter.py"
DIM = "anytree/importer/dictimporter.py"
seeded("c10-skip-table-misses-parent", ["C10"], [(DEX, 'if k in ("_NodeMixin__children", "_NodeMixin__parent"):', 'if k in ("_NodeMixin__children",):')], ["X1"])
seeded("c10-importer-mutates-argument", ["C10"], [(DIM, "        attrs = dict(data)\n", "        attrs = data\n")], ["X2"])
seeded("c10-importer-reverses-nested-list", ["C10"], [(DIM, "        for child in children:\n", "        children.reverse()\n        for child in children:\n")], ["X2"])
seeded("c10-level-not-incremented", ["C10"], [(DEX, "self.__export(child, dictcls, attriter, childiter, level=level + 1)", "self.__export(child, dictcls, attriter, childiter, level=level)")], ["X3"])
seeded("c10-recursion-drops-attriter", ["C10"], [(DEX, "self.__export(child, dictcls, attriter, childiter, level=level + 1)", "self.__export(child, dictcls, self.attriter, childiter, level=level + 1)")], ["X3"])
seeded("c10-depth-guard-le", ["C10"], [(DEX, "if maxlevel is None or level < maxlevel:", "if maxlevel is None or level <= maxlevel:")], ["X3"])
seeded("c10-depth-guard-truthiness", ["C10"], [(DEX, "if maxlevel is None or level < maxlevel:", "if not maxlevel or level < maxlevel:")], ["X3"])
seeded("c10-children-key-always", ["C10"], [(DEX, "            if children:\n                data[\"children\"] = children\n", "            data[\"children\"] = children\n")], ["X4"])
seeded("c10-childiter-bypassed", ["C10"], [(DEX, "for child in childiter(node.children)", "for child in node.children")], ["X3"])
seeded("c10-import-children-reversed", ["C10"], [(DIM, "        for child in children:\n", "        for child in reversed(children):\n")], ["X5"])
seeded("c10-import-parent-not-passed", ["C10"], [(DIM, "self.__import(child, parent=node)", "self.__import(child, parent=parent)")], ["X5"])
benign("c10-copy-via-copy-method", ["C10"], [(DIM, "        attrs = dict(data)\n", "        attrs = data.copy()\n")])

# ----------------------------------------------------- C04 / C05 / C19 / C20
UT = "anytree/util/__init__.py"
seeded("c04-height-cached-on-node", ["C04", "C18"], [(NM, "        children = self.__children_or_empty\n        if children:\n            return max(child.height for child in children) + 1\n        return 0",
                                                      "        if hasattr(self, \"_height\"):\n            return self._height\n        children = self.__children_or_empty\n        if children:\n            self._height = max(child.height for child in children) + 1\n            return self._height\n        return 0")], ["N1", "M4"])
seeded("c04-path-lru-cache", ["C04"], both("    @property\n    def _path(self):\n", "    @property\n    @functools.lru_cache()\n    def _path(self):\n"), ["N1"])
seeded("c04-depth-module-cache", ["C04"], [(UT, "def leftsibling(node):", "_CACHE = {}\n\n\ndef leftsibling(node):"),
                                           (UT, "    if node.parent is not None:\n        pchildren = node.parent.children\n        idx = _index(pchildren, node)\n        if idx:",
                                            "    if id(node) in _CACHE:\n        return _CACHE[id(node)]\n    if node.parent is not None:\n        pchildren = node.parent.children\n        idx = _index(pchildren, node)\n        if idx:")], ["N1"])
seeded("c04-is-root-truthiness", ["C04", "C17"], both("        return self.parent is None\n", "        return not self.parent\n"), ["N2", "T3"])
seeded("c04-children-getter-sorts-in-place", ["C04", "C01"], both("        return tuple(self.__children_or_empty)\n", "        self.__children_or_empty.sort(key=id)\n        return tuple(self.__children_or_empty)\n"), ["N1", "W1"])
seeded("c04-siblings-root-case-dropped", ["C04"], both("        parent = self.parent\n        if parent is None:\n            return tuple()\n        return tuple(node for node in parent.children if node is not self)",
                                                       "        parent = self.parent\n        return tuple(node for node in parent.children if node is not self)"), ["N2"])
benign("c04-ancestors-rewritten", ["C04"], both("        if self.parent is None:\n            return tuple()\n        return self.parent.path", "        parent = self.parent\n        if parent is None:\n            return ()\n        return parent.path"))

IT = "anytree/iterators/"
seeded("c05-iterator-marks-nodes", ["C05"], [(IT + "preorderiter.py", "            if filter_(child_):\n                yield child_\n", "            child_.visited = True\n            if filter_(child_):\n                yield child_\n")], ["I1"])
seeded("c05-iterator-detaches", ["C05"], [(IT + "postorderiter.py", "                if filter_(child):\n                    yield child\n", "                if filter_(child):\n                    yield child\n                else:\n                    child.parent = None\n")], ["I1"])
seeded("c05-get-children-mutates-arg", ["C05"], [(IT + "abstractiter.py", "        return [child for child in children if not stop(child)]", "        children.reverse()\n        return [child for child in children if not stop(child)]")], ["I1"])
seeded("c05-zigzag-starts-reversed", ["C05"], [(IT + "zigzaggroupiter.py", "                    yield next(_iter)\n                    yield tuple(reversed(next(_iter)))\n", "                    yield tuple(reversed(next(_iter)))\n                    yield next(_iter)\n")], ["I2"])
seeded("c05-zigzag-never-reverses", ["C05"], [(IT + "zigzaggroupiter.py", "                    yield tuple(reversed(next(_iter)))\n", "                    yield tuple(next(_iter))\n")], ["I2"])
seeded("c05-next-wraps-items", ["C05"], [(IT + "abstractiter.py", "        return next(self.__iter)\n", "        item = next(self.__iter)\n        return item if item is not None else next(self.__iter)\n")], ["I2"])
seeded("c05-iterator-reads-parent", ["C05"], [(IT + "levelorderiter.py", "                    next_children += AbstractIter._get_children(child.children, stop)", "                    next_children += AbstractIter._get_children(child.parent.children if child.parent is not None else child.children, stop)")], ["I1"])

SL = "anytree/node/symlinknodemixin.py"
seeded("c19-setstate-guard-removed", ["C19"], [(SL, '        if name == "__setstate__":\n            raise AttributeError(name)\n', "")], ["P1"])
seeded("c19-bookkeeping-guard-shrunk", ["C19", "C20"], [(SL, 'if name in ("_NodeMixin__parent", "_NodeMixin__children"):\n            return super', 'if name in ("_NodeMixin__parent",):\n            return super')], ["P1", "L1"])
seeded("c19-setstate-returns-none", ["C19"], [(SL, '        if name == "__setstate__":\n            raise AttributeError(name)\n', '        if name == "__setstate__":\n            return None\n')], ["P1"])
seeded("c19-getstate-added", ["C19", "C18"], [(NM, "    def _pre_detach(self, parent):\n", "    def __getstate__(self):\n        return {k: v for k, v in self.__dict__.items() if not k.startswith(\"_NodeMixin\")}\n\n    def _pre_detach(self, parent):\n")], ["P2", "M1"])
seeded("c19-target-used-before-guards", ["C19"], [(SL, '    def __getattr__(self, name):\n        if name in', '    def __getattr__(self, name):\n        target = self.target\n        if name in')], ["P1"])
seeded("c20-parent-not-local", ["C20"], [(SL, '"_NodeMixin__children", "parent", "children", "target"):', '"_NodeMixin__children", "children", "target"):')], ["L1"])
seeded("c20-forward-to-self", ["C20"], [(SL, "            setattr(self.target, name, value)", "            super(SymlinkNodeMixin, self).__setattr__(name, value)")], ["L2"])
seeded("c20-getattr-default-none", ["C20"], [(SL, "        return getattr(self.target, name)", "        return getattr(self.target, name, None)")], ["L2"])
seeded("c20-kwargs-on-link", ["C20"], [("anytree/node/symlinknode.py", "        self.target.__dict__.update(kwargs)\n", "        self.__dict__.update(kwargs)\n")], ["L4"])
seeded("c20-symlink-overrides-children", ["C20"], [(SL, "    def __getattr__(self, name):", "    @property\n    def children(self):\n        return self.target.children\n\n    def __getattr__(self, name):")], ["L3"])
benign("c20-local-table-as-set", ["C20", "C19"], [(SL, 'if name in ("_NodeMixin__parent", "_NodeMixin__children", "parent", "children", "target"):', 'if name in {"_NodeMixin__parent", "_NodeMixin__children", "parent", "children", "target"}:')])

# ------------------------------------------------------------------ C06
PRE = IT + "preorderiter.py"
POST = IT + "postorderiter.py"
LO = IT + "levelorderiter.py"
LOG = IT + "levelordergroupiter.py"
ZZ = IT + "zigzaggroupiter.py"
AB = IT + "abstractiter.py"
seeded("c06-preorder-stop-not-applied", ["C06"], [(PRE, "            if stop(child_):\n                continue\n", "")], ["S1"])
seeded("c06-preorder-descent-under-filter", ["C06"], [(PRE, """            if filter_(child_):
                yield child_
            if not AbstractIter._abort_at_level(2, maxlevel):
                descendantmaxlevel = maxlevel - 1 if maxlevel else None
                for descendant_ in PreOrderIter._iter(child_.children, filter_, stop, descendantmaxlevel):
                    yield descendant_
""", """            if not filter_(child_):
                continue
            yield child_
            if not AbstractIter._abort_at_level(2, maxlevel):
                descendantmaxlevel = maxlevel - 1 if maxlevel else None
                for descendant_ in PreOrderIter._iter(child_.children, filter_, stop, descendantmaxlevel):
                    yield descendant_
""")], ["S2"])
seeded("c06-preorder-guard-level-3", ["C06"], [(PRE, "if not AbstractIter._abort_at_level(2, maxlevel):", "if not AbstractIter._abort_at_level(3, maxlevel):")], ["S3"])
seeded("c06-preorder-maxlevel-not-decremented", ["C06"], [(PRE, "descendantmaxlevel = maxlevel - 1 if maxlevel else None", "descendantmaxlevel = maxlevel if maxlevel else None")], ["S3"])
seeded("c06-preorder-no-depth-guard", ["C06"], [(PRE, "            if not AbstractIter._abort_at_level(2, maxlevel):\n                descendantmaxlevel = maxlevel - 1 if maxlevel else None\n                for descendant_",
                                                "            if True:\n                descendantmaxlevel = maxlevel - 1 if maxlevel else None\n                for descendant_")], ["S3"])
seeded("c06-postorder-level-start-0", ["C06"], [(POST, "return PostOrderIter.__next(children, 1, filter_, stop, maxlevel)", "return PostOrderIter.__next(children, 0, filter_, stop, maxlevel)")], ["S3"])
seeded("c06-postorder-level-not-incremented", ["C06"], [(POST, "PostOrderIter.__next(grandchildren, level + 1, filter_, stop, maxlevel)", "PostOrderIter.__next(grandchildren, level, filter_, stop, maxlevel)")], ["S3"])
seeded("c06-postorder-raw-grandchildren", ["C06"], [(POST, "grandchildren = AbstractIter._get_children(child.children, stop)", "grandchildren = child.children")], ["S1"])
seeded("c06-postorder-yield-unfiltered", ["C06"], [(POST, "                if filter_(child):\n                    yield child\n", "                yield child\n")], ["S2"])
seeded("c06-levelorder-level-starts-0", ["C06"], [(LO, "        level = 1\n", "        level = 0\n")], ["S3"])
seeded("c06-levelorder-no-increment", ["C06"], [(LO, "            level += 1\n", "")], ["S3"])
seeded("c06-levelorder-descend-only-filtered", ["C06"], [(LO, """                    if filter_(child):
                        yield child
                    next_children += AbstractIter._get_children(child.children, stop)
""", """                    if filter_(child):
                        yield child
                        next_children += AbstractIter._get_children(child.children, stop)
""")], ["S2"])
seeded("c06-levelorder-stop-dropped", ["C06"], [(LO, "next_children += AbstractIter._get_children(child.children, stop)", "next_children += list(child.children)")], ["S1"])
seeded("c06-group-level-increment-after-guard", ["C06"], [(LOG, "            level += 1\n            if AbstractIter._abort_at_level(level, maxlevel):\n                break\n",
                                                            "            if AbstractIter._abort_at_level(level, maxlevel):\n                break\n            level += 1\n")], ["S3"])
seeded("c06-group-skips-empty-filtered-level", ["C06"], [(LOG, "            yield tuple(child for child in children if filter_(child))\n",
                                                          "            group = tuple(child for child in children if filter_(child))\n            if group:\n                yield group\n")], ["S5"])
seeded("c06-group-unfiltered", ["C06"], [(LOG, "            yield tuple(child for child in children if filter_(child))\n", "            yield tuple(children)\n")], ["S2"])
seeded("c06-zigzag-drops-stop", ["C06"], [(ZZ, "_iter = LevelOrderGroupIter(children[0], filter_, stop, maxlevel)", "_iter = LevelOrderGroupIter(children[0], filter_, None, maxlevel)")], ["S4"])
seeded("c06-zigzag-maxlevel-plus-one", ["C06"], [(ZZ, "_iter = LevelOrderGroupIter(children[0], filter_, stop, maxlevel)", "_iter = LevelOrderGroupIter(children[0], filter_, stop, maxlevel + 1 if maxlevel else maxlevel)")], ["S4"])
seeded("c06-init-start-not-stop-checked", ["C06"], [(AB, "AbstractIter._get_children([node], stop)", "[node]")], ["S1"])
seeded("c06-init-start-guard-level-0", ["C06"], [(AB, "AbstractIter._abort_at_level(1, maxlevel)", "AbstractIter._abort_at_level(0, maxlevel)")], ["S3"])
seeded("c06-abort-ge", ["C06"], [(AB, "return maxlevel is not None and level > maxlevel", "return maxlevel is not None and level >= maxlevel")], ["S3"])
seeded("c06-abort-truthiness", ["C06"], [(AB, "return maxlevel is not None and level > maxlevel", "return bool(maxlevel) and level > maxlevel")], ["S3"])
seeded("c06-init-swaps-options", ["C06"], [(AB, "return self._iter(children, filter_, stop, maxlevel)", "return self._iter(children, stop, filter_, maxlevel)")], ["S4"])
seeded("c06-get-children-inverted", ["C06"], [(AB, "return [child for child in children if not stop(child)]", "return [child for child in children if stop(child)]")], ["S1"])
benign("c06-preorder-yield-from", ["C06", "C05"], [(PRE, "                for descendant_ in PreOrderIter._iter(child_.children, filter_, stop, descendantmaxlevel):\n                    yield descendant_\n",
                                                    "                yield from PreOrderIter._iter(child_.children, filter_, stop, descendantmaxlevel)\n")])
benign("c06-preorder-none-test", ["C06"], [(PRE, "descendantmaxlevel = maxlevel - 1 if maxlevel else None", "descendantmaxlevel = maxlevel - 1 if maxlevel is not None else None")])
benign("c06-levelorder-level-from-2", ["C06"], [(LO, "        level = 1\n", "        level = 2\n"), (LO, "            level += 1\n            if AbstractIter._abort_at_level(level, maxlevel):", "            if AbstractIter._abort_at_level(level, maxlevel):"),
                                                (LO, "            children = next_children\n", "            children = next_children\n            level += 1\n")])
benign("c06-group-concat-augassign", ["C06"], [(LOG, "next_children = next_children + AbstractIter._get_children(child.children, stop)", "next_children += AbstractIter._get_children(child.children, stop)")])

# ------------------------------------------------------------------ C17
WK = "anytree/walker.py"
RD = "anytree/render.py"
seeded("c17-walker-root-eq", ["C17"], [(WK, "if start.root is not end.root:", "if start.root != end.root:")], ["T1"])
seeded("c17-walker-common-by-eq", ["C17"], [(WK, "return tuple(si for si, ei in zip(start, end) if si is ei)", "return tuple(si for si, ei in zip(start, end) if si == ei)")], ["T1"])
seeded("c17-walker-start-in-common", ["C17"], [(WK, "        if start is common[-1]:", "        if start in common:")], ["T2"])
seeded("c17-commonancestors-all-eq", ["C17"], [(UT, "if all(parentnode is p for p in parentnodes[1:]):", "if all(parentnode == p for p in parentnodes[1:]):")], ["T1"])
seeded("c17-siblings-filter-truthy", ["C17", "C18"], [(NM, "return tuple(node for node in parent.children if node is not self)", "return tuple(node for node in parent.children if node and node is not self)")], ["T3", "M4"])
seeded("c17-root-while-truthy", ["C17"], both("        while node.parent is not None:\n            node = node.parent\n", "        while node.parent:\n            node = node.parent\n"), ["T3"])
seeded("c17-iter-path-while-truthy", ["C17"], both("        while node is not None:\n            yield node\n", "        while node:\n            yield node\n"), ["T3"])
seeded("c17-render-children-len-of-node", ["C17"], [(RD, "            children = node.children\n            if children:", "            children = node.children\n            if len(node) or children:")], ["T5"])
seeded("c17-resolver-parent-truthy", ["C17"], [(RS, "                parent = node.parent\n                if parent is None:\n                    if self.relax:\n                        return None\n",
                                                        "                parent = node.parent\n                if not parent:\n                    if self.relax:\n                        return None\n")], ["T3"])
seeded("c17-search-result-set", ["C17"], [(SE, "    result = tuple(PreOrderIter(node, filter_, stop, maxlevel))\n", "    result = tuple(PreOrderIter(node, filter_, stop, maxlevel))\n    unique = set(result)\n")], ["T4"])
seeded("c17-exporter-seen-set", ["C17"], [(MX, "            for child in node.children:\n                if filter_(child) and not stop(child):", "            seen = set()\n            for child in node.children:\n                seen.add(child)\n                if filter_(child) and not stop(child):")], ["T4"])
seeded("c17-check-loop-in-path", ["C17", "C01"], both("            if any(child is self for child in node.iter_path_reverse()):", "            if self in node.path:"), ["T2", "W5"])
seeded("c17-leaves-sorted", ["C17"], both("        return tuple(PreOrderIter(self, filter_=lambda node: node.is_leaf))", "        return tuple(sorted(PreOrderIter(self, filter_=lambda node: node.is_leaf)))"), ["T2"])
seeded("c17-dictimporter-parent-truthy", ["C17"], [(DIM, "        node = self.nodecls(parent=parent, **attrs)\n", "        node = self.nodecls(parent=parent or None, **attrs)\n")], ["T3"])
benign("c17-children-truthiness-of-sequence", ["C17"], both("        children = self.__children_or_empty\n        if children:", "        children = self.__children_or_empty\n        if len(children) > 0:"))
benign("c17-walker-identity-flipped", ["C17"], [(WK, "if start.root is not end.root:", "if not (end.root is start.root):")])
benign("c17-id-membership", ["C17"], [(WK, "        if start is common[-1]:", "        if id(start) in [id(c) for c in common[-1:]]:")])
seeded("c14-attr-filter-default-none", ["C14"], [(SE, "    try:\n        return getattr(node, name) == value\n    except AttributeError:\n        return False", "    return getattr(node, name, None) == value")], ["F4"])
benign("c05-zigzag-parity-counter", ["C05", "C06"], [(ZZ, """            _iter = LevelOrderGroupIter(children[0], filter_, stop, maxlevel)
            while True:
                try:
                    yield next(_iter)
                    yield tuple(reversed(next(_iter)))
                except StopIteration:
                    break
""", """            level = 0
            for group in LevelOrderGroupIter(children[0], filter_, stop, maxlevel):
                yield tuple(reversed(group)) if level % 2 else group
                level += 1
""")])
seeded("c05-zigzag-parity-from-depth", ["C05"], [(ZZ, """            _iter = LevelOrderGroupIter(children[0], filter_, stop, maxlevel)
            while True:
                try:
                    yield next(_iter)
                    yield tuple(reversed(next(_iter)))
                except StopIteration:
                    break
""", """            level = children[0].depth
            for group in LevelOrderGroupIter(children[0], filter_, stop, maxlevel):
                yield tuple(reversed(group)) if level % 2 else group
                level += 1
""")], ["I2", "I1"])
seeded("c06-levelorder-skip-leaf-shortcut", ["C06"], [(LO, """                for child in children:
                    if filter_(child):
                        yield child
                    next_children += AbstractIter._get_children(child.children, stop)
""", """                for child in children:
                    if filter_(child):
                        yield child
                    if not filter_(child) and not child.children:
                        continue
                    next_children += AbstractIter._get_children(child.children, stop)
""")], ["S6", "S2"])
seeded("c06-preorder-skip-second-visit", ["C06"], [(PRE, "            if filter_(child_):\n                yield child_\n", "            if child_ is children[-1] and len(children) > 3:\n                continue\n            if filter_(child_):\n                yield child_\n")], ["S6"])
seeded("c08-find-skips-leaf", ["C08"], [(RS, "                if self.__match(name, pat):\n                    if remainder:", "                if self.__match(name, pat):\n                    if remainder and child.is_leaf:\n                        continue\n                    if remainder:")], ["G6"])
seeded("c12-edge-skips-leaf-children", ["C12"], [(DX, "                if not filter_(child):\n                    continue\n", "                if not filter_(child):\n                    continue\n                if child.is_leaf and edgeattrfunc is self._default_edgeattrfunc and False:\n                    continue\n                if nodename == childname_hint(child):\n                    continue\n")], ["D1c"])
seeded("c13-node-line-skipped", ["C13"], [(MX, "            nodename = nodenamefunc(node)\n            node = nodefunc(node)\n", "            nodename = nodenamefunc(node)\n            if not nodename:\n                continue\n            node = nodefunc(node)\n")], ["D1c"])
seeded("c02-attach-loop-skips-current-children", ["C02"], both("            for child in children:\n                child.parent = self\n", "            for child in children:\n                if child.parent is self:\n                    continue\n                child.parent = self\n"), ["E5"])
# (values unchanged: reading the other direction as well is no contradiction of the definition - benign since round 15)
benign("c04-depth-from-children-footprint", ["C04"], both("        for depth, _ in enumerate(self.iter_path_reverse()):\n            continue\n        return depth", "        depth = 0\n        node = self\n        while node.parent is not None:\n            depth += 1 if node.parent.children else 1\n            node = node.parent\n        return depth"))
benign("c04-size-via-root", ["C04"], both("        for size, _ in enumerate(PreOrderIter(self), 1):\n            continue\n        return size", "        for size, _ in enumerate(PreOrderIter(self if self.parent is None else self), 1):\n            continue\n        return size"))


# ------------------------------------------------ flag / single-exit style (normalisation must not hide these)
CHK_NM = """            if not isinstance(child, (NodeMixin, LightNodeMixin)):
                msg = "Cannot add non-node object %r. It is not a subclass of 'NodeMixin'." % (child,)
                raise TreeError(msg)
            childid = id(child)
            if childid not in seen:
                seen.add(childid)
            else:
                msg = "Cannot add node %r multiple times as child." % (child,)
                raise TreeError(msg)
"""
# single raise point, but the duplicate complaint is overwritten with None before the test: duplicates accepted
seeded("flag-check-children-duplicate-lost", ["C02"], [(NM, CHK_NM, """            msg = None
            if not isinstance(child, (NodeMixin, LightNodeMixin)):
                msg = "Cannot add non-node object %r. It is not a subclass of 'NodeMixin'." % (child,)
            else:
                childid = id(child)
                if childid not in seen:
                    seen.add(childid)
                else:
                    msg = None
            if msg is not None:
                raise TreeError(msg)
""")], ["E3", "E2"])
benign("flag-check-children-single-raise", ["C02", "C01", "C03"], [(NM, CHK_NM, """            msg = None
            if not isinstance(child, (NodeMixin, LightNodeMixin)):
                msg = "Cannot add non-node object %r. It is not a subclass of 'NodeMixin'." % (child,)
            else:
                childid = id(child)
                if childid not in seen:
                    seen.add(childid)
                else:
                    msg = "Cannot add node %r multiple times as child." % (child,)
            if msg is not None:
                raise TreeError(msg)
""")])
# loop flag cleared one level too late (tests `>=` replaced by a flag that is only looked at after descending)
LOG_LOOP = """        while children:
            yield tuple(child for child in children if filter_(child))
            level += 1
            if AbstractIter._abort_at_level(level, maxlevel):
                break
            children = LevelOrderGroupIter._get_grandchildren(children, stop)
"""
seeded("flag-levelordergroup-descends-once-more", ["C06"], [("anytree/iterators/levelordergroupiter.py", LOG_LOOP, """        descending = True
        while descending and children:
            yield tuple(child for child in children if filter_(child))
            level += 1
            if AbstractIter._abort_at_level(level - 1, maxlevel):
                descending = False
            else:
                children = LevelOrderGroupIter._get_grandchildren(children, stop)
""")], ["S3"])
benign("flag-levelordergroup-loop-flag", ["C06", "C05"], [("anytree/iterators/levelordergroupiter.py", LOG_LOOP, """        descending = True
        while descending and children:
            yield tuple(child for child in children if filter_(child))
            level += 1
            if AbstractIter._abort_at_level(level, maxlevel):
                descending = False
            else:
                children = LevelOrderGroupIter._get_grandchildren(children, stop)
""")])
# boolean temporary with the wrong polarity: the link keeps foreign names and forwards its own
SETATTR = """        if name in ("_NodeMixin__parent", "_NodeMixin__children", "parent", "children", "target"):
            super(SymlinkNodeMixin, self).__setattr__(name, value)
        else:
            setattr(self.target, name, value)
"""
seeded("flag-symlink-setattr-polarity", ["C20"], [("anytree/node/symlinknodemixin.py", SETATTR, """        forward = name in ("_NodeMixin__parent", "_NodeMixin__children", "parent", "children", "target")
        if forward:
            setattr(self.target, name, value)
        else:
            super(SymlinkNodeMixin, self).__setattr__(name, value)
""")], ["L2"])
# _abort_at_level as a single-exit function that is off by one
seeded("flag-abort-at-level-single-exit-ge", ["C06"], [("anytree/iterators/abstractiter.py",
                                                         "        return maxlevel is not None and level > maxlevel\n", """        abort = False
        if maxlevel is not None:
            abort = level >= maxlevel
        return abort
""")], ["S3"])
benign("flag-abort-at-level-single-exit", ["C06", "C05"], [("anytree/iterators/abstractiter.py",
                                                            "        return maxlevel is not None and level > maxlevel\n", """        abort = False
        if maxlevel is not None:
            abort = level > maxlevel
        return abort
""")])
# CountError through a single check point, but the maxcount complaint is dropped when mincount is given
FINDALL = """    if mincount is not None and resultlen < mincount:
        msg = "Expecting at least %d elements, but found %d."
        raise CountError(msg % (mincount, resultlen), result)
    if maxcount is not None and resultlen > maxcount:
        msg = "Expecting %d elements at maximum, but found %d."
        raise CountError(msg % (maxcount, resultlen), result)
"""
seeded("flag-findall-maxcount-skipped", ["C14"], [("anytree/search.py", FINDALL, """    complaint = None
    if mincount is not None:
        if resultlen < mincount:
            msg = "Expecting at least %d elements, but found %d."
            complaint = msg % (mincount, resultlen)
    elif maxcount is not None and resultlen > maxcount:
        msg = "Expecting %d elements at maximum, but found %d."
        complaint = msg % (maxcount, resultlen)
    if complaint is not None:
        raise CountError(complaint, result)
""")])
# dispatch table with the parent step mapped to "stay"
GETLOOP = """            if part == "..":
                parent = node.parent
                if parent is None:
                    if self.relax:
                        return None
                    raise RootResolverError(node)
                node = parent
            elif part in ("", "."):
                pass
            else:
                node = self.__get(node, part)
                if node is None:
                    return None
"""
seeded("flag-resolver-dispatch-table-up-ignored", ["C07"], [("anytree/resolver.py", GETLOOP, """            step = Resolver._STEPS.get(part, Resolver.__get)
            if step is not None:
                node = step(self, node, part)
                if node is None:
                    return None
"""), ("anytree/resolver.py", "    def __get(self, node, name):\n", """    _STEPS = {"..": None, "": None, ".": None}

    def __get(self, node, name):
""")])

# ------------------------------------------------------------------ C15
WK = "anytree/walker.py"
UPW = "            upwards = tuple(reversed(startpath[len_common:]))\n"
DWN = "            down = endpath[len_common:]\n"
ROOTCHK = """        if start.root is not end.root:
            msg = "%r and %r are not part of the same tree." % (start, end)
            raise WalkError(msg)
"""
seeded("c15-upwards-not-reversed", ["C15"], [(WK, UPW, "            upwards = tuple(startpath[len_common:])\n")], ["K2"])
seeded("c15-upwards-off-by-one", ["C15"], [(WK, UPW, "            upwards = tuple(reversed(startpath[len_common - 1:]))\n")], ["K2"])
seeded("c15-upwards-from-root", ["C15"], [(WK, UPW, "            upwards = tuple(reversed(startpath))\n")], ["K2"])
seeded("c15-down-from-start-path", ["C15"], [(WK, DWN, "            down = startpath[len_common:]\n")], ["K2"])
seeded("c15-down-reversed", ["C15"], [(WK, DWN, "            down = tuple(reversed(endpath[len_common:]))\n")], ["K2"])
seeded("c15-common-first", ["C15"], [(WK, "        return upwards, common[-1], down\n", "        return upwards, common[0], down\n")], ["K2"])
seeded("c15-no-same-tree-check", ["C15"], [(WK, ROOTCHK, "")], ["K1"])
seeded("c15-same-tree-by-equality", ["C15", "C17"], [(WK, "if start.root is not end.root:", "if start.root != end.root:")])
seeded("c15-wrong-error-class", ["C15"], [(WK, "            raise WalkError(msg)\n", "            raise ValueError(msg)\n")], ["K1"])
seeded("c15-common-by-equality", ["C15", "C17"], [(WK, "if si is ei)", "if si == ei)")])
seeded("c15-common-unfiltered", ["C15"], [(WK, "return tuple(si for si, ei in zip(start, end) if si is ei)", "return tuple(si for si, ei in zip(start, end))")], ["K3"])
seeded("c15-empty-upwards-wrong-guard", ["C15"], [(WK, "        if start is common[-1]:\n", "        if start is common[0]:\n")], ["K2"])
seeded("c15-walk-remembers-last", ["C15"], [(WK, "        startpath = start.path\n", "        self.last = (start, end)\n        startpath = start.path\n")], ["K4"])
seeded("c15-swapped-paths", ["C15"], [(WK, "        startpath = start.path\n        endpath = end.path\n",
                                       "        startpath = end.path\n        endpath = start.path\n")], ["K2"])
benign("c15-slice-then-reverse", ["C15", "C17"], [(WK, UPW, "            upwards = startpath[len_common:][::-1]\n")])
benign("c15-no-empty-shortcuts", ["C15", "C17"], [(WK, """        if start is common[-1]:
            upwards = tuple()
        else:
            upwards = tuple(reversed(startpath[len_common:]))
""", """        upwards = tuple(reversed(startpath[len_common:]))
"""), (WK, """        if end is common[-1]:
            down = tuple()
        else:
            down = endpath[len_common:]
""", """        down = endpath[len_common:]
""")])
benign("c15-check-before-paths", ["C15", "C17"], [(WK, "        startpath = start.path\n        endpath = end.path\n" + ROOTCHK,
                                                   ROOTCHK + "        startpath = start.path\n        endpath = end.path\n")])
benign("c15-index-by-length", ["C15"], [(WK, "        return upwards, common[-1], down\n", "        return upwards, common[len_common - 1], down\n")])
benign("c15-same-root-positive", ["C15", "C17"], [(WK, ROOTCHK, """        if start.root is end.root:
            pass
        else:
            raise WalkError("%r and %r are not part of the same tree." % (start, end))
""")])

# ------------------------------------------------------------------ C09
RD = "anytree/render.py"
ITEMS = "        items = [style.vertical if cont else style.empty for cont in continues]\n"
seeded("c09-swap-vertical-empty", ["C09"], [(RD, ITEMS, "        items = [style.empty if cont else style.vertical for cont in continues]\n")], ["V2"])
seeded("c09-swap-cont-end", ["C09"], [(RD, "        branch = style.cont if continues[-1] else style.end\n",
                                       "        branch = style.end if continues[-1] else style.cont\n")], ["V2"])
seeded("c09-fill-without-last", ["C09"], [(RD, '        fill = "".join(items)\n', '        fill = "".join(items[:-1])\n')], ["V2"])
seeded("c09-pre-with-last-bar", ["C09"], [(RD, '        indent = "".join(items[:-1])\n', '        indent = "".join(items)\n')], ["V2"])
seeded("c09-pre-uses-vertical-for-branch", ["C09"], [(RD, "        branch = style.cont if continues[-1] else style.end\n",
                                                      "        branch = style.vertical if continues[-1] else style.end\n")], ["V2"])
seeded("c09-continues-is-last", ["C09"], [(RD, "continues + (not is_last,)", "continues + (is_last,)")], ["V1"])
seeded("c09-continues-replaced", ["C09"], [(RD, "continues + (not is_last,)", "(not is_last,)")], ["V1"])
seeded("c09-own-row-after-children", ["C09"], [(RD, """        yield RenderTree.__item(node, continues, self.style)
        level += 1
""", """        level += 1
"""), (RD, """                    for grandchild in self.__next(child, continues + (not is_last,), level=level):
                        yield grandchild
""", """                    for grandchild in self.__next(child, continues + (not is_last,), level=level):
                        yield grandchild
        yield RenderTree.__item(node, continues, self.style)
""")], ["V1"])
seeded("c09-depth-guard-le", ["C09"], [(RD, "        if self.maxlevel is None or level < self.maxlevel:\n            children = node.children\n",
                                        "        if self.maxlevel is None or level <= self.maxlevel:\n            children = node.children\n")], ["V1"])
seeded("c09-level-not-incremented", ["C09"], [(RD, "        yield RenderTree.__item(node, continues, self.style)\n        level += 1\n",
                                               "        yield RenderTree.__item(node, continues, self.style)\n")], ["V1"])
seeded("c09-maxlevel-truthiness", ["C09"], [(RD, "        if self.maxlevel is None or level < self.maxlevel:\n            children = node.children\n",
                                             "        if not self.maxlevel or level < self.maxlevel:\n            children = node.children\n")])
seeded("c09-childiter-dropped", ["C09"], [(RD, "                children = self.childiter(children)\n", "")], ["V1"])
seeded("c09-children-reversed", ["C09"], [(RD, "                children = self.childiter(children)\n",
                                           "                children = list(reversed(self.childiter(children)))\n")], ["V1"])
seeded("c09-root-row-for-depth-one", ["C09"], [(RD, "        if not continues:\n            return Row", "        if len(continues) <= 1:\n            return Row")], ["V2"])
seeded("c09-row-node-wrong", ["C09"], [(RD, "        return Row(pre, fill, node)\n", "        return Row(pre, fill, continues)\n")], ["V2"])
seeded("c09-str-first-line-fill", ["C09"], [(RD, """    yield "%s%s" % (row.pre, lines[0])
    for line in lines[1:]:""", """    yield "%s%s" % (row.fill, lines[0])
    for line in lines[1:]:""")], ["V3"])
seeded("c09-str-further-lines-pre", ["C09"], [(RD, """    for line in lines[1:]:
        yield "%s%s" % (row.fill, line)
""", """    for line in lines[1:]:
        yield "%s%s" % (row.pre, line)
""")], ["V3"])
seeded("c09-no-line-for-empty-value", ["C09"], [(RD, '        lines = str(attr).splitlines() or [""]\n', "        lines = str(attr).splitlines()\n"),
                                                 (RD, '        lines = attr or [""]\n', "        lines = attr\n")])
seeded("c09-iter-starts-with-nonempty", ["C09"], [(RD, "        return self.__next(self.node, tuple())\n", "        return self.__next(self.node, (False,))\n")], ["V1"])
benign("c09-items-generator", ["C09"], [(RD, ITEMS, "        items = list(style.vertical if cont else style.empty for cont in continues)\n")])
benign("c09-negated-element-test", ["C09"], [(RD, ITEMS, "        items = [style.empty if not cont else style.vertical for cont in continues]\n")])
benign("c09-indent-from-sliced-continues", ["C09"], [(RD, '        indent = "".join(items[:-1])\n',
                                                      '        indent = "".join(style.vertical if cont else style.empty for cont in continues[:-1])\n')])
benign("c09-level-in-call", ["C09"], [(RD, """        level += 1
        if self.maxlevel is None or level < self.maxlevel:
""", """        if self.maxlevel is None or level + 1 < self.maxlevel:
"""), (RD, "continues + (not is_last,), level=level):", "continues + (not is_last,), level=level + 1):")])
benign("c09-branch-if-statement", ["C09"], [(RD, "        branch = style.cont if continues[-1] else style.end\n", """        if continues[-1]:
            branch = style.cont
        else:
            branch = style.end
""")])
benign("c09-row-keywords", ["C09"], [(RD, "        return Row(pre, fill, node)\n", "        return Row(pre=pre, fill=fill, node=node)\n")])
benign("c09-inline-pre", ["C09"], [(RD, """        pre = indent + branch
        fill = "".join(items)
        return Row(pre, fill, node)
""", """        return Row(indent + branch, "".join(items), node)
""")])

# ---------------------------------------------------------------- patch-based corpus
# benign/<id>/patch.diff : behaviour-preserving refactorings written by independent authors
#                          (must stay silent for every check)
# seeded/<id>/patch.diff : property-breaking changes written by independent authors
#                          (must fire for the checks recorded in meta.json)
import glob as _glob
import json as _json
import os as _os

_ROOT = _os.path.dirname(_os.path.dirname(_os.path.dirname(_os.path.abspath(__file__))))
ALL_CHECKS = ["C01", "C02", "C03", "C04", "C05", "C06", "C07", "C08", "C09", "C10", "C11", "C12", "C13", "C14", "C15", "C16", "C17", "C18", "C19", "C20"]
for _d in sorted(_glob.glob(_os.path.join(_ROOT, "benign", "*"))):
    _p = _os.path.join(_d, "patch.diff")
    if _os.path.exists(_p):
        _bm = _json.load(open(_os.path.join(_d, "meta.json"))) if _os.path.exists(_os.path.join(_d, "meta.json")) else {}
        VARIANTS.append(dict(id="benign-" + _os.path.basename(_d), props=list(ALL_CHECKS), kind="benign", edits=[], patch=_p,
                             allow_error_for=_bm.get("no_verdict_expected_for")))
for _d in sorted(_glob.glob(_os.path.join(_ROOT, "seeded", "*"))):
    _p, _m = _os.path.join(_d, "patch.diff"), _os.path.join(_d, "meta.json")
    if _os.path.exists(_p) and _os.path.exists(_m):
        _meta = _json.load(open(_m))
        if _meta.get("checks_that_fire"):
            VARIANTS.append(dict(id="seeded-" + _os.path.basename(_d), props=list(_meta["checks_that_fire"]), kind="seeded", edits=[],
                                 patch=_p, rules=None))
benign("c18-node-only-guard-clause", ["C18"], [(NM, """        if parent is not value:
            self.__check_loop(value)
            self.__detach(parent)
            self.__attach(value)
""", """        if parent is value:
            return
        self.__check_loop(value)
        self.__detach(parent)
        self.__attach(value)
""")])
benign("c18-light-only-detach-guard-clause", ["C18"], [(LM, """        if parent is not None:
            self._pre_detach(parent)
            parentchildren = parent.__children_or_empty
            if ASSERTIONS:  # pragma: no branch
                assert any(child is self for child in parentchildren), "Tree is corrupt."  # pragma: no cover
            # ATOMIC START
            parent.__children = [child for child in parentchildren if child is not self]
            self.__parent = None
            # ATOMIC END
            self._post_detach(parent)
""", """        if parent is None:
            return
        self._pre_detach(parent)
        parentchildren = parent.__children_or_empty
        if ASSERTIONS:  # pragma: no branch
            assert any(child is self for child in parentchildren), "Tree is corrupt."  # pragma: no cover
        # ATOMIC START
        parent.__children = [child for child in parentchildren if child is not self]
        self.__parent = None
        # ATOMIC END
        self._post_detach(parent)
""")])
