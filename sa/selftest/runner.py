"""Self-validation of the checkers on scratch copies (DESIGN section 7).

Every variant is a small edit of /repo's *current* anytree/ sources applied in
a scratch directory outside /repo and /verif (removed immediately):
  kind "seeded": breaks a property; the named check must report a violation
                 (a non-known finding) whose rule is one of `rules`.
  kind "benign": behaviour-preserving rewrite; the check must stay silent.
A variant whose anchor text is not present in the current tree is skipped
(the tree under analysis may itself have been edited)."""

import multiprocessing
import os
import random
import shutil
import sys
import tempfile

from ..model import AnalysisError


def apply_variant(repo, variant, dest):
    """Copy repo/anytree to dest/anytree with the variant's edits; returns
    False if an anchor is missing."""
    src = os.path.join(repo, "anytree")
    shutil.copytree(src, os.path.join(dest, "anytree"), ignore=shutil.ignore_patterns("__pycache__"))
    if variant.get("patch"):
        import subprocess
        r = subprocess.run(["patch", "-p1", "-s", "--no-backup-if-mismatch", "-f", "-i", variant["patch"]], cwd=dest,
                           stdout=subprocess.PIPE, stderr=subprocess.STDOUT)
        return r.returncode == 0
    for edit in variant["edits"]:
        rel, old, new = edit[0], edit[1], edit[2]
        count = edit[3] if len(edit) > 3 else 1
        path = os.path.join(dest, rel)
        with open(path, encoding="utf-8") as fh:
            s = fh.read()
        if s.count(old) < 1 or (count and s.count(old) != count):
            return False
        s = s.replace(old, new)
        with open(path, "w", encoding="utf-8") as fh:
            fh.write(s)
    return True


def run_variant(args):
    prop, repo, variant = args
    from ..check import run_rules
    from ..report import split_known
    d = tempfile.mkdtemp(prefix="sa-variant-")
    try:
        if not apply_variant(repo, variant, d):
            return (variant["id"], "skipped", "anchor text not found in current tree", [])
        try:
            import ast
            for e in variant.get("edits") or []:
                with open(os.path.join(d, e[0]), encoding="utf-8") as fh:
                    ast.parse(fh.read())
        except SyntaxError as exc:
            return (variant["id"], "broken", "variant does not parse: %s" % exc, [])
        try:
            ctx, _ = run_rules(prop, d, "quick", 0)
        except AnalysisError as exc:
            return (variant["id"], "analysis-error", str(exc), [])
        hits, new = split_known(ctx)
        return (variant["id"], "fired" if new else "silent", "", [(f.rule, f.func, f.construct) for f in new])
    finally:
        shutil.rmtree(d, ignore_errors=True)


def variants_for(prop):
    from . import variants
    return [v for v in variants.VARIANTS if prop in v["props"]]


def validate(prop, repo, seed=0, jobs=None):
    vs = variants_for(prop)
    if not vs:
        return {"selfvalidation_summary": "no variants registered for %s" % prop}
    random.Random(seed).shuffle(vs)
    jobs = jobs or min(16, max(1, len(vs)))
    # workers are recycled after a few variants: each run builds a whole program model
    with multiprocessing.Pool(jobs, maxtasksperchild=6) as pool:
        results = pool.map(run_variant, [(prop, repo, v) for v in vs], chunksize=1)
    by_id = {v["id"]: v for v in vs}
    bad = []
    rows = []
    n_fired = n_silent = n_skipped = 0
    for vid, status, msg, found in results:
        v = by_id[vid]
        ok = True
        if status == "skipped":
            n_skipped += 1
        elif v["kind"] == "seeded":
            want = set(v.get("rules") or [])
            got = {r for r, _, _ in found}
            # analysis-error is accepted for seeded variants that remove an anchor (fail closed)
            if status == "fired" and (not want or want & got):
                n_fired += 1
            elif status == "analysis-error" and v.get("allow_error"):
                n_fired += 1
            else:
                ok = False
        else:
            if status == "silent" or (status == "analysis-error" and prop in (v.get("allow_error_for") or [])):
                n_silent += 1
            else:
                ok = False
        rows.append("%s [%s] %s%s%s" % (vid, v["kind"], status, (": " + msg) if msg else "",
                                        (" " + "; ".join("%s %s" % (r, c[:60]) for r, _, c in found[:3])) if found else ""))
        if not ok:
            bad.append(rows[-1])
    summary = "%d seeded fired, %d benign silent, %d skipped, %d wrong (of %d variants)" % (
        n_fired, n_silent, n_skipped, len(bad), len(vs))
    if bad:
        raise AnalysisError("self-validation failed for %s: %s" % (prop, " | ".join(bad)))
    return {"selfvalidation_summary": summary, "selfvalidation_variants": sorted(rows)}


def main(argv=None):
    import argparse
    ap = argparse.ArgumentParser()
    ap.add_argument("--prop", default=None)
    ap.add_argument("--id", default=None)
    ap.add_argument("--repo", default="/repo")
    args = ap.parse_args(argv)
    from . import variants
    todo = []
    for v in variants.VARIANTS:
        if args.id and v["id"] != args.id and not (args.id.endswith("*") and v["id"].startswith(args.id[:-1])):
            continue
        for prop in v["props"]:
            if args.prop and prop != args.prop.upper():
                continue
            todo.append((prop, args.repo, v))
    with multiprocessing.Pool(min(16, max(1, len(todo))), maxtasksperchild=6) as pool:
        results = pool.map(run_variant, todo, chunksize=1)
    bad = 0
    for (prop, _, v), (vid, status, msg, found) in zip(todo, results):
        want = "fired" if v["kind"] == "seeded" else "silent"
        good = status == want or status == "skipped" or (status == "analysis-error" and (v.get("allow_error") or prop in (v.get("allow_error_for") or [])))
        if good and status == "fired" and v.get("rules") and not (set(v["rules"]) & {r for r, _, _ in found}):
            good = False
        if not good:
            bad += 1
        print("%s %-4s %-42s %-7s %-14s %s %s" % ("ok " if good else "BAD", prop, vid, v["kind"], status, msg,
                                                  "; ".join("%s@%s `%s`" % (r, f, c[:50]) for r, f, c in found[:4])))
    print("%d variant runs, %d wrong" % (len(todo), bad))
    return 1 if bad else 0


if __name__ == "__main__":
    sys.exit(main())
