"""Positive fixture for the cache-coherence rule (N8/W9/E6): a memo field `__kids` filled in the `children` getter.
`__detach` drops it next to the list write (must be accepted), `__attach` drops it BEFORE the pre-attach hook
(must be reported: the hook may read `children` and refill the cache before the append)."""


class NodeMixin:
    @property
    def children(self):
        kids = self.__kids if hasattr(self, "_NodeMixin__kids") else None
        if kids is None:
            kids = self.__kids = tuple(self.__children_or_empty)
        return kids

    @property
    def __children_or_empty(self):
        if not hasattr(self, "_NodeMixin__children"):
            self.__children = []
        return self.__children

    def __detach(self, parent):
        if parent is not None:
            self._pre_detach(parent)
            parentchildren = parent.__children_or_empty
            parent.__children = [child for child in parentchildren if child is not self]
            parent.__kids = None
            self.__parent = None
            self._post_detach(parent)

    def __attach(self, parent):
        if parent is not None:
            parent.__kids = None
            self._pre_attach(parent)
            parentchildren = parent.__children_or_empty
            parentchildren.append(self)
            self.__parent = parent
            self._post_attach(parent)

    def _pre_detach(self, parent):
        """Method call before detaching from `parent`."""

    def _post_detach(self, parent):
        """Method call after detaching from `parent`."""

    def _pre_attach(self, parent):
        """Method call before attaching to `parent`."""

    def _post_attach(self, parent):
        """Method call after attaching to `parent`."""
