class LightNodeMixin:
    __slots__ = ["__parent", "__children"]
