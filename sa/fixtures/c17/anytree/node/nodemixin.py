from .lightnodemixin import LightNodeMixin


class NodeMixin:
    pass
