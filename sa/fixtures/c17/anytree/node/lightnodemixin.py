class LightNodeMixin:
    pass
