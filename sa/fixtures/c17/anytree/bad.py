"""Positive fixture for the C17 lint: one instance of each forbidden form.
Never imported or executed; the lint must report every function below."""


def t1_eq(node, child):
    return node == child


def t1_seq_eq(children, nodes):
    return children == nodes


def t2_in(node, children):
    return node in children


def t2_index(node, children):
    return children.index(node)


def t2_remove(node, children):
    children.remove(node)


def t2_sorted(children):
    return sorted(children)


def t3_if(node):
    if node.parent:
        return 1
    return 0


def t3_or(node, child):
    return node or child


def t3_not(node):
    return not node


def t3_any(children):
    return any(children)


def t4_hash(node):
    return hash(node)


def t4_set(children):
    return set(children)


def t4_key(node):
    seen = {}
    seen[node] = 1
    return seen


def t4_add(node):
    seen = set()
    seen.add(node)
    return seen


def t5_len(node):
    return len(node)


def t5_iter(node):
    for x in node:
        yield x


def t5_getitem(node):
    return node[0]


def t5_contains(node, name):
    return name in node


def ok_identity(node, children):
    if node.parent is not None and any(c is node for c in children):
        return [c for c in children if c is not node]
    return tuple(children)
