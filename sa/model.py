"""Program model of the anytree package: modules, classes, properties,
functions, name mangling and import resolution.  Built from source text
only (``ast``); nothing is imported."""

import ast
import hashlib
import os


class AnalysisError(Exception):
    """The analysis cannot give a verdict (vanished anchor, unsupported
    construct, floor not met).  Reported as ANALYSIS-ERROR, exit 2."""


PKG = "anytree"
_ALWAYS_AVAILABLE = {"functools", "itertools", "collections", "operator", "re", "json", "os", "sys", "six", "warnings", "codecs", "copy",
                     "logging", "subprocess", "tempfile", "math", "typing", "abc", "enum"}
# attribute names that are properties somewhere in the package (reading them runs code): never copy-propagated
_PROPERTY_NAMES = {"parent", "children", "path", "_path", "ancestors", "anchestors", "descendants", "root", "siblings", "leaves",
                   "is_leaf", "is_root", "height", "depth", "size", "empty", "target"}


def mangle(clsname, attr):
    """CPython private-name mangling of ``attr`` inside class ``clsname``."""
    if clsname and attr.startswith("__") and not attr.endswith("__"):
        stripped = clsname.lstrip("_")
        if stripped:
            return "_%s%s" % (stripped, attr)
    return attr


def strip_doc(body):
    if body and isinstance(body[0], ast.Expr) and isinstance(getattr(body[0], "value", None), ast.Constant) \
            and isinstance(body[0].value.value, str):
        return body[1:]
    return body


def norm(node):
    """Normalised source of a node: the key used for findings (never a line)."""
    if node is None:
        return ""
    if isinstance(node, str):
        return node
    try:
        return ast.unparse(node)
    except Exception:  # pragma: no cover
        return ast.dump(node)


def short(node, n=110):
    s = " ".join(norm(node).split())
    return s if len(s) <= n else s[: n - 3] + "..."


class Module:
    def __init__(self, relpath, src):
        self.relpath = relpath  # e.g. anytree/node/nodemixin.py
        self.src = src
        self.tree = ast.parse(src, filename=relpath)
        self.digest = hashlib.sha256(src.encode("utf-8")).hexdigest()[:16]
        self.dotted = relpath[:-3].replace("/", ".")
        if self.dotted.endswith(".__init__"):
            self.dotted = self.dotted[: -len(".__init__")]
            self.is_pkg = True
        else:
            self.is_pkg = False
        self.imports = {}  # local name -> (dotted module, name or None)
        self.classes = {}
        self.functions = {}
        self.assigns = {}  # module-level NAME -> value node


class Func:
    """One analysable function body (method, accessor, function, lambda)."""

    def __init__(self, module, cls, name, node, kind, decorators, outer=None):
        self.module = module
        self.cls = cls  # Class or None (lexically enclosing class)
        self.name = name  # mangled member name
        self.srcname = getattr(node, "name", "<lambda>")
        self.node = node
        self.kind = kind  # method static class function getter setter deleter lambda nested
        self.decorators = decorators
        self.outer = outer
        self.nested = []

    @property
    def is_lambda(self):
        return isinstance(self.node, ast.Lambda)

    @property
    def body(self):
        if self.is_lambda:
            return [ast.copy_location(ast.Return(value=self.node.body), self.node.body)]
        return strip_doc(self.node.body)

    @property
    def params(self):
        a = self.node.args
        return [x.arg for x in a.posonlyargs + a.args] + ([a.vararg.arg] if a.vararg else []) + \
            [x.arg for x in a.kwonlyargs] + ([a.kwarg.arg] if a.kwarg else [])

    @property
    def posparams(self):
        a = self.node.args
        return [x.arg for x in a.posonlyargs + a.args]

    @property
    def defaults(self):
        """param name -> default node"""
        a = self.node.args
        pos = a.posonlyargs + a.args
        out = {}
        for p, d in zip(pos[len(pos) - len(a.defaults):], a.defaults):
            out[p.arg] = d
        for p, d in zip(a.kwonlyargs, a.kw_defaults):
            if d is not None:
                out[p.arg] = d
        return out

    @property
    def selfname(self):
        if self.kind in ("method", "getter", "setter", "deleter") and self.posparams:
            return self.posparams[0]
        return None

    @property
    def qual(self):
        base = self.srcname
        if self.kind in ("setter", "deleter"):
            base = "%s.%s" % (self.srcname, self.kind)
        if self.outer is not None:
            if self.is_lambda:
                idx = [f for f in self.outer.nested if f.is_lambda].index(self)
                return "%s.<lambda#%d>" % (self.outer.qual, idx)
            return "%s.<locals>.%s" % (self.outer.qual, base)
        if self.cls is not None:
            return "%s.%s" % (self.cls.name, base)
        return base

    @property
    def where(self):
        return "%s::%s" % (self.module.relpath, self.qual)

    @property
    def lineno(self):
        return self.node.lineno

    def __repr__(self):
        return "<Func %s>" % self.where


class Prop:
    def __init__(self, name):
        self.name = name
        self.getter = None
        self.setter = None
        self.deleter = None


class Class:
    def __init__(self, module, node):
        self.module = module
        self.node = node
        self.name = node.name
        self.base_exprs = node.bases
        self.bases = []  # resolved Class objects (package classes only)
        self.ext_bases = []  # names of non-package bases
        self.members = {}  # mangled name -> Func | Prop
        self.assigns = {}  # class-level NAME -> value node
        self.decorators = [norm(d) for d in node.decorator_list]

    def mro(self):
        out, seen = [], set()

        def walk(c):
            if id(c) in seen:
                return
            seen.add(id(c))
            out.append(c)
            for b in c.bases:
                walk(b)
        walk(self)
        return out

    def lookup(self, mname):
        for c in self.mro():
            if mname in c.members:
                return c.members[mname]
        return None

    def is_subclass_of(self, other):
        return any(c is other for c in self.mro())

    def funcs(self):
        for m in self.members.values():
            if isinstance(m, Prop):
                for f in (m.getter, m.setter, m.deleter):
                    if f is not None:
                        yield f
            else:
                yield m

    def __repr__(self):
        return "<Class %s>" % self.name


def _decorator_kind(decos):
    kind = "method"
    for d in decos:
        if isinstance(d, ast.Name) and d.id == "property":
            return "getter"
        if isinstance(d, ast.Name) and d.id == "staticmethod":
            kind = "static"
        if isinstance(d, ast.Name) and d.id == "classmethod":
            kind = "class"
        if isinstance(d, ast.Attribute) and d.attr in ("setter", "deleter", "getter") and isinstance(d.value, ast.Name):
            return d.attr
    return kind


class Program:
    """All modules of the package under ``repo``."""

    def __init__(self, repo, inline=True):
        self.repo = os.path.abspath(repo)
        self.inline = inline
        self.inlined = {}
        self.modules = {}  # relpath -> Module
        self.by_dotted = {}
        self.classes = {}  # name -> Class (class names are unique in the package)
        self.all_funcs = []
        self._load()
        self._index()

    # ------------------------------------------------------------------ load
    def _load(self):
        root = os.path.join(self.repo, PKG)
        if not os.path.isdir(root):
            raise AnalysisError("package directory %s missing" % root)
        loaded = []
        for dirpath, dirnames, filenames in os.walk(root):
            dirnames[:] = sorted(d for d in dirnames if d != "__pycache__")
            for fn in sorted(filenames):
                if not fn.endswith(".py"):
                    continue
                full = os.path.join(dirpath, fn)
                rel = os.path.relpath(full, self.repo).replace(os.sep, "/")
                with open(full, encoding="utf-8") as fh:
                    src = fh.read()
                try:
                    mod = Module(rel, src)
                except SyntaxError as exc:
                    raise AnalysisError("%s does not parse: %s" % (rel, exc))
                loaded.append((rel, mod))
        if self.inline:
            # normalisation -1: new optional parameters (not in the pinned signatures) are analysed at their default
            from .newoptions import specialise
            rep = specialise({rel: mod.tree for rel, mod in loaded})
            for rel, items in rep.items():
                self.inlined.setdefault(rel, {})["new_options_at_default"] = items
        for rel, mod in loaded:
            if True:
                if self.inline:
                    from .inline import inline_module, propagate_aliases
                    from .renames import restore_names
                    from .renames import conventional_param_names
                    from .normalize import lift_closure_factories
                    lifted = lift_closure_factories(mod.tree)
                    if lifted:
                        self.inlined.setdefault(rel, {})["closure_factories_lifted"] = lifted
                    restored = restore_names(rel, mod.tree)
                    conv = conventional_param_names(rel, mod.tree)
                    if conv:
                        self.inlined.setdefault(rel, {})["helper_params_renamed"] = ["%s%s %s" % (sc + "." if sc else "", nm, mp) for sc, nm, mp in conv]
                    if restored:
                        self.inlined.setdefault(rel, {})["names_restored"] = ["%s%s -> %s" % (sc + "." if sc else "", a, b) for sc, a, b in restored]
                    n, names = inline_module(mod.tree)
                    if n:
                        self.inlined.setdefault(rel, {}).update({"call_sites": n, "helpers": names})
                    if n and self.inlined.get(rel, {}).get("new_options_at_default"):
                        from .newoptions import fold_after_inlining, unroll_singleton_params
                        fold_after_inlining(mod.tree)
                        un = unroll_singleton_params(mod.tree)
                        if un:
                            self.inlined.setdefault(rel, {})["singleton_params_unrolled"] = un
                    if rel not in ("anytree/node/nodemixin.py", "anytree/node/lightnodemixin.py"):
                        k = propagate_aliases(mod.tree, _PROPERTY_NAMES)
                        if k:
                            self.inlined.setdefault(rel, {})["aliases_propagated"] = k
                self.modules[rel] = mod
                self.by_dotted[mod.dotted] = mod
        if self.inline:
            from . import normalize
            trees = [m.tree for m in self.modules.values()]
            allh = normalize.collect_gen_helpers(trees)
            used = set()
            for rel, mod in self.modules.items():
                k = normalize.inline_generators(mod.tree, allh, used) if allh else 0
                if k:
                    self.inlined.setdefault(rel, {})["generator_helpers_inlined"] = k
            if used:
                normalize.drop_unreferenced_gen_helpers(trees, allh, used)
            for rel, mod in self.modules.items():
                mixin = rel in ("anytree/node/nodemixin.py", "anytree/node/lightnodemixin.py")
                st = normalize.normalize_module(mod.tree, None if mixin else _PROPERTY_NAMES)
                if st:
                    self.inlined.setdefault(rel, {}).update(st)
                    if not mixin:
                        from .inline import propagate_aliases
                        k = propagate_aliases(mod.tree, _PROPERTY_NAMES)
                        if k:
                            self.inlined[rel]["aliases_propagated"] = self.inlined[rel].get("aliases_propagated", 0) + k
                if st.get("dispatch_tables"):
                    # calls through a table entry are direct calls now: inline the new private helpers among them
                    from .inline import inline_module
                    n, names = inline_module(mod.tree)
                    if n:
                        normalize.normalize_module(mod.tree, None if mixin else _PROPERTY_NAMES)

    def _resolve_from(self, mod, level, name):
        """dotted module named by ``from <level dots><name> import``"""
        if level == 0:
            return name
        parts = mod.dotted.split(".")
        if not mod.is_pkg:
            parts = parts[:-1]
        if level > 1:
            parts = parts[: len(parts) - (level - 1)]
        if name:
            parts = parts + name.split(".")
        return ".".join(parts)

    def _index(self):
        for mod in self.modules.values():
            self._index_body(mod, mod.tree.body)
        # resolve bases
        for cls in list(self.classes.values()):
            for b in cls.base_exprs:
                target = self.resolve_class_expr(cls.module, b)
                if target is not None:
                    cls.bases.append(target)
                else:
                    cls.ext_bases.append(norm(b))

    def _index_body(self, mod, body):
        for st in body:
            if isinstance(st, ast.Import):
                for a in st.names:
                    mod.imports[a.asname or a.name.split(".")[0]] = (a.name if a.asname else a.name.split(".")[0], None)
            elif isinstance(st, ast.ImportFrom):
                dotted = self._resolve_from(mod, st.level, st.module or "")
                for a in st.names:
                    mod.imports[a.asname or a.name] = (dotted, a.name)
            elif isinstance(st, ast.ClassDef):
                cls = Class(mod, st)
                mod.classes[cls.name] = cls
                if cls.name in self.classes:
                    # two modules define a class of the same name: the package-wide index by simple name keeps the first
                    # (module-local lookups use mod.classes); only for the public anchor classes that is not acceptable
                    if not cls.name.startswith("_"):
                        raise AnalysisError("duplicate class name %s" % cls.name)
                    self.shadowed_classes = getattr(self, "shadowed_classes", [])
                    self.shadowed_classes.append(cls)
                else:
                    self.classes[cls.name] = cls
                self._index_class(cls)
            elif isinstance(st, (ast.FunctionDef, ast.AsyncFunctionDef)):
                f = Func(mod, None, st.name, st, "function", list(st.decorator_list))
                mod.functions[st.name] = f
                self._register(f)
            elif isinstance(st, ast.Assign):
                for t in st.targets:
                    if isinstance(t, ast.Name):
                        mod.assigns[t.id] = st.value
            elif isinstance(st, ast.Try):
                # optional import with fallback definition (cachedsearch): an import of an always-available
                # module in the try body wins over the fallback in an ImportError handler; an import of a
                # third-party package that is not part of the analysed environment (fastcache) loses
                firm = set()
                for b in st.body:
                    if isinstance(b, ast.ImportFrom) and (b.module or "").split(".")[0] in _ALWAYS_AVAILABLE and b.level == 0:
                        firm |= {a.asname or a.name for a in b.names}
                    elif isinstance(b, ast.Import):
                        firm |= {a.asname or a.name.split(".")[0] for a in b.names if a.name.split(".")[0] in _ALWAYS_AVAILABLE}
                self._index_body(mod, st.body)
                for h in st.handlers:
                    before_f, before_i, before_a = dict(mod.functions), dict(mod.imports), dict(mod.assigns)
                    self._index_body(mod, h.body)
                    for name in firm:
                        for cur, old in ((mod.functions, before_f), (mod.imports, before_i), (mod.assigns, before_a)):
                            if name in old:
                                cur[name] = old[name]
                            else:
                                cur.pop(name, None)
                self._index_body(mod, st.orelse)
                self._index_body(mod, st.finalbody)
            elif isinstance(st, ast.If):
                self._index_body(mod, st.body)
                self._index_body(mod, st.orelse)

    def _index_class(self, cls):
        for st in cls.node.body:
            if isinstance(st, (ast.FunctionDef, ast.AsyncFunctionDef)):
                kind = _decorator_kind(st.decorator_list)
                mname = mangle(cls.name, st.name)
                f = Func(cls.module, cls, mname, st, kind, list(st.decorator_list))
                if kind in ("getter", "setter", "deleter"):
                    prop = cls.members.get(mname)
                    if not isinstance(prop, Prop):
                        prop = Prop(mname)
                        cls.members[mname] = prop
                    setattr(prop, kind, f)
                else:
                    cls.members[mname] = f
                self._register(f)
            elif isinstance(st, ast.Assign):
                for t in st.targets:
                    if isinstance(t, ast.Name):
                        cls.assigns[mangle(cls.name, t.id)] = st.value
            elif isinstance(st, ast.AnnAssign) and isinstance(st.target, ast.Name) and st.value is not None:
                cls.assigns[mangle(cls.name, st.target.id)] = st.value

    def _register(self, f):
        self.all_funcs.append(f)
        # nested defs and lambdas
        stack = list(ast.iter_child_nodes(f.node))
        while stack:
            n = stack.pop(0)
            if isinstance(n, (ast.FunctionDef, ast.AsyncFunctionDef)):
                g = Func(f.module, f.cls, n.name, n, "nested", list(n.decorator_list), outer=f)
                f.nested.append(g)
                self._register(g)
                continue
            if isinstance(n, ast.Lambda):
                g = Func(f.module, f.cls, "<lambda>", n, "lambda", [], outer=f)
                f.nested.append(g)
                self._register(g)
                continue
            if isinstance(n, ast.ClassDef):
                continue
            stack.extend(ast.iter_child_nodes(n))

    # ------------------------------------------------------------ resolution
    def resolve_name(self, mod, name, _depth=0):
        """What a module-level name denotes: ('class', Class) | ('func', Func) |
        ('module', dotted) | ('ext', 'pkg.name') | ('const', node) | None."""
        if _depth > 8:
            return None
        if name in mod.classes:
            return ("class", mod.classes[name])
        if name in mod.functions:
            return ("func", mod.functions[name])
        if name in mod.imports:
            dotted, member = mod.imports[name]
            if member is None:
                if dotted in self.by_dotted:
                    return ("module", dotted)
                return ("ext", dotted)
            # from dotted import member
            sub = dotted + "." + member
            if sub in self.by_dotted:
                return ("module", sub)
            if dotted in self.by_dotted:
                r = self.resolve_name(self.by_dotted[dotted], member, _depth + 1)
                if r is not None:
                    return r
                return None
            return ("ext", dotted + "." + member)
        if name in mod.assigns:
            return ("const", mod.assigns[name])
        return None

    def resolve_class_expr(self, mod, expr):
        if isinstance(expr, ast.Name):
            r = self.resolve_name(mod, expr.id)
            if r and r[0] == "class":
                return r[1]
        if isinstance(expr, ast.Attribute) and isinstance(expr.value, ast.Name):
            r = self.resolve_name(mod, expr.value.id)
            if r and r[0] == "module":
                r2 = self.resolve_name(self.by_dotted[r[1]], expr.attr)
                if r2 and r2[0] == "class":
                    return r2[1]
        return None

    # --------------------------------------------------------------- helpers
    def cls(self, name):
        if name not in self.classes:
            raise AnalysisError("anchor class %s not found" % name)
        return self.classes[name]

    def module(self, relpath):
        if relpath not in self.modules:
            raise AnalysisError("anchor module %s not found" % relpath)
        return self.modules[relpath]

    def func(self, clsname, member, kind=None):
        """Anchor lookup: method or accessor ``member`` (source name) of class."""
        c = self.cls(clsname)
        m = c.members.get(mangle(clsname, member))
        if m is None:
            raise AnalysisError("anchor %s.%s not found" % (clsname, member))
        if isinstance(m, Prop):
            f = getattr(m, kind or "getter")
            if f is None:
                raise AnalysisError("anchor %s.%s.%s not found" % (clsname, member, kind))
            return f
        if kind not in (None, "method"):
            raise AnalysisError("anchor %s.%s is not a property" % (clsname, member))
        return m

    def modfunc(self, relpath, name):
        m = self.module(relpath)
        if name not in m.functions:
            raise AnalysisError("anchor %s::%s not found" % (relpath, name))
        return m.functions[name]

    def subclasses(self, cls):
        return [c for c in self.classes.values() if c.is_subclass_of(cls)]

    def digests(self, relpaths=None):
        return {p: m.digest for p, m in sorted(self.modules.items()) if relpaths is None or p in relpaths}
