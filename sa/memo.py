"""Memo fields of the node mixins: private attributes that cache a value derived from the links.

A performance change that keeps e.g. the children tuple in a private attribute adds *state that depends on the links*:
the navigation attribute stays "computed from the current links" (C04) only if the cache is dropped together with
every change of the link it was computed from.  This module recognises such fields and states that obligation as a
rule over the syntax tree (used by C04 as N8); the other analyses use the recognition to treat the cache as what it
is: the getter is equivalent to computing the value (trace interpreter), the store in the getter is the memo idiom
and not an effect on the tree (purity), the field is private state of the node like the link fields (exporter skip
list, symlink forwarding tables, __slots__).

A private attribute `__X` of NodeMixin / LightNodeMixin is a memo field when every store to it in the package is
either `<expr>.__X = None` inside the owning mixin (invalidation) or `self.__X = <value>` inside one of the read-only
navigation getters of that mixin (fill), and there is at least one of each."""

import ast

from . import tables as T
from .model import mangle, norm
from .rules.common import walk_own


class Memo:
    def __init__(self, cls, attr):
        self.cls = cls          # mixin class name
        self.attr = attr        # source attribute name, e.g. "__children_tuple"
        self.mangled = mangle(cls, attr)
        self.fills = []         # (Func getter, Assign stmt, value expr)
        self.invalidations = []  # (Func, Assign stmt, owner expr)
        self.other = []         # (Func, node) any other store: disqualifies

    @property
    def getters(self):
        return {f for f, _, _ in self.fills}


def _is_none(e):
    return isinstance(e, ast.Constant) and e.value is None


def memo_fields(program):
    """-> {mangled name: Memo} for the two mixins"""
    if getattr(program, "_memo_cache", None) is not None:
        return program._memo_cache
    from .linkrules import link_fields
    links = link_fields(program)
    cand = {}
    for m in T.MIXINS:
        cls = program.classes.get(m)
        if cls is None:
            continue
        for f in cls.funcs():
            for n in walk_own(f.node):
                if isinstance(n, ast.Assign):
                    for t in n.targets:
                        if isinstance(t, ast.Attribute) and t.attr.startswith("__") and not t.attr.endswith("__"):
                            mg = mangle(m, t.attr)
                            if mg in links:
                                continue
                            mm = cand.setdefault(mg, Memo(m, t.attr))
                            top = f
                            while getattr(top, "outer", None) is not None:
                                top = top.outer
                            is_getter = top.srcname in T.READONLY_MEMBERS and top.kind not in ("setter", "deleter")
                            if _is_none(n.value) and len(n.targets) == 1:
                                mm.invalidations.append((f, n, t.value))
                            elif is_getter and isinstance(t.value, ast.Name) and t.value.id == f.selfname:
                                mm.fills.append((f, n, n.value))
                            else:
                                mm.other.append((f, n))
                elif isinstance(n, (ast.AugAssign, ast.AnnAssign, ast.Delete)):
                    tg = n.targets if isinstance(n, ast.Delete) else [n.target]
                    for t in tg:
                        if isinstance(t, ast.Attribute) and t.attr.startswith("__") and not t.attr.endswith("__") and mangle(m, t.attr) not in links:
                            cand.setdefault(mangle(m, t.attr), Memo(m, t.attr)).other.append((f, n))
    # stores from outside the owning class (by mangled string or attribute) disqualify
    for f in program.all_funcs:
        for n in walk_own(f.node):
            if isinstance(n, ast.Constant) and isinstance(n.value, str) and n.value in cand:
                # a string mention is fine when it is only read (hasattr/getattr/name tables); setattr/delattr/__dict__ stores are not
                pass
            if isinstance(n, ast.Call) and isinstance(n.func, ast.Name) and n.func.id in ("setattr", "delattr") and len(n.args) >= 2 \
                    and isinstance(n.args[1], ast.Constant) and n.args[1].value in cand:
                cand[n.args[1].value].other.append((f, n))
            if isinstance(n, ast.Attribute) and isinstance(n.ctx, (ast.Store, ast.Del)) and f.cls is not None and f.cls.name not in T.MIXINS:
                mg = mangle(f.cls.name, n.attr)
                if mg in cand:
                    cand[mg].other.append((f, n))
    out = {k: v for k, v in cand.items() if v.fills and v.invalidations and not v.other}
    program._memo_cache = out
    return out


def memo_getter_value(program, func):
    """the fill expression if `func` is the getter of a memo field (its body is then equivalent to returning that value,
    provided the coherence rule N8 holds), else None"""
    for mm in memo_fields(program).values():
        vals = [v for f, _, v in mm.fills if f is func]
        if len(vals) == 1:
            return mm, vals[0]
    return None


def dependency(value_expr, selfname):
    """which link directions the cached value is computed from: subset of {"children", "parent"}; None if not followed"""
    deps = set()
    for n in ast.walk(value_expr):
        if isinstance(n, ast.Attribute) and isinstance(n.value, ast.Name) and n.value.id == selfname:
            if n.attr in ("__children", "__children_or_empty", "children"):
                deps.add("children")
            elif n.attr in ("__parent", "parent"):
                deps.add("parent")
            elif n.attr in T.READONLY_MEMBERS:
                deps |= {"children", "parent"}
            else:
                return None
        elif isinstance(n, ast.Call):
            if not (isinstance(n.func, ast.Name) and n.func.id in ("tuple", "list", "len", "reversed", "frozenset")):
                return None
    return deps


def _quiet(st):
    """a statement that cannot run user code or raise between a link write and the invalidation"""
    if isinstance(st, ast.Assign):
        for n in ast.walk(st):
            if isinstance(n, ast.Call):
                return False
        # stores to private (mangled) attributes / plain names only
        for t in st.targets:
            if isinstance(t, ast.Attribute) and not (t.attr.startswith("__") and not t.attr.endswith("__")):
                return False
            if isinstance(t, ast.Subscript):
                return False
        return True
    if isinstance(st, ast.Pass):
        return True
    if isinstance(st, ast.Expr) and isinstance(st.value, ast.Constant):
        return True
    return False


def _owner_text(func, list_expr):
    """text of the node expression whose children list `list_expr` denotes (through one local alias)"""
    e = list_expr
    if isinstance(e, ast.Name):
        defs = [n for n in walk_own(func.node) if isinstance(n, ast.Assign) and len(n.targets) == 1 and isinstance(n.targets[0], ast.Name)
                and n.targets[0].id == e.id]
        if len(defs) != 1:
            return None
        e = defs[0].value
    if isinstance(e, ast.Attribute) and e.attr in ("__children", "__children_or_empty"):
        return norm(e.value)
    return None


def rule_coherence(ctx, rule):
    """N8: every change of a link a memo field is computed from is accompanied, in the same atomic step (no call, no
    hook, nothing that may raise in between), by dropping that node's memo"""
    from .linkrules import link_fields, link_write_sites
    p = ctx.p
    memos = memo_fields(p)
    if not memos:
        return 0
    fields = link_fields(p)
    sites = link_write_sites(p)
    n = 0
    for mg, mm in sorted(memos.items()):
        deps = set()
        for f, st, v in mm.fills:
            d = dependency(v, f.selfname)
            if d is None:
                ctx.extra.setdefault("undecided", []).append("%s: the cached value `%s` of %s is not followed" % (rule, norm(v)[:60], mg))
                d = {"children", "parent"}
            deps |= d
            ctx.inst(rule, f, st, "memo %s filled from the %s link(s)" % (mm.attr, "/".join(sorted(d))))
            n += 1
        for func, node, field, how in sites:
            if func.cls is None or func.cls.name != mm.cls:
                continue
            kind = fields[field][1] if field in fields else "children"
            if kind not in deps:
                continue
            from .purity import _is_lazy_init
            if isinstance(node, ast.Attribute) and _is_lazy_init(func, node):
                continue  # an absent list becomes an empty one: the same children view
            # the statement that contains the write, and its statement list
            holder, stmts = _enclosing_stmt(func.node, node)
            if holder is None:
                ctx.extra.setdefault("undecided", []).append("%s: cannot locate the statement of the link write in %s" % (rule, func.qual))
                continue
            if kind == "children":
                if isinstance(node, ast.Attribute):
                    owner = norm(node.value)
                elif isinstance(node, ast.Call) and isinstance(node.func, ast.Attribute):
                    owner = _owner_text(func, node.func.value)
                elif isinstance(node, ast.Call) and node.args:
                    owner = _owner_text(func, node.args[0])
                elif isinstance(node, ast.Subscript):
                    owner = _owner_text(func, node.value)
                else:
                    owner = None
            else:
                owner = norm(node.value) if isinstance(node, ast.Attribute) else None
            if owner is None:
                ctx.extra.setdefault("undecided", []).append("%s: whose list `%s` writes in %s is not followed" % (rule, norm(node)[:40], func.qual))
                continue
            i = stmts.index(holder)
            found = None
            for direction in (1, -1):
                j = i + direction
                while 0 <= j < len(stmts):
                    st = stmts[j]
                    if isinstance(st, ast.Assign) and len(st.targets) == 1 and isinstance(st.targets[0], ast.Attribute) \
                            and mangle(mm.cls, st.targets[0].attr) == mg and _is_none(st.value) and norm(st.targets[0].value) == owner:
                        found = st
                        break
                    if not _quiet(st):
                        break
                    j += direction
                if found is not None:
                    break
            n += 1
            if found is not None:
                ctx.inst(rule, func, holder, "%s of `%s` changed and its memo %s dropped in the same atomic step" % (kind, owner, mm.attr))
            else:
                ctx.viol(rule, func, holder, "the %s link of `%s` is changed here (%s) but the cached value %s of that node is not dropped in "
                         "the same atomic step (directly next to the write, nothing that can run user code or raise in between): a "
                         "hook or a later reader refills / sees the stale value and `%s` no longer reflects the current links" % (
                             kind, owner, how, mm.attr, "/".join(sorted(g.srcname for g in mm.getters))),
                         construct="%s: %s write without adjacent drop of %s" % (func.qual, kind, mm.attr))
    return n


def _enclosing_stmt(fnode, target):
    """(statement containing `target`, the statement list it is an element of) - innermost simple statement"""
    best = [None, None]

    def rec(stmts):
        for st in stmts:
            inside = any(x is target for x in ast.walk(st))
            if not inside:
                continue
            sub = False
            for field in ("body", "orelse", "finalbody"):
                blk = getattr(st, field, None)
                if isinstance(blk, list) and blk and isinstance(blk[0], ast.stmt):
                    if any(any(x is target for x in ast.walk(s2)) for s2 in blk):
                        rec(blk)
                        sub = True
            for h in getattr(st, "handlers", []) or []:
                if any(any(x is target for x in ast.walk(s2)) for s2 in h.body):
                    rec(h.body)
                    sub = True
            if not sub:
                best[0], best[1] = st, stmts
            return
    rec(fnode.body)
    return best[0], best[1]


def check_fixture(ctx):
    """the rule has no instance on a tree without memo fields: a planted example (sa/fixtures/memo) must be decided
    correctly on every run - the drop next to the write accepted, the drop before the hook reported"""
    from .model import AnalysisError
    from .report import Ctx
    from .rules.common import fixture_program
    fp = fixture_program("memo")
    if "_NodeMixin__kids" not in memo_fields(fp):
        raise AnalysisError("memo fixture: the planted memo field is not recognised")
    c2 = Ctx(ctx.prop, fp)
    rule_coherence(c2, "N8")
    bad = sorted((f.func, f.construct) for f in c2.findings)
    if bad != [("NodeMixin.__attach", "NodeMixin.__attach: children write without adjacent drop of __kids")] or c2.instances["N8"] < 3:
        raise AnalysisError("memo fixture: cache-coherence rule decided the planted example wrongly: %s" % (bad,))
    ctx.extra["memo_fixture"] = "planted stale-cache example reported, planted coherent write accepted"
