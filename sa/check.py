"""Driver:  python -m sa.check <Cnn> [--tier quick|thorough] [--repo /repo]

exit 0  property held on everything analysed (known findings are printed)
exit 1  a violation not listed in known_findings.json (VIOLATION line)
exit 2  ANALYSIS-ERROR: the checker could not give a verdict
"""

import argparse
import importlib
import os
import sys
import time
import traceback

from .model import AnalysisError, Program
from .report import Ctx, split_known, write_evidence, write_replay


ROBUST_RULES = ("ID", "G5", "M9", "G1f")


def run_rules(prop, repo, tier="quick", seed=0):
    """Analyse ``repo`` for one property; returns (ctx, module)."""
    mod = importlib.import_module("sa.rules.%s" % prop.lower())
    program = Program(repo)
    ctx = Ctx(prop, program, tier=tier, seed=seed)
    from .report import split_known as _sk
    from .rules.common import rule_identity_scope
    try:
        rule_identity_scope(ctx)
        mod.run(ctx)
    except AnalysisError as exc:
        # A rule could not follow the code.  What the structural rules reported before that point was judged against a shape
        # the code no longer has, so it is withdrawn together with the rest (no verdict) - except the findings of the local,
        # shape-independent identity lint (a node compared / hashed / iterated by value is that wherever it stands).
        robust = [f for f in _sk(ctx)[1] if f.rule in ROBUST_RULES]
        if not robust:
            raise
        known = [f for f, _ in _sk(ctx)[0]]
        ctx.findings = known + robust
        ctx.notes.append("the structural rules gave no verdict: %s" % exc)
    if not _sk(ctx)[1]:
        # floors guard against a rule silently losing its subject; when the run
        # already reports a new violation the verdict is that violation
        ctx.check_floors()
    return ctx, mod


def main(argv=None):
    ap = argparse.ArgumentParser()
    ap.add_argument("prop")
    ap.add_argument("--tier", default=os.environ.get("VERIF_TIER", "quick"), choices=["quick", "thorough"])
    ap.add_argument("--repo", default=os.environ.get("VERIF_REPO", "/repo"))
    ap.add_argument("--no-selftest", action="store_true")
    ap.add_argument("--replay", default=None, help="print a replay file and re-run the check")
    args = ap.parse_args(argv)
    prop = args.prop.upper()
    seed = int(os.environ.get("VERIF_SEED", "0") or 0)
    if args.replay:
        with open(args.replay) as fh:
            print(fh.read())
    t0 = time.time()
    ctx = None
    mod = None
    try:
        mod = importlib.import_module("sa.rules.%s" % prop.lower())
        ctx, mod = run_rules(prop, args.repo, args.tier, seed)
        hits, new = split_known(ctx)
        extra = {}
        if args.tier == "thorough" and not new and not args.no_selftest:
            from .selftest import runner
            extra = runner.validate(prop, args.repo, seed)
        from .rules.common import explanation_of
        path = write_evidence(ctx, mod.LEVEL, explanation_of(mod, prop), mod.ASSUMPTIONS, hits, new, extra)
        n_inst = sum(ctx.instances.values())
        print("%s %s: analysed %d modules, %d functions, %d rule instances (%s); %.2fs" % (
            prop, args.tier, len(ctx.p.modules), len(ctx.functions), n_inst,
            ", ".join("%s=%d" % kv for kv in sorted(ctx.instances.items())), time.time() - t0))
        if extra:
            print("%s self-validation: %s" % (prop, extra.get("selfvalidation_summary", "")))
        for f, k in hits:
            print("KNOWN-FINDING: property=%s %s" % (prop, f.text()))
        for i, f in enumerate(new):
            rp = write_replay(ctx, f, i)
            print(f.text())
            print("VIOLATION property=%s replay=%s" % (prop, rp))
        print("evidence: %s" % path)
        return 1 if new else 0
    except AnalysisError as exc:
        print("ANALYSIS-ERROR property=%s %s" % (prop, exc))
        _error_evidence(prop, ctx, mod, args, seed, str(exc))
        return 2
    except Exception as exc:  # a bug in the checker is never a verdict
        traceback.print_exc()
        print("ANALYSIS-ERROR property=%s internal error: %r" % (prop, exc))
        _error_evidence(prop, ctx, mod, args, seed, repr(exc))
        return 2


def _error_evidence(prop, ctx, mod, args, seed, msg):
    try:
        if ctx is None:
            ctx = Ctx(prop, None, tier=args.tier, seed=seed)
        level = getattr(mod, "LEVEL", "other")
        write_evidence(ctx, level, getattr(mod, "EXPLANATION", "analysis error"), getattr(mod, "ASSUMPTIONS", []), [], [],
                       error=msg)
    except Exception:
        pass


if __name__ == "__main__":
    sys.exit(main())
