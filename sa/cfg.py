"""Statement-level control-flow graph with short-circuit test decomposition,
explicit branch-outcome ("guard") nodes, exceptional edges, dominators and a
small forward-dataflow solver.  Built per function from ``ast`` only."""

import ast

from .model import AnalysisError, norm

CATCH_ALL = {"Exception", "BaseException"}


class N:
    __slots__ = ("id", "kind", "ast", "succ", "pred", "cond", "outcome", "extra", "trys")

    def __init__(self, id_, kind, node=None):
        self.id = id_
        self.kind = kind
        self.ast = node
        self.succ = []  # (N, label)
        self.pred = []  # (N, label)
        self.cond = None
        self.outcome = None
        self.extra = None
        self.trys = ()  # ids of enclosing try bodies (innermost last)

    @property
    def lineno(self):
        return getattr(self.ast, "lineno", 0)

    def __repr__(self):
        if self.kind == "guard":
            return "<N%d guard %s=%s>" % (self.id, norm(self.cond), self.outcome)
        return "<N%d %s %s>" % (self.id, self.kind, norm(self.ast)[:50] if self.ast is not None else "")


def _const_truth(expr):
    if isinstance(expr, ast.Constant):
        return bool(expr.value)
    return None


def desugar_ifexp(stmt):
    """``x = A if C else B`` / ``return A if C else B`` / ``yield A if C else B``
    as an If statement (same evaluation order, same effects)."""
    def mk(value_holder, setter):
        v = value_holder
        if not isinstance(v, ast.IfExp):
            return None
        a = setter(v.body)
        b = setter(v.orelse)
        new = ast.If(test=v.test, body=[a], orelse=[b])
        ast.copy_location(new, stmt)
        for s in (a, b):
            ast.copy_location(s, stmt)
        new._desugared = stmt
        return new

    if isinstance(stmt, ast.Assign):
        return mk(stmt.value, lambda val: ast.Assign(targets=stmt.targets, value=val, lineno=stmt.lineno))
    if isinstance(stmt, ast.Return) and stmt.value is not None:
        return mk(stmt.value, lambda val: ast.Return(value=val))
    if isinstance(stmt, ast.Expr) and isinstance(stmt.value, ast.Yield) and stmt.value.value is not None:
        return mk(stmt.value.value, lambda val: ast.Expr(value=ast.Yield(value=val)))
    return None


def default_may_raise(node):
    for n in ast.walk(node):
        if isinstance(n, (ast.Call, ast.Raise, ast.Assert, ast.Subscript, ast.Await, ast.YieldFrom)):
            return True
    return False


class CFG:
    def __init__(self, func_node, body, may_raise=default_may_raise, name=""):
        self.name = name
        self.func_node = func_node
        self.nodes = []
        self.may_raise = may_raise
        self.entry = self._new("entry")
        self.exit = self._new("exit")
        self.raise_exit = self._new("raise")
        self.by_ast = {}  # id(ast stmt/expr) -> [N]
        self._try_counter = 0
        self._loop_stack = []  # (continue_target, break_target, finally_depth)
        self._exc_stack = [self.raise_exit]  # innermost exception target
        self._fin_stack = []  # finalbody lists, innermost last
        self._try_ctx = []
        self.try_info = {}  # try id -> dict(dispatch=N, handlers=[N], node=ast.Try)
        end = self._seq(body, self.entry)
        if end is not None:
            self._edge(end, self.exit, "fall")
        self._dom = None
        self._pdom = None

    # ------------------------------------------------------------ building
    def _new(self, kind, node=None):
        n = N(len(self.nodes), kind, node)
        n.trys = tuple(getattr(self, "_try_ctx", ()))
        self.nodes.append(n)
        if node is not None:
            self.by_ast.setdefault(id(node), []).append(n)
        return n

    def _edge(self, a, b, label="next"):
        a.succ.append((b, label))
        b.pred.append((a, label))

    def _exc(self, n):
        self._edge(n, self._exc_stack[-1], "exc")

    def _seq(self, stmts, cur):
        """Append statements after node ``cur``; returns the last open node or
        None if control cannot fall through."""
        for st in stmts:
            if cur is None:
                # unreachable code: still build it (detached) so rules can see it
                cur = self._new("dead")
            cur = self._stmt(st, cur)
        return cur

    def _cond(self, expr, cur, tnode, fnode):
        """Decompose a test into atomic tests.  ``tnode``/``fnode`` are join
        nodes to connect the true/false outcomes to."""
        if isinstance(expr, ast.BoolOp):
            vals = expr.values
            if isinstance(expr.op, ast.And):
                for v in vals[:-1]:
                    mid = self._new("join")
                    self._cond(v, cur, mid, fnode)
                    cur = mid
                self._cond(vals[-1], cur, tnode, fnode)
            else:
                for v in vals[:-1]:
                    mid = self._new("join")
                    self._cond(v, cur, tnode, mid)
                    cur = mid
                self._cond(vals[-1], cur, tnode, fnode)
            return
        if isinstance(expr, ast.UnaryOp) and isinstance(expr.op, ast.Not):
            self._cond(expr.operand, cur, fnode, tnode)
            return
        t = self._new("test", expr)
        t.cond = expr
        self._edge(cur, t)
        if self.may_raise(expr):
            self._exc(t)
        c = _const_truth(expr)
        if c is not False:
            g = self._new("guard", expr)
            g.cond, g.outcome = expr, True
            self._edge(t, g, "T")
            self._edge(g, tnode)
        if c is not True:
            g = self._new("guard", expr)
            g.cond, g.outcome = expr, False
            self._edge(t, g, "F")
            self._edge(g, fnode)

    def _run_finallies(self, cur, upto):
        """Inline copies of pending finally bodies (innermost first) down to
        stack depth ``upto`` for a return/break/continue."""
        for fb in reversed(self._fin_stack[upto:]):
            saved = self._fin_stack
            self._fin_stack = saved[: saved.index(fb)] if fb in saved else saved
            cur = self._seq(fb, cur)
            self._fin_stack = saved
            if cur is None:
                return None
        return cur

    def _stmt(self, st, cur):
        d = desugar_ifexp(st)
        if d is not None:
            st = d
        if isinstance(st, ast.If):
            tj, fj = self._new("join"), self._new("join")
            self._cond(st.test, cur, tj, fj)
            a = self._seq(st.body, tj)
            b = self._seq(st.orelse, fj)
            if a is None and b is None:
                return None
            j = self._new("join")
            if a is not None:
                self._edge(a, j)
            if b is not None:
                self._edge(b, j)
            return j
        if isinstance(st, ast.While):
            head = self._new("join")
            self._edge(cur, head)
            tj, fj = self._new("join"), self._new("join")
            after = self._new("join")
            self._cond(st.test, head, tj, fj)
            self._loop_stack.append((head, after, len(self._fin_stack)))
            b = self._seq(st.body, tj)
            self._loop_stack.pop()
            if b is not None:
                self._edge(b, head, "back")
            e = self._seq(st.orelse, fj)
            if e is not None:
                self._edge(e, after)
            return after if after.pred else None
        if isinstance(st, (ast.For, ast.AsyncFor)):
            it = self._new("foriter", st)
            self._edge(cur, it)
            if self.may_raise(st.iter):
                self._exc(it)
            head = self._new("fornext", st)
            self._edge(it, head)
            self._exc(head)  # next() of an arbitrary iterator may raise
            body_in = self._new("loopin", st)
            done = self._new("loopdone", st)
            self._edge(head, body_in, "iter")
            self._edge(head, done, "done")
            after = self._new("join")
            self._loop_stack.append((head, after, len(self._fin_stack)))
            b = self._seq(st.body, body_in)
            self._loop_stack.pop()
            if b is not None:
                self._edge(b, head, "back")
            e = self._seq(st.orelse, done)
            if e is not None:
                self._edge(e, after)
            return after if after.pred else None
        if isinstance(st, ast.Try) or (hasattr(ast, "TryStar") and isinstance(st, getattr(ast, "TryStar"))):
            return self._try(st, cur)
        if isinstance(st, (ast.With, ast.AsyncWith)):
            w = self._new("with", st)
            self._edge(cur, w)
            self._exc(w)
            return self._seq(st.body, w)
        if isinstance(st, ast.Return):
            r = self._new("return", st)
            self._edge(cur, r)
            if st.value is not None and self.may_raise(st.value):
                self._exc(r)
            c = self._run_finallies(r, 0)
            if c is not None:
                self._edge(c, self.exit, "return")
            return None
        if isinstance(st, ast.Raise):
            r = self._new("raisestmt", st)
            self._edge(cur, r)
            self._exc(r)
            return None
        if isinstance(st, ast.Break):
            if not self._loop_stack:
                raise AnalysisError("break outside loop")
            _, after, fdepth = self._loop_stack[-1]
            b = self._new("break", st)
            self._edge(cur, b)
            c = self._run_finallies(b, fdepth)
            if c is not None:
                self._edge(c, after, "break")
            return None
        if isinstance(st, ast.Continue):
            if not self._loop_stack:
                raise AnalysisError("continue outside loop")
            head, _, fdepth = self._loop_stack[-1]
            b = self._new("continue", st)
            self._edge(cur, b)
            c = self._run_finallies(b, fdepth)
            if c is not None:
                self._edge(c, head, "back")
            return None
        if isinstance(st, ast.Assert):
            a = self._new("assert", st)
            self._edge(cur, a)
            self._exc(a)
            return a
        if isinstance(st, (ast.FunctionDef, ast.AsyncFunctionDef, ast.ClassDef)):
            s = self._new("def", st)
            self._edge(cur, s)
            return s
        if isinstance(st, (ast.Assign, ast.AugAssign, ast.AnnAssign, ast.Expr, ast.Delete, ast.Pass, ast.Import,
                           ast.ImportFrom, ast.Global, ast.Nonlocal)):
            s = self._new("stmt", st)
            self._edge(cur, s)
            if self.may_raise(st) or isinstance(st, ast.Delete):
                self._exc(s)
            return s
        if hasattr(ast, "Match") and isinstance(st, ast.Match):
            # the subject is evaluated once; each case is an alternative whose pattern is opaque (it may bind names and
            # call __eq__/__match_args__ of user classes: treated as may-raise); no case may match
            subj = self._new("stmt", ast.copy_location(ast.Expr(value=st.subject), st))
            self._edge(cur, subj)
            self._exc(subj)
            after = self._new("join")
            irrefutable = False
            for case in st.cases:
                entry = self._new("join")
                self._edge(subj, entry)
                end = self._seq(case.body, entry)
                if end is not None:
                    self._edge(end, after)
                if case.guard is None and isinstance(case.pattern, ast.MatchAs) and case.pattern.pattern is None:
                    irrefutable = True
            if not irrefutable:
                self._edge(subj, after)
            return after if after.pred else None
        raise AnalysisError("unsupported statement kind %s at line %s" % (type(st).__name__, getattr(st, "lineno", "?")))

    def _try(self, st, cur):
        self._try_counter += 1
        tid = self._try_counter
        after = self._new("join")
        outer_exc = self._exc_stack[-1]
        has_finally = bool(st.finalbody)
        # exceptional continuation after handlers fail / no handler matches
        if has_finally:
            fin_exc_entry = self._new("join")
            # exceptional copy of the finally body, then propagate outward
            saved_ctx = list(self._try_ctx)
            c = self._seq(st.finalbody, fin_exc_entry)
            self._try_ctx = saved_ctx
            if c is not None:
                self._edge(c, outer_exc, "exc")
            propagate = fin_exc_entry
        else:
            propagate = outer_exc
        dispatch = self._new("dispatch", st)
        dispatch.extra = tid
        info = {"dispatch": dispatch, "handlers": [], "node": st, "propagate": propagate}
        self.try_info[tid] = info
        # body
        self._exc_stack.append(dispatch)
        if has_finally:
            self._fin_stack.append(st.finalbody)
        self._try_ctx.append(tid)
        tin = self._new("tryenter", st)
        tin.extra = tid
        self._edge(cur, tin)
        b = self._seq(st.body, tin)
        self._try_ctx.pop()
        self._exc_stack.pop()
        # else-branch runs outside the protection of the handlers
        self._exc_stack.append(propagate)
        if b is not None:
            b = self._seq(st.orelse, b) if st.orelse else b
        self._exc_stack.pop()
        ends = [b] if b is not None else []
        # handlers
        catch_all = False
        self._exc_stack.append(propagate)
        for h in st.handlers:
            hn = self._new("handler", h)
            hn.extra = tid
            info["handlers"].append(hn)
            self._edge(dispatch, hn, "catch")
            names = handler_types(h)
            if names is None or (set(names) & CATCH_ALL):
                catch_all = True
            e = self._seq(h.body, hn)
            if e is not None:
                ends.append(e)
        self._exc_stack.pop()
        if not catch_all:
            self._edge(dispatch, propagate, "exc")
        if has_finally:
            self._fin_stack.pop()
        for e in ends:
            if has_finally:
                e = self._seq(st.finalbody, e)
                if e is None:
                    continue
            self._edge(e, after)
        return after if after.pred else None

    # ------------------------------------------------------------ analyses
    def reachable_nodes(self):
        seen, stack = {self.entry.id}, [self.entry]
        while stack:
            n = stack.pop()
            for s, _ in n.succ:
                if s.id not in seen:
                    seen.add(s.id)
                    stack.append(s)
        return seen

    def dominators(self):
        if self._dom is not None:
            return self._dom
        reach = self.reachable_nodes()
        order = [n for n in self.nodes if n.id in reach]
        allset = set(n.id for n in order)
        dom = {n.id: set(allset) for n in order}
        dom[self.entry.id] = {self.entry.id}
        changed = True
        while changed:
            changed = False
            for n in order:
                if n is self.entry:
                    continue
                preds = [p for p, _ in n.pred if p.id in reach]
                new = set(allset)
                for p in preds:
                    new &= dom[p.id]
                new.add(n.id)
                if new != dom[n.id]:
                    dom[n.id] = new
                    changed = True
        self._dom = dom
        return dom

    def dominates(self, a, b):
        d = self.dominators()
        return b.id in d and a.id in d[b.id]

    def guards_of(self, n):
        """Branch outcomes every path from entry to ``n`` has taken:
        list of (cond expr, outcome, guard node)."""
        d = self.dominators().get(n.id, set())
        out = []
        for i in sorted(d):
            g = self.nodes[i]
            if g.kind == "guard" and g is not n:
                out.append((g.cond, g.outcome, g))
        return out

    def nodes_of(self, astnode):
        return self.by_ast.get(id(astnode), [])

    def stmt_nodes(self, kinds=("stmt", "return", "raisestmt", "assert", "test", "foriter", "fornext", "with")):
        reach = self.reachable_nodes()
        return [n for n in self.nodes if n.kind in kinds and n.id in reach]

    def reach_from(self, a, avoid=(), labels_excluded=()):
        """Nodes reachable from ``a`` (exclusive) without passing ``avoid``."""
        avoid = set(x.id for x in avoid)
        seen, stack = set(), [a]
        while stack:
            n = stack.pop()
            for s, lab in n.succ:
                if lab in labels_excluded or s.id in avoid or s.id in seen:
                    continue
                seen.add(s.id)
                stack.append(s)
        return seen

    def can_reach(self, a, b, avoid=(), labels_excluded=()):
        return b.id in self.reach_from(a, avoid, labels_excluded)

    def between(self, a, b):
        """Nodes on some path from a to b (exclusive of both)."""
        fwd = self.reach_from(a)
        # backward from b
        seen, stack = set(), [b]
        while stack:
            n = stack.pop()
            for p, _ in n.pred:
                if p.id not in seen:
                    seen.add(p.id)
                    stack.append(p)
        return [self.nodes[i] for i in sorted(fwd & seen) if i not in (a.id, b.id)]

    def postdominators(self, include_exc=False):
        key = bool(include_exc)
        if self._pdom is None:
            self._pdom = {}
        if key in self._pdom:
            return self._pdom[key]
        reach = self.reachable_nodes()
        order = [n for n in self.nodes if n.id in reach]
        exits = [self.exit] + ([self.raise_exit] if include_exc else [])
        allset = set(n.id for n in order)
        pd = {n.id: set(allset) for n in order}
        for e in exits:
            pd[e.id] = {e.id}
        changed = True
        while changed:
            changed = False
            for n in reversed(order):
                if n in exits:
                    continue
                succs = [s for s, lab in n.succ if s.id in reach and (include_exc or lab != "exc")]
                if not include_exc:
                    succs = [s for s in succs if s is not self.raise_exit]
                if not succs:
                    new = {n.id}
                else:
                    new = set(allset)
                    for s in succs:
                        new &= pd[s.id]
                    new.add(n.id)
                if new != pd[n.id]:
                    pd[n.id] = new
                    changed = True
        self._pdom[key] = pd
        return pd

    def postdominates(self, a, b, include_exc=False):
        """a post-dominates b (every normal path from b to exit passes a)."""
        pd = self.postdominators(include_exc)
        return b.id in pd and a.id in pd[b.id]

    # -------------------------------------------------------- path listing
    def paths(self, max_visits=2, limit=20000):
        """All entry→exit/raise paths with each node visited at most
        ``max_visits`` times (loops unrolled).  Yields lists of (N, label)."""
        out = []
        count = {}

        def rec(n, acc):
            if len(out) >= limit:
                raise AnalysisError("path explosion in %s" % self.name)
            if n is self.exit or n is self.raise_exit:
                out.append(list(acc))
                return
            for s, lab in n.succ:
                c = count.get(s.id, 0)
                if c >= max_visits:
                    continue
                count[s.id] = c + 1
                acc.append((s, lab))
                rec(s, acc)
                acc.pop()
                count[s.id] = c
        rec(self.entry, [(self.entry, "")])
        return out


def handler_types(h):
    """Names caught by an except handler (None = bare except)."""
    if h.type is None:
        return None
    t = h.type
    elts = t.elts if isinstance(t, ast.Tuple) else [t]
    out = []
    for e in elts:
        if isinstance(e, ast.Name):
            out.append(e.id)
        elif isinstance(e, ast.Attribute):
            out.append(e.attr)
        else:
            out.append(norm(e))
    return out


# ---------------------------------------------------------------- dataflow
def forward_dataflow(cfg, init, transfer, refine, join, equal=lambda a, b: a == b, max_iter=200):
    """Generic forward analysis.  ``transfer(node, state) -> state`` (normal
    out-state), ``refine(guard_node, state) -> state`` is folded into transfer
    by the caller if wanted.  States must be immutable or copied by transfer.
    Returns {node id: in-state}."""
    reach = cfg.reachable_nodes()
    instate = {cfg.entry.id: init}
    work = [cfg.entry]
    iters = 0
    while work:
        iters += 1
        if iters > max_iter * max(1, len(cfg.nodes)):
            raise AnalysisError("dataflow did not converge in %s" % cfg.name)
        n = work.pop(0)
        st_in = instate[n.id]
        out_norm = transfer(n, st_in)
        for s, lab in n.succ:
            if s.id not in reach:
                continue
            st = st_in if lab == "exc" else out_norm
            if s.kind == "guard" and refine is not None and lab != "exc":
                pass
            if s.id in instate:
                new = join(instate[s.id], st)
                if equal(new, instate[s.id]):
                    continue
                instate[s.id] = new
            else:
                instate[s.id] = st
            if s not in work:
                work.append(s)
    return instate
