"""C07 — Resolver.get fails cleanly: relax discipline and error classes."""

from ..model import AnalysisError
from . import resolver_rules as R
from .common import resolution_stats, typer_for

PROP = "C07"
LEVEL = "other"
TECHNIQUE = "static analysis: configuration-split nullable dataflow on the CFG + control-dependence of raise sites"
EXPLANATION = (
    "Decides the 'fails cleanly / relax never raises' half of the property for Resolver.get and everything it reaches: R1 "
    "every raise of ResolverError/RootResolverError/ChildResolverError is control-dependent on self.relax being false and "
    "relax is assigned only in __init__; R2 a flow-sensitive nullable analysis, run once per setting of self.relax (branches "
    "on the flag pruned), shows that the None sentinel returned by relaxed helpers never reaches an attribute dereference "
    "or a callee that dereferences its parameter unguarded (inter-procedural parameter summaries, fixpoint), and that no "
    "resolver raise is reachable under relax=True; R3 '..' above the root raises RootResolverError, a missing child "
    "ChildResolverError, root-component errors plain ResolverError, and get/glob agree; R4 every callee on the path is "
    "resolved and in a reasoned harmless set, indexed reads are dominated by non-emptiness guards; R9 in the walk loop the "
    "step to the parent is taken exactly for '..', the child lookup exactly for components other than '..', '' and '.', "
    "nothing else replaces the current node, and every path of such a component performs its step before the next "
    "component is taken. R5 relaxed dead ends return the None/empty sentinel; R6 node names reach every comparison str-typed; "
    "R7/R8 the path is split exactly once on the node's own separator and get/glob walk that component list unmodified; "
    "R10 error-message templates are constants filled only with %-arguments (no runtime value in template position); "
    "R11 the path attribute value is never tested for truth; R12 the root component is compared through the comparator "
    "handed in by get (equality) resp. glob (pattern match). Not decided: which child a name selects (string computation on runtime names)."
)
ASSUMPTIONS = [
    "self.relax is constant during a call (checked: assigned only in __init__)",
    "str(), getattr(x, n, None) and string methods on names do not raise",
]


def run(ctx):
    typer = typer_for(ctx)
    funcs = R.reachable_from(ctx.p, typer, ["get"])
    for f in funcs:
        ctx.touch(f)
    R.rule_R1(ctx, typer, funcs)
    R.rule_R2(ctx, funcs)
    R.rule_R3(ctx, typer)
    R.rule_R4(ctx, typer, funcs)
    R.rule_R6_string_compare(ctx, typer, funcs)
    R.rule_R7_parts_unmodified(ctx, typer)
    R.rule_R8_split_unfiltered(ctx, typer)
    R.rule_R9_component_dispatch(ctx, typer, "get")
    R.rule_R11_attr_value_truth(ctx, typer)
    R.rule_R12_start_comparator(ctx, typer)
    from .common import rule_format_templates
    rule_format_templates(ctx, typer, [f for f in ctx.p.all_funcs if f.module.relpath == R.RES], "R10")
    ctx.floor("R9", 4)
    R.rule_G2_all_caches(ctx, typer)
    ctx.floor("R6", 2)
    ctx.floor("R1", 2)
    ctx.floor("R2", 5)
    ctx.floor("R3", 3)
    ctx.floor("R4", 10)
    ctx.extra["functions_reachable_from_get"] = [f.qual for f in funcs]
    ctx.extra.update(resolution_stats(typer))
    if ctx.extra.get("undecided") and not ctx.new_findings():
        raise AnalysisError("; ".join(ctx.extra["undecided"][:2]))
