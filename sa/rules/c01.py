"""C01 — parent/children links always describe one consistent forest."""

from .. import linkrules
from .common import typer_for
from .mixins import analyses, record_stats, report

PROP = "C01"
LEVEL = "other"
EXPLANATION = (
    "Decides the structural reasons the link invariant is inductive, for NodeMixin and LightNodeMixin: W1 link fields are "
    "written only in __detach/__attach/__children_or_empty of the owning mixin (package-wide who-may-write scan incl. "
    "aliases, setattr/__dict__ strings); W2 on every abstract trace of the three structural entry points link writes occur "
    "only as adjacent (children list, parent field) pairs with no may-raise event between them; W3/W4 the pair has matching "
    "roles (detach rebuilds the stored parent's list without the node by identity and clears the field; attach appends the "
    "node to the new parent's list and stores that parent; never two parents); W5 an identity test against the new parent "
    "and an identity scan of its ancestor chain precede the first write; W6 no public member returns the mutable list; W7 "
    "children assignment/deletion write links only through parent assignments; W9 a value cached from the links (a private memo field filled in a navigation getter) is dropped directly next to every write of those links, with nothing that can run user code or raise in between; W8 every assert is guarded by "
    "config.ASSERTIONS and has a pure test. Exhaustive over the abstract traces (hooks may raise wherever called, loops "
    "unrolled 0..2). Not decided: the induction over all histories itself, and that no assertion can fire."
    " Added in rounds 16-18: W10 the result of a generator method kept in a local is consumed once (not inside a loop, not twice); a NEW public method (absent at the pinned commit, unused by the package) that writes a link field directly gets no verdict."
)
ASSUMPTIONS = [
    "hooks and unknown callees may raise at their call site and nowhere else; user code does not write name-mangled link fields",
    "at entry the forest satisfies the invariant (inductive hypothesis): an element of n.children has parent n",
    "loops unrolled at most twice; the pair/ordering rules are monotone in trace prefixes",
]


def run(ctx):
    typer = typer_for(ctx)
    linkrules.rule_W1(ctx)
    # a value cached from the links (memo field) is dropped together with every change of those links: otherwise the public
    # `children` view disagrees with the stored links right after a mutation
    from ..memo import rule_coherence
    rule_coherence(ctx, "W9")
    linkrules.rule_W10_one_shot(ctx)
    linkrules.rule_W6(ctx)
    linkrules.rule_W8(ctx, typer)
    ctx.floor("W1", 10)
    ctx.floor("W6", 30)
    ctx.floor("W8", 6)
    mas = analyses(ctx)
    res = []
    for m, ma in mas.items():
        n, probs = ma.pair_problems(("W2", "W3", "W4", "E4"))
        res.append(("W2-W4 link-change pairs", n, probs))
        n, probs = ma.loopcheck_problems()
        res.append(("W5 attaches preceded by loop check", n, probs))
        n, probs = ma.writes_only_via_parent_setter()
        res.append(("W7 writes inside parent assignment", n, probs))
    report(ctx, res)
    record_stats(ctx, mas)
    if ctx.extra.get("undecided") and not ctx.new_findings():
        from ..model import AnalysisError
        raise AnalysisError("C01 " + "; ".join(ctx.extra["undecided"][:2]))
    ctx.floor("W2-W4 link-change pairs", 1000)
    ctx.floor("W5 attaches preceded by loop check", 500)
