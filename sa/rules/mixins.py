"""Shared driver code for the trace-based mixin rules (C01, C02, C03, C16)."""

from .. import tables as T
from ..mixin_analysis import MixinAnalysis, trace_text

_cache = {}


def unroll_for(ctx):
    """quick: every loop 0..2 iterations; thorough: 0..3"""
    return 3 if ctx.tier == "thorough" else 2


def analyses(ctx):
    key = (id(ctx.p), unroll_for(ctx))
    if key not in _cache:
        _cache[key] = {m: MixinAnalysis(ctx.p, m, unroll_for(ctx)) for m in T.MIXINS}
    return _cache[key]


def report(ctx, rule_results, floors=None):
    """rule_results: list of (label, n_instances, problems)."""
    for lab, n, probs in rule_results:
        ctx.instances[lab] += n
        for pr, entry, trace in probs:
            ev = pr.event
            ctx.viol(pr.rule, ev.func, ev.node, pr.why + " [entry point %s]" % entry, construct=pr.construct,
                     trace=trace_text(trace))


def record_stats(ctx, mas):
    st = {}
    total = 0
    for m, ma in mas.items():
        st[m] = ma.stats
        total += ma.n_traces()
        for name, (func, rows) in ma.analysed.items():
            ctx.touch(func)
            for trace, outcome, steps, probs in rows[:2]:
                ctx.samples.append("trace %s.%s → %s: %s" % (m, name, outcome[0], " ; ".join(trace_text(trace)[:14])))
    ctx.extra["abstract_traces"] = total
    ctx.extra["trace_statistics"] = st
    ctx.extra["loop_unrolling"] = "0..%d iterations per loop" % unroll_for(ctx)
    ctx.instances["abstract_traces"] = total
    ctx.floor("abstract_traces", 2000)
    for m in T.MIXINS:
        cls = ctx.p.cls(m)
        for f in cls.funcs():
            if f.srcname in ("__detach", "__attach", "__check_loop", "__check_children", "__children_or_empty", "parent",
                             "children"):
                ctx.touch(f)
