"""Depth arithmetic of a recursive export/walk, decided symbolically (no values are run).

A recursive function carries one "depth" parameter q and compares it with the user's limit M (maxlevel, None =
unlimited).  Implementations differ in how they count: upwards (`level=1`, `level + 1`, `maxlevel is None or level <
maxlevel`) or downwards (`depth = None if maxlevel is None else maxlevel - 1`, `depth is None or depth > 0`, `None if
depth is None else depth - 1`).  Both are the same decision: the children of a node on level l (start node = 1) are
visited iff M is None or l < M.  This module evaluates start value, step and guard to linear forms over (M, l) and
compares the resulting decision with that specification:

    start value   q(1)   = a*M + c          (or None exactly when M is None)
    step          q(l+1) = q(l) + d         (d a constant; None stays None)
    guard         <none test> or  q  op  E  (E linear in M)

gives  alpha*l + beta*M + gamma  op  0, which must be equivalent to  l - M < 0  for all integers.  A guard that is
equivalent to l < M + k for k != 0, an equality test on the counter, or a comparison reached with None is reported;
anything that does not fit the linear model is not followed (no verdict)."""

import ast

from ..model import norm
from .common import none_test, walk_own


class Undecided(Exception):
    pass


NONE = "none"


class Lin(dict):
    """linear form: {"M": a, "Q": b, "1": c} (absent = 0)"""

    def __add__(self, o):
        r = Lin(self)
        for k, v in o.items():
            r[k] = r.get(k, 0) + v
        return r

    def scale(self, s):
        return Lin({k: v * s for k, v in self.items()})

    def coef(self, k):
        return self.get(k, 0)

    def __repr__(self):
        return " + ".join("%s*%s" % (v, k) for k, v in sorted(self.items()) if v) or "0"


def const(c):
    return Lin({"1": c})


def reaching_defs(cfgnode, name, limit=800):
    found, seen = [], set()
    stack = [p for p, lab in cfgnode.pred if lab != "exc"]
    steps = 0
    while stack:
        n = stack.pop()
        if n.id in seen:
            continue
        seen.add(n.id)
        steps += 1
        if steps > limit:
            return None
        a = n.ast
        if n.kind == "stmt" and isinstance(a, ast.Assign) and all(isinstance(t, ast.Name) for t in a.targets) \
                and any(t.id == name for t in a.targets):
            found.append(n)
            continue
        if n.kind in ("stmt", "fornext", "with") and a is not None and not isinstance(a, (ast.If, ast.While, ast.Try)):
            tgt = a.target if isinstance(a, ast.For) else a
            if any(isinstance(x, ast.Name) and x.id == name and isinstance(x.ctx, ast.Store) for x in ast.walk(tgt)):
                return None
        preds = [p for p, lab in n.pred if lab != "exc"]
        if not preds:
            return None
        stack.extend(preds)
    return found


class DepthEval:
    def __init__(self, cfg, func, m_texts, q=None):
        self.cfg, self.f = cfg, func
        self.m_texts = set(m_texts)
        self.q = q

    def sym_of_text(self, txt, at):
        """'M' / 'Q' if the expression text denotes the limit / the depth parameter (also through plain aliases)"""
        if txt in self.m_texts:
            return "M"
        if self.q is not None and txt == self.q:
            stores = [n for n in walk_own(self.f.node) if isinstance(n, ast.Name) and n.id == txt and isinstance(n.ctx, ast.Store)]
            if not stores:
                return "Q"
        return None

    def guard_conds(self, node):
        out = set()
        for c, o, _ in self.cfg.guards_of(node):
            out |= self._conds_of(c, o, node)
        return out

    def _conds_of(self, c, o, at):
        """none-facts a guard outcome establishes: {(sym, is_none)}"""
        if isinstance(c, ast.UnaryOp) and isinstance(c.op, ast.Not):
            return self._conds_of(c.operand, not o, at)
        nt = none_test(c)
        if nt is not None:
            sym = self._sym_expr(c.left if not (isinstance(c.left, ast.Constant) and c.left.value is None) else c.comparators[0], at)
            if sym is not None:
                return {(sym, nt[1] == o)}
            return set()
        if isinstance(c, ast.BoolOp):
            # (A or B) false => both false ; (A and B) true => both true
            if (isinstance(c.op, ast.Or) and o is False) or (isinstance(c.op, ast.And) and o is True):
                out = set()
                for v in c.values:
                    out |= self._conds_of(v, o, at)
                return out
        return set()

    def _sym_expr(self, e, at):
        s = self.sym_of_text(norm(e), at)
        if s is not None:
            return s
        if isinstance(e, ast.Name):
            try:
                alts = self.ev(e, at)
            except Undecided:
                return None
            syms = set()
            for v, cs in alts:
                if v == NONE:
                    syms |= {x for x, isn in cs if isn}
                elif isinstance(v, Lin) and set(k for k, x in v.items() if x) == {"M"} and v.coef("M") == 1:
                    syms.add("M")
                elif isinstance(v, Lin) and set(k for k, x in v.items() if x) == {"Q"} and v.coef("Q") == 1:
                    syms.add("Q")
                else:
                    return None
            if len(syms) == 1:
                return next(iter(syms))
        return None

    @staticmethod
    def feasible(cs):
        return not any((s, True) in cs and (s, False) in cs for s, _ in cs)

    def ev(self, e, at, known=None, depth=0):
        """-> [(Lin | NONE, frozenset of none-facts the alternative assumes)]"""
        if depth > 25:
            raise Undecided("expression too deep: %s" % norm(e))
        known = set(known or ()) | self.guard_conds(at)
        out = []
        for v, cs in self._ev(e, at, depth):
            cs2 = set(cs) | known
            if self.feasible(cs2):
                out.append((v, frozenset(cs)))
        if not out:
            raise Undecided("no feasible value for `%s`" % norm(e))
        return out

    def _ev(self, e, at, depth):
        txt = norm(e)
        sym = self.sym_of_text(txt, at)
        if sym is not None:
            return [(Lin({sym: 1}), frozenset([(sym, False)])), (NONE, frozenset([(sym, True)]))]
        if isinstance(e, ast.Constant):
            if e.value is None:
                return [(NONE, frozenset())]
            if isinstance(e.value, int) and not isinstance(e.value, bool):
                return [(const(e.value), frozenset())]
            raise Undecided("constant %r" % (e.value,))
        if isinstance(e, ast.Name):
            defs = reaching_defs(at, e.id)
            if not defs:
                raise Undecided("cannot find the definition of `%s`" % e.id)
            out = []
            for d in defs:
                for v, cs in self.ev(d.ast.value, d, depth=depth + 1):
                    out.append((v, frozenset(cs | self.guard_conds(d))))
            return out
        if isinstance(e, ast.UnaryOp) and isinstance(e.op, ast.USub):
            return [(v.scale(-1) if v != NONE else self._none_arith(e), cs) for v, cs in self.ev(e.operand, at, depth=depth + 1)]
        if isinstance(e, ast.BinOp) and isinstance(e.op, (ast.Add, ast.Sub)):
            out = []
            for lv, lc in self.ev(e.left, at, depth=depth + 1):
                for rv, rc in self.ev(e.right, at, depth=depth + 1):
                    cs = frozenset(lc | rc)
                    if not self.feasible(cs | self.guard_conds(at)):
                        continue
                    if lv == NONE or rv == NONE:
                        out.append(("error", cs))
                    else:
                        out.append((lv + (rv if isinstance(e.op, ast.Add) else rv.scale(-1)), cs))
            return out
        if isinstance(e, ast.IfExp):
            out = []
            ct, cf = self._conds_of(e.test, True, at), self._conds_of(e.test, False, at)
            if not ct and not cf:
                raise Undecided("condition `%s`" % norm(e.test))
            for v, cs in self.ev(e.body, at, known=ct, depth=depth + 1):
                out.append((v, frozenset(cs | ct)))
            for v, cs in self.ev(e.orelse, at, known=cf, depth=depth + 1):
                out.append((v, frozenset(cs | cf)))
            return out
        raise Undecided("expression `%s`" % txt)

    def _none_arith(self, e):
        return "error"


_FLIP = {ast.Is: ast.IsNot, ast.IsNot: ast.Is, ast.Lt: ast.GtE, ast.GtE: ast.Lt, ast.Gt: ast.LtE, ast.LtE: ast.Gt, ast.Eq: ast.NotEq,
         ast.NotEq: ast.Eq}


def negate(e):
    """`not e` with the negation pushed inwards (order comparisons are flipped: the operands are integers here)"""
    if isinstance(e, ast.UnaryOp) and isinstance(e.op, ast.Not):
        return e.operand
    if isinstance(e, ast.BoolOp):
        return ast.copy_location(ast.BoolOp(op=ast.Or() if isinstance(e.op, ast.And) else ast.And(), values=[negate(v) for v in e.values]), e)
    if isinstance(e, ast.Compare) and len(e.ops) == 1 and type(e.ops[0]) in _FLIP:
        return ast.copy_location(ast.Compare(left=e.left, ops=[_FLIP[type(e.ops[0])]()], comparators=e.comparators), e)
    return ast.copy_location(ast.UnaryOp(op=ast.Not(), operand=e), e)


def conjuncts(e):
    if isinstance(e, ast.BoolOp) and isinstance(e.op, ast.And):
        out = []
        for v in e.values:
            out.extend(conjuncts(v))
        return out
    return [e]


def path_dnf(cfg, node, limit=400):
    """the condition under which `node` is reached, as a disjunction (one entry per simple entry->node path, exception
    edges excluded) of conjunctions of positive atomic conditions [(expr, guard node)]"""
    paths = []
    count = [0]

    def back(n, seen, acc):
        count[0] += 1
        if count[0] > 20000 or len(paths) > limit:
            raise Undecided("too many paths to the recursion")
        if n is cfg.entry:
            paths.append(tuple(reversed(acc)))
            return
        preds = [p for p, lab in n.pred if lab != "exc"]
        for p in preds:
            if p.id in seen:
                continue
            acc2 = acc
            if p.kind == "guard":
                pos = p.cond if p.outcome is True else negate(p.cond)
                acc2 = acc + [(pos, p)]
            back(p, seen | {p.id}, acc2)
    back(node, {node.id}, [])
    uniq, seen_keys = [], set()
    for pth in paths:
        key = tuple(norm(t) for t, _ in pth)
        if key not in seen_keys:
            seen_keys.add(key)
            uniq.append(list(pth))
    if not uniq:
        raise Undecided("the recursion is unreachable")
    return uniq


def tests_from_guards(cfg, node):
    """[(positive condition, guard node)] that hold whenever `node` is reached"""
    out = []
    for c, o, g in cfg.guards_of(node):
        pos = c if o is True else negate(c)
        for t in conjuncts(pos):
            out.append((t, g))
    return out


def world(alts, sym_none):
    """the alternatives compatible with the facts in sym_none: {sym: is_none}"""
    out = []
    for v, cs in alts:
        if all(sym_none.get(s, isn) == isn for s, isn in cs):
            out.append(v)
    return out


def decide(ctx, rule, func, where, start_alts, step_alts, tests, ev_ex, construct_prefix):
    """start_alts: value of q at the start node (level 1), in terms of M.  step_alts: value passed for q in the recursion, in
    terms of Q (and M).  tests: [(expr, at-node)] - conditions that must all hold for the recursion to be reached.
    Reports through ctx; raises Undecided when the model does not fit."""
    # ---- shape of q in the two worlds
    res = {}
    for m_none in (True, False):
        sv = world(start_alts, {"M": m_none})
        if len(sv) != 1:
            raise Undecided("start value of the depth parameter (%d alternatives when the limit is %s)" % (len(sv), "None" if m_none else "a number"))
        s0 = sv[0]
        if s0 == "error":
            raise Undecided("arithmetic on None in the start value")
        q_none = s0 == NONE
        if not q_none and (s0.coef("Q") or (m_none and s0.coef("M"))):
            raise Undecided("start value %r" % (s0,))
        st = world(step_alts, {"M": m_none, "Q": q_none})
        if len(st) != 1:
            raise Undecided("value passed on in the recursion (%d alternatives)" % len(st))
        s1 = st[0]
        if s1 == "error":
            ctx.viol(rule, func, where, "the recursion does arithmetic on the depth value although it is None when %s" % (
                "no limit is set" if m_none else "a limit is set"), construct="%s: arithmetic on None" % construct_prefix)
            return False
        if q_none:
            if s1 != NONE:
                raise Undecided("a None depth does not stay None in the recursion")
            res[m_none] = (NONE, 0)
            continue
        if s1 == NONE:
            raise Undecided("the depth becomes None in the recursion")
        if s1.coef("Q") == 0:
            ctx.viol(rule, func, where, "the depth handed to the children (%r) does not depend on the depth of the node itself: every "
                     "level below the first counts as the same level" % (s1,), construct="%s: constant depth in the recursion" % construct_prefix)
            return False
        if s1.coef("Q") != 1 or s1.coef("M") != 0 or s1.coef("1") not in (1, -1):
            if s1.coef("Q") == 1 and s1.coef("M") == 0 and s1.coef("1") == 0:
                ctx.viol(rule, func, where, "the depth value is passed to the children unchanged: every level counts as the same level, the "
                         "limit never (or always) applies", construct="%s: depth not stepped" % construct_prefix)
                return False
            raise Undecided("step %r of the depth parameter" % (s1,))
        res[m_none] = (s0, s1.coef("1"))
    # ---- the guard in each world: `tests` is a DNF (list of paths, each a list of (atomic condition, node))
    ok = True
    for m_none in (True, False):
        s0, d = res[m_none]
        q_none = s0 == NONE
        facts = {"M": m_none, "Q": q_none}
        alive = []  # per feasible path: list of ("cmp", Compare, Lin)
        for pth in tests:
            cons = []
            dead = False
            for a, at in pth:
                neg = False
                while isinstance(a, ast.UnaryOp) and isinstance(a.op, ast.Not):
                    a, neg = a.operand, not neg
                nt = none_test(a)
                if nt is not None:
                    operand = a.comparators[0] if (isinstance(a.left, ast.Constant) and a.left.value is None) else a.left
                    vals = world(ev_ex.ev(operand, at), facts)
                    if len(vals) != 1:
                        raise Undecided("operand of `%s`" % norm(a))
                    truth = (vals[0] == NONE) == nt[1]
                    if neg:
                        truth = not truth
                    if not truth:
                        dead = True
                        break
                    continue
                if isinstance(a, ast.Compare) and len(a.ops) == 1 and neg and type(a.ops[0]) in _FLIP:
                    a, neg = negate(a), False
                if isinstance(a, ast.Compare) and len(a.ops) == 1 and not neg:
                    lv = world(ev_ex.ev(a.left, at), facts)
                    rv = world(ev_ex.ev(a.comparators[0], at), facts)
                    if len(lv) != 1 or len(rv) != 1:
                        raise Undecided("operands of `%s`" % norm(a))
                    if isinstance(a.ops[0], (ast.Eq, ast.NotEq)) and "error" not in (lv[0], rv[0]) and (lv[0] == NONE) != (rv[0] == NONE):
                        if isinstance(a.ops[0], ast.NotEq):
                            continue  # None != number
                        dead = True
                        break
                    if lv[0] in (NONE, "error") or rv[0] in (NONE, "error"):
                        ctx.viol(rule, func, a, "`%s` is evaluated with None when %s: the comparison raises (or is meaningless)" % (
                            norm(a), "no limit is set" if m_none else "a limit is set"), construct="%s: compares None" % construct_prefix)
                        return False
                    cons.append(("cmp", a, lv[0] + rv[0].scale(-1)))
                    continue
                raise Undecided("condition `%s`" % norm(a))
            if not dead:
                alive.append(cons)
        if m_none:
            if not alive:
                ctx.viol(rule, func, where, "without a limit (None) the children are never visited", construct="%s: unlimited case never descends" % construct_prefix)
                ok = False
            elif not any(not cons for cons in alive):
                c = alive[0][0]
                ctx.viol(rule, func, c[1], "without a limit (None) the children must always be visited, but the recursion still depends on "
                         "`%s`" % norm(c[1]), construct="%s: unlimited case restricted" % construct_prefix)
                ok = False
            continue
        if not alive:
            ctx.viol(rule, func, where, "with a limit set the children are never visited", construct="%s: limited case never descends" % construct_prefix)
            return False
        if any(not cons for cons in alive):
            ctx.viol(rule, func, where, "with a limit set the recursion is reached on a path that does not test the depth: the limit has no effect",
                     construct="%s: no depth guard" % construct_prefix)
            return False
        keys = {tuple(norm(c[1]) for c in cons) for cons in alive}
        if len(keys) != 1 or len(alive[0]) != 1:
            raise Undecided("several depth conditions: %s" % sorted(keys))
        _, cmp_, diff = alive[0][0]
        # substitute Q = s0 + d*(l-1)
        alpha = diff.coef("Q") * d
        beta = diff.coef("M") + diff.coef("Q") * s0.coef("M")
        gamma = diff.coef("1") + diff.coef("Q") * (s0.coef("1") - d)
        op = type(cmp_.ops[0])
        if op in (ast.Eq, ast.NotEq, ast.Is, ast.IsNot):
            ctx.viol(rule, func, cmp_, "the depth is tested with `%s`: a counter can start beyond the value tested for (limit 0 or "
                     "negative) and then never meets it, so the cut is never made" % norm(cmp_), construct="%s: equality test on the depth" % construct_prefix)
            return False
        if op in (ast.Gt, ast.GtE):
            alpha, beta, gamma = -alpha, -beta, -gamma
            op = ast.Lt if op is ast.Gt else ast.LtE
        if op is ast.LtE:
            gamma -= 1  # x <= 0  <=>  x - 1 < 0 over the integers
            op = ast.Lt
        if op is not ast.Lt:
            raise Undecided("comparison `%s`" % norm(cmp_))
        # alpha*l + beta*M + gamma < 0  must be  l - M < 0
        if alpha == 1 and beta == -1:
            if gamma == 0:
                ctx.inst(rule, func, cmp_, "children visited iff no limit or level < limit (start value %r, step %+d)" % (s0, d))
            else:
                ctx.viol(rule, func, cmp_, "with `%s` the children of a node on level l are visited iff l < maxlevel%+d: nodes are cut %d "
                         "level(s) %s" % (norm(cmp_), -gamma, abs(gamma), "late" if gamma < 0 else "early"),
                         construct="%s: depth guard off by %+d" % (construct_prefix, -gamma))
                ok = False
        elif alpha == -1 and beta == 1:
            ctx.viol(rule, func, cmp_, "`%s` is the opposite decision: children are visited beyond the limit and cut within it" % norm(cmp_),
                     construct="%s: depth guard inverted" % construct_prefix)
            ok = False
        else:
            raise Undecided("guard `%s` is not a comparison of level and limit (%s*l %+d*M %+d < 0)" % (norm(cmp_), alpha, beta, gamma))
    return ok
