"""C08 — Resolver.glob: sanitised anchored patterns, transparent cache, relax discipline."""

from ..model import AnalysisError
from ..lint_identity import lint_program
from . import resolver_rules as R
from .common import typer_for

PROP = "C08"
LEVEL = "other"
TECHNIQUE = "static analysis: taint rule to the regex sink (re._parser on literals), def-use cache-key completeness, nullable dataflow"
EXPLANATION = (
    "Decides the structural clauses of glob: G1 taint rule — every fragment that reaches re.compile is either "
    "re.escape(<pattern character>) or the literal translation of the wildcard its branch tests for (parsed with re._parser: "
    "'*' → any run, '?' → one char), the result is wrapped by a flags-only prefix and an end-of-string anchor and applied "
    "with .match; G2 the cache key mentions every input the cached value is data/control dependent on (pattern, "
    "ignorecase) and lookups use the same key; G3 the shared cache is mutated only in __match, clear() is size-guarded "
    "and precedes the store, the result comes from the local; G4 relax discipline R1/R2/R4 for everything reachable from "
    "glob, handlers catch only resolver errors; G5 '**' de-duplicates by identity (C17 lint on resolver.py); G6 every child is matched against the pattern and every "
    "matching child is recorded or descended into (must-pass-through on the CFG); G7 results of the '**' fan-out are added only "
    "after an identity duplicate test; G1f DOTALL is in effect for the compiled pattern on every path, as inline "
    "flag of the translation or in every value the flags argument can take (flag-set dataflow); R5-R12 as for C07. Not decided: "
    "the match set / pre-order of results for concrete trees."
)
ASSUMPTIONS = [
    "re.escape is a correct sanitiser; re._parser gives the meaning of literal fragments",
    "self.relax / self.ignorecase constant during a call (assigned only in __init__)",
]


def run(ctx):
    typer = typer_for(ctx)
    hits, stats = lint_program(ctx.p, typer, files={R.RES})
    ctx.instances["G5"] = stats["typed_node"] + stats["typed_node_seq"]
    for h in hits:
        ctx.viol("G5", h.func, h.node, "identity-only rule %s in the resolver: %s" % (h.rule, h.why))
    funcs = R.reachable_from(ctx.p, typer, ["glob"])
    for f in funcs:
        ctx.touch(f)
    R.rule_G1b_dotall(ctx, typer)  # flags first: a dataflow fact of its own, independent of how the translation is written
    R.rule_G1(ctx, typer)
    R.rule_G2_G3(ctx, typer)
    R.rule_R1(ctx, typer, funcs)
    R.rule_R2(ctx, funcs)
    R.rule_R4(ctx, typer, funcs)
    R.rule_R6_string_compare(ctx, typer, funcs)
    R.rule_R7_parts_unmodified(ctx, typer)
    R.rule_R8_split_unfiltered(ctx, typer)
    R.rule_R9_component_dispatch(ctx, typer, "glob")
    R.rule_R11_attr_value_truth(ctx, typer)
    R.rule_R12_start_comparator(ctx, typer)
    R.rule_R9_glob_dead_end(ctx, typer)
    from .common import rule_format_templates
    rule_format_templates(ctx, typer, [f for f in ctx.p.all_funcs if f.module.relpath == R.RES], "R10")
    ctx.floor("R9", 4)
    R.rule_G2_all_caches(ctx, typer)
    ctx.floor("R6", 2)
    R.rule_G4_handlers(ctx, funcs)
    R.rule_G6_no_extra_pruning(ctx, typer)
    R.rule_G7_fanout_dedup(ctx, typer)
    ctx.floor("G7", 1)
    ctx.floor("G6", 1)
    ctx.floor("G1", 5)
    ctx.floor("G2", 2)
    ctx.floor("G3", 2)
    ctx.floor("G4", 3)
    ctx.floor("G5", 40)
    ctx.floor("R1", 2)
    ctx.floor("R2", 8)
    ctx.extra["functions_reachable_from_glob"] = [f.qual for f in funcs]
    if ctx.extra.get("undecided") and not ctx.new_findings():
        raise AnalysisError("; ".join(ctx.extra["undecided"][:2]))
