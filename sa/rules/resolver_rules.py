"""Rules about anytree/resolver.py shared by C07 (R1-R4) and C08 (G1-G5)."""

import ast
import re

from .. import tables as T
from ..model import AnalysisError, Func, norm
from ..nodetype import NODE, NONE, OPT_NODE, Typer, has_node, show
from .common import typer_for, walk_own

RES = "anytree/resolver.py"
ERR_CLASSES = ("ResolverError", "RootResolverError", "ChildResolverError")
RELAX = "self.relax"


def resolver_funcs(p):
    cls = p.cls("Resolver")
    return cls, {f.srcname: f for f in cls.funcs()}


def reachable_from(p, typer, start_names):
    """Resolver methods and module functions reachable from the named methods."""
    cls, funcs = resolver_funcs(p)
    seen, work = [], [funcs[n] for n in start_names if n in funcs]
    for n in start_names:
        if n not in funcs:
            raise AnalysisError("anchor Resolver.%s not found" % n)
    while work:
        f = work.pop()
        if f in seen:
            continue
        seen.append(f)
        ft = typer.results.get(f)
        if ft is None:
            continue
        for res in ft.calls.values():
            if res.kind == "func":
                ts = res.target if isinstance(res.target, list) else [res.target]
                for t in ts:
                    if isinstance(t, Func) and t.module.relpath == RES and t not in seen:
                        work.append(t)
            elif res.kind == "ctor" and res.target.module.relpath == RES:
                init = res.target.lookup("__init__")
                if isinstance(init, Func) and init not in seen:
                    work.append(init)
    return seen


def _raise_class(r):
    if r.exc is None:
        return None
    e = r.exc.func if isinstance(r.exc, ast.Call) else r.exc
    return norm(e).split(".")[-1]


# ---------------------------------------------------------------------- R1
def rule_R1(ctx, typer, funcs):
    """every raise of a ResolverError class is control-dependent on relax being false"""
    n = 0
    for f in funcs:
        if f.cls is None or f.cls.name != "Resolver":
            continue
        cfg = typer.cfg_of(f)
        handler_names = {h.name for h in ast.walk(f.node) if isinstance(h, ast.ExceptHandler) and h.name}
        for node in cfg.stmt_nodes(("raisestmt",)):
            cls = _raise_class(node.ast)
            if cls is None or cls in handler_names:
                ctx.inst("R1-propagate", f, node.ast, "re-raise of a caught resolver error (raised below, guarded there)")
                continue
            if cls not in ERR_CLASSES:
                continue
            n += 1
            gs = cfg.guards_of(node)
            if any(norm(c) == RELAX and outcome is False for c, outcome, _ in gs):
                ctx.inst("R1", f, node.ast, "raise is reached only when self.relax is false")
                continue
            # not syntactically guarded: accept if the relax=True dataflow proves the raise unreachable
            ty = typer_for(ctx, assume={RELAX: True})
            ft = ty.results.get(f) or ty.analyze(f)
            cfg2 = ty.cfg_of(f)
            reach = [cn for cn in cfg2.stmt_nodes(("raisestmt",)) if cn.ast is node.ast and ft.instate.get(cn.id) is not None]
            if not reach:
                ctx.inst("R1", f, node.ast, "raise is unreachable when self.relax is true (flow-sensitive)")
            else:
                ctx.viol("R1", f, node.ast, "%s is raised on a path that does not test self.relax: relax=True can raise" % cls)
    # R5: what a relaxed dead end returns is a sentinel (None, (None, ...), [])
    for f in funcs:
        if f.cls is None or f.cls.name != "Resolver":
            continue
        cfg = typer.cfg_of(f)
        for node in cfg.stmt_nodes(("return",)):
            gs = cfg.guards_of(node)
            if not gs:
                continue
            c, outcome, _ = gs[-1]
            if norm(c) == RELAX and outcome is True:
                v = node.ast.value
                ok = v is None or (isinstance(v, ast.Constant) and v.value is None) or \
                    (isinstance(v, ast.Tuple) and v.elts and isinstance(v.elts[0], ast.Constant) and v.elts[0].value is None) or \
                    (isinstance(v, ast.List) and not v.elts)
                if ok:
                    ctx.inst("R5", f, node.ast, "relaxed dead end returns a sentinel")
                else:
                    ctx.viol("R5", f, node.ast, "a relaxed dead end returns `%s`, not the None/empty sentinel: relax=True yields a "
                             "node where the strict mode raises" % norm(v))
    # relax is configured once
    cls, allf = resolver_funcs(ctx.p)
    for f in cls.funcs():
        for node in walk_own(f.node):
            if isinstance(node, ast.Attribute) and isinstance(node.ctx, (ast.Store, ast.Del)) and node.attr in ("relax", "ignorecase", "pathattr") \
                    and f.srcname != "__init__":
                ctx.viol("R1", f, node, "resolver option %s is reassigned outside __init__" % node.attr)
    return n


# ---------------------------------------------------------------------- R2
def _derefs_of_optional(func, ft, params=None):
    """attribute loads / iterations on a *name* whose type may be None"""
    out = []
    for node in walk_own(func.node):
        if isinstance(node, ast.Attribute) and isinstance(node.value, ast.Name) and isinstance(node.ctx, ast.Load):
            t = ft.type_of(node.value)
            if t is not None and "none" in t and "top" not in t and t != NONE or (t == NONE):
                if params is None or node.value.id in params:
                    out.append((node, node.value.id, t))
    return out


def unguarded_param_derefs(p, funcs):
    """(function, param index) pairs: the callee dereferences the parameter on
    some path without a None-guard (computed with the parameter seeded as
    node-or-None; passing it on to such a parameter counts, to a fixpoint)."""
    U = set()
    changed = True
    rounds = 0
    while changed and rounds < 6:
        changed = False
        rounds += 1
        for f in funcs:
            nodeparams = [q for q in f.posparams if q in ("node", "subnode", "start", "parent", "child") and q != f.selfname]
            for q in nodeparams:
                key = (f.where, q)
                if key in U:
                    continue
                ty = Typer(p, assume={RELAX: True}, param_override={(f.where, q): OPT_NODE})
                ft = ty.analyze(f)
                hit = bool(_derefs_of_optional(f, ft, {q}))
                if not hit:
                    for call, res in _calls_with_targets(f, ft):
                        for tgt in res:
                            for i, a in enumerate(call.args):
                                if isinstance(a, ast.Name) and a.id == q:
                                    t = ft.type_of(a)
                                    pn = _param_at(tgt, i)
                                    if t is not None and "none" in t and pn and (tgt.where, pn) in U:
                                        hit = True
                if hit:
                    U.add(key)
                    changed = True
    return U


def _param_at(func, i):
    ps = func.posparams
    if func.selfname is not None:
        ps = ps[1:]
    return ps[i] if i < len(ps) else None


def _calls_with_targets(func, ft):
    for node in walk_own(func.node):
        if isinstance(node, ast.Call):
            res = ft.calls.get(id(node))
            if res is not None and res.kind == "func":
                ts = res.target if isinstance(res.target, list) else [res.target]
                yield node, [t for t in ts if isinstance(t, Func)]


def rule_R2(ctx, funcs):
    """the relax sentinel (None) never reaches a dereference"""
    p = ctx.p
    U = unguarded_param_derefs(p, funcs)
    ctx.extra["params_dereferenced_unguarded"] = sorted("%s(%s)" % k for k in U)
    n = 0
    for mode in (True, False):
        ty = typer_for(ctx, assume={RELAX: mode})
        for f in funcs:
            ft = ty.results.get(f) or ty.analyze(f)
            for node in walk_own(f.node):
                if isinstance(node, ast.Attribute) and isinstance(node.value, ast.Name) and isinstance(node.ctx, ast.Load):
                    t = ft.type_of(node.value)
                    if t is None:
                        continue
                    if has_node(t) or t == NONE:
                        n += 1
                        if "none" in t:
                            ctx.viol("R2", f, node, "`%s` may be the None sentinel of a relaxed lookup here (relax=%s, type %s) and is "
                                     "dereferenced: AttributeError instead of a clean result" % (node.value.id, mode, show(t)))
                        elif mode:
                            ctx.inst("R2", f, node, "receiver cannot be None under relax=True (%s)" % show(t))
            for call, targets in _calls_with_targets(f, ft):
                for tgt in targets:
                    for i, a in enumerate(call.args):
                        if not isinstance(a, ast.Name):
                            continue
                        t = ft.type_of(a)
                        pn = _param_at(tgt, i)
                        if t is None or pn is None or (tgt.where, pn) not in U:
                            continue
                        n += 1
                        if "none" in t and "top" not in t:
                            ctx.viol("R2", f, call, "`%s` may be the None sentinel (relax=%s) and is passed to %s, which dereferences "
                                     "its parameter %s without a None guard" % (a.id, mode, tgt.qual, pn))
                        elif mode:
                            ctx.inst("R2", f, call, "argument %s cannot be None under relax=True" % a.id)
    # under relax=True no raise of a resolver error is reachable at all
    ty = typer_for(ctx, assume={RELAX: True})
    for f in funcs:
        if f.cls is None or f.cls.name != "Resolver":
            continue
        ft = ty.results.get(f) or ty.analyze(f)
        cfg = ty.cfg_of(f)
        handler_names = {h.name for h in ast.walk(f.node) if isinstance(h, ast.ExceptHandler) and h.name}
        for node in cfg.stmt_nodes(("raisestmt",)):
            cls = _raise_class(node.ast)
            if cls in ERR_CLASSES and cls not in handler_names:
                n += 1
                if ft.instate.get(node.id) is not None:
                    ctx.viol("R2", f, node.ast, "under relax=True this raise of %s is reachable" % cls,
                             construct="reachable under relax: " + " ".join(norm(node.ast).split()))
    return n


# ---------------------------------------------------------------------- R3
def rule_R3(ctx, typer):
    """the error class raised at each kind of dead end is the specified one,
    and get/glob agree on it"""
    cls, funcs = resolver_funcs(ctx.p)
    want = {"up": "RootResolverError", "child": "ChildResolverError", "root": "ResolverError"}
    seen = {"up": [], "child": [], "root": []}
    n = 0
    ty = typer_for(ctx)
    # helper methods called only from the start-up code inherit its context
    callers = {}
    for f in cls.funcs():
        ft = ty.results.get(f)
        if ft is None:
            continue
        for res in ft.calls.values():
            if res.kind == "func" and isinstance(res.target, Func) and res.target.cls is cls:
                callers.setdefault(res.target, set()).add(f)
    rootctx = {funcs["__start"]} if "__start" in funcs else set()
    changed = True
    while changed:
        changed = False
        for f, cs in callers.items():
            if f not in rootctx and cs and cs <= rootctx:
                rootctx.add(f)
                changed = True
    for f in cls.funcs():
        cfg = ty.cfg_of(f)
        handler_names = {h.name for h in ast.walk(f.node) if isinstance(h, ast.ExceptHandler) and h.name}
        for node in cfg.stmt_nodes(("raisestmt",)):
            c = _raise_class(node.ast)
            if c is None or c in handler_names or c not in ERR_CLASSES:
                continue
            gs = cfg.guards_of(node)
            ctxkind = "root" if f in rootctx else "child"
            for cond, outcome, _ in gs:
                if isinstance(cond, ast.Compare) and len(cond.ops) == 1 and isinstance(cond.ops[0], ast.Eq) and outcome is True:
                    for side in (cond.left, cond.comparators[0]):
                        if isinstance(side, ast.Constant) and side.value == "..":
                            ctxkind = "up"
            n += 1
            seen[ctxkind].append((f, node.ast, c))
            if c != want[ctxkind]:
                ctx.viol("R3", f, node.ast, "dead end of kind '%s' raises %s; the specified class is %s" % (ctxkind, c, want[ctxkind]))
            else:
                ctx.inst("R3", f, node.ast, "%s dead end raises %s" % (ctxkind, c))
    for k in ("up", "child", "root"):
        if not seen[k]:
            f = funcs.get("get")
            ctx.viol("R3", f, f.node, "no raise site for dead ends of kind '%s': such a dead end is no longer reported in strict mode" % k,
                     construct="Resolver: no '%s' raise site" % k)
    return n


# ---------------------------------------------------------------------- R4
ALLOWED_METHODS = {"split", "startswith", "upper", "pop", "append", "match", "join", "clear", "partition", "rpartition"}
STR_TOTAL_METHODS = {"lower", "casefold", "isascii", "isalpha", "isdigit", "isupper", "islower", "isspace", "isalnum", "strip", "lstrip", "rstrip",
                     "title", "swapcase", "capitalize"}


def rule_R4(ctx, typer, funcs):
    """no other exception source on the resolver paths: every callee is resolved
    and harmless; indexed reads are dominated by a non-emptiness guard"""
    n = 0
    for f in funcs:
        ft = typer.results.get(f)
        if ft is None:
            continue
        cfg = typer.cfg_of(f)
        for node in walk_own(f.node):
            if isinstance(node, ast.Call):
                res = ft.calls.get(id(node))
                n += 1
                ok = False
                if res is None:
                    ok = False
                elif res.kind in ("func", "ctor"):
                    ok = True
                elif res.kind == "builtin":
                    ok = res.name in T.PURE_BUILTINS or res.name in T.EXC_BUILTINS or res.name.startswith("super")
                    if res.name == "getattr" and len(node.args) < 3:
                        ok = False
                elif res.kind == "method":
                    ok = res.name in ALLOWED_METHODS or _container_call_ok(ctx.p, f, ft, node)
                    if not ok and res.name in STR_TOTAL_METHODS and isinstance(node.func, ast.Attribute) and not node.args:
                        from ..nodetype import STR
                        ok = ft.type_of(node.func.value) == STR  # total, effect-free methods of a str-typed receiver
                elif res.kind == "callback":
                    ok = res.name == "cmp_"
                elif res.kind == "ext":
                    ok = res.name in ("re.compile", "re.escape")
                if not ok and isinstance(node.func, ast.Attribute) and node.func.attr in (STR_TOTAL_METHODS | {"split", "partition", "rpartition", "startswith",
                                                                                                    "endswith", "upper"}):
                    from ..nodetype import STR
                    ok = ft.type_of(node.func.value) == STR  # a str method on a str-typed expression (e.g. a slice of the path)
                if not ok and isinstance(node.func, ast.Attribute) and isinstance(node.func.value, ast.Name) \
                        and node.func.attr in ("setdefault", "get", "values", "keys", "items"):
                    # a local dict keyed by id() values: hashing an int cannot fail or run user code
                    from ..nodetype import ID as _ID
                    from .common import resolve_local as _rl3
                    init_ = _rl3(f, node.func.value)
                    if isinstance(init_, ast.Name):
                        from .common import reaching_def_nodes as _rdn
                        cfg_ = typer.cfg_of(f)
                        at_ = [cn_ for cn_ in cfg_.nodes if cn_.ast is not None and cn_.kind in ("stmt", "return", "test") and any(x is node for x in ast.walk(cn_.ast))
                               and not isinstance(cn_.ast, (ast.For, ast.While, ast.If, ast.Try, ast.With))]
                        ds_ = _rdn(at_[0], init_.id) if at_ else None
                        if ds_ and all(norm(d_.ast.value) == norm(ds_[0].ast.value) for d_ in ds_):
                            init_ = ds_[0].ast.value
                    is_dict = (isinstance(init_, ast.Dict) and not init_.keys) or (isinstance(init_, ast.Call) and norm(init_.func) == "dict" and not init_.args and not init_.keywords)
                    if is_dict and (node.func.attr in ("values", "keys", "items") and not node.args
                                    or (node.func.attr in ("setdefault", "get") and node.args and ft.type_of(node.args[0]) == _ID)):
                        ok = True
                if ok:
                    ctx.inst("R4", f, node, "callee %s (%s)" % (norm(node.func), res.kind if res else "str method"))
                else:
                    ctx.viol("R4", f, node, "call to %s on a resolver path is not in the reasoned set of callees that cannot fail "
                             "for tree nodes and strings (%s): a relaxed lookup may raise" % (
                                 norm(node.func), res.kind if res else "unresolved"))
            if isinstance(node, ast.Subscript) and isinstance(node.ctx, ast.Load) and not isinstance(node.slice, ast.Slice) \
                    and isinstance(node.value, ast.Name):
                if _is_cache_lookup(node):
                    continue
                n += 1
                name = node.value.id
                from .common import resolve_local
                base = resolve_local(f, node.value)
                if isinstance(base, (ast.Tuple, ast.List)) and isinstance(node.slice, ast.Constant) and isinstance(node.slice.value, int) \
                        and -len(base.elts) <= node.slice.value < len(base.elts):
                    ctx.inst("R4", f, node, "index into a literal of sufficient length")
                    continue
                lit = _literal_container(ctx.p, f, node.value)
                if isinstance(lit, (ast.Tuple, ast.List)) and len(lit.elts) >= 2 and isinstance(node.slice, ast.Call) \
                        and isinstance(node.slice.func, ast.Name) and node.slice.func.id == "bool":
                    ctx.inst("R4", f, node, "index bool(...) into a constant sequence of at least two elements")
                    continue
                if _wild_table_of(ctx.p, f, node.value) is not None:
                    ctx.inst("R4", f, node, "lookup in the constant wildcard table (guarded by membership)")
                    continue
                if _short_circuit_guarded(f, node, name):
                    ctx.inst("R4", f, node, "index read guarded by a short-circuit non-emptiness test")
                    continue
                holder = _stmt_cfg_nodes(cfg, f, node)
                ok = bool(holder)
                for cn in holder:
                    gs = cfg.guards_of(cn)
                    nonempty = any(isinstance(c, ast.Name) and c.id == name and o is True for c, o, _ in gs)
                    # leading separator: split() yields at least two parts
                    starts = any(isinstance(c, ast.Call) and isinstance(c.func, ast.Attribute) and c.func.attr == "startswith"
                                 and o is True for c, o, _ in gs)
                    # `S[i]` under `i < len(S)` (the loop condition of an index loop)
                    bounded = isinstance(node.slice, ast.Name) and any(
                        isinstance(c, ast.Compare) and len(c.ops) == 1 and o is True and (
                            (isinstance(c.ops[0], ast.Lt) and norm(c.left) == node.slice.id and norm(c.comparators[0]) == "len(%s)" % name)
                            or (isinstance(c.ops[0], ast.Gt) and norm(c.comparators[0]) == node.slice.id and norm(c.left) == "len(%s)" % name))
                        for c, o, _ in gs)
                    if not (nonempty or starts or bounded):
                        ok = False
                if ok:
                    ctx.inst("R4", f, node, "index read dominated by a non-emptiness guard")
                else:
                    ctx.viol("R4", f, node, "index read `%s` is not dominated by a non-emptiness guard: IndexError on some path" % norm(node))
    return n


def _literal_container(program, func, expr):
    """the literal (or empty-constructor call) a name is bound to: a local bound exactly once, or a module constant"""
    from .common import resolve_local
    if not isinstance(expr, ast.Name):
        return None
    v = resolve_local(func, expr)
    if v is expr:
        r = program.resolve_name(func.module, expr.id)
        v = r[1] if r is not None and r[0] == "const" else None
    if isinstance(v, (ast.Dict, ast.Tuple, ast.List, ast.Set)):
        return v
    if isinstance(v, ast.Call) and isinstance(v.func, ast.Name) and v.func.id in ("set", "dict", "list") and not v.args and not v.keywords:
        return v
    return None


_HASHABLE = frozenset(["str", "int", "id", "none"])


def _container_call_ok(program, func, ft, call):
    """set.add / dict.get on a container the function owns (or a module constant) with hashable arguments: cannot raise"""
    f = call.func
    if not isinstance(f, ast.Attribute) or call.keywords:
        return False
    lit = _literal_container(program, func, f.value)
    if lit is None:
        return False
    kind = "dict" if isinstance(lit, ast.Dict) or isinstance(lit, ast.Call) and lit.func.id == "dict" else \
        "set" if isinstance(lit, ast.Set) or isinstance(lit, ast.Call) and lit.func.id == "set" else "seq"

    def hashable(e):
        t = ft.type_of(e)
        return t is not None and bool(t) and t <= _HASHABLE
    if kind == "set" and f.attr == "add" and len(call.args) == 1:
        return hashable(call.args[0])
    if kind == "dict" and f.attr == "get" and 1 <= len(call.args) <= 2:
        return hashable(call.args[0])
    return False


def _is_cache_lookup(node):
    return False


def _short_circuit_guarded(func, sub, name):
    """`X and ... X[0] ...` / `bool(X) and ...` / `X[0] if X else ...` in value position"""
    def is_nonempty_test(e):
        if isinstance(e, ast.Name) and e.id == name:
            return True
        if isinstance(e, ast.Call) and norm(e.func) in ("bool", "len") and e.args and norm(e.args[0]) == name:
            return True
        return False
    for n in walk_own(func.node):
        if isinstance(n, ast.BoolOp) and isinstance(n.op, ast.And):
            for i, v in enumerate(n.values):
                if any(x is sub for x in ast.walk(v)) and any(is_nonempty_test(w) for w in n.values[:i]):
                    return True
        if isinstance(n, ast.IfExp) and is_nonempty_test(n.test) and any(x is sub for x in ast.walk(n.body)):
            return True
    return False


def _stmt_cfg_nodes(cfg, func, expr):
    out = []
    for cn in cfg.nodes:
        a = cn.ast if cn.kind != "test" else cn.cond
        if a is None or cn.kind in ("loopin", "loopdone", "fornext", "guard", "tryenter", "dispatch", "handler"):
            continue
        root = a.iter if cn.kind == "foriter" else a
        if isinstance(root, (ast.If, ast.For, ast.While, ast.Try, ast.With)):
            continue
        for c in ast.walk(root):
            if c is expr:
                out.append(cn)
                break
    return out


# ---------------------------------------------------------------------- G1
def _regex_parse(text):
    import re._parser as sp
    return sp.parse(text)


def _wild_ok(ch, const):
    import re._parser as sp
    import re._constants as sc
    try:
        p = list(_regex_parse(const))
    except Exception:
        return False
    if ch == "?":
        return len(p) == 1 and p[0][0] == sc.ANY
    if ch == "*":
        if len(p) != 1 or p[0][0] not in (sc.MAX_REPEAT,):
            return False
        lo, hi, sub = p[0][1]
        return lo == 0 and hi == sc.MAXREPEAT and len(sub) == 1 and list(sub)[0][0] == sc.ANY
    return False


def _wild_table_of(program, func, expr):
    """{wildcard: regex} if expr names a constant dict whose entries are all valid wildcard translations"""
    if not isinstance(expr, ast.Name):
        return None
    r = program.resolve_name(func.module, expr.id)
    val = r[1] if r is not None and r[0] == "const" else None
    if val is None:
        for n in walk_own(func.node):
            if isinstance(n, ast.Assign) and any(isinstance(t, ast.Name) and t.id == expr.id for t in n.targets):
                val = n.value
    if not isinstance(val, ast.Dict):
        return None
    out = {}
    for k, v in zip(val.keys, val.values):
        if not (isinstance(k, ast.Constant) and isinstance(v, ast.Constant) and isinstance(k.value, str) and isinstance(v.value, str)):
            return None
        out[k.value] = v.value
    return out


def _split_concat(e):
    if isinstance(e, ast.BinOp) and isinstance(e.op, ast.Add):
        return _split_concat(e.left) + _split_concat(e.right)
    return [e]


def rule_G1(ctx, typer):
    """taint rule: every fragment that reaches re.compile is the literal translation of the wildcard its branch tests
    for, or re.escape(<pattern character>); the result is wrapped by a flags-only prefix and an end-of-string anchor
    and applied with .match.  Driven from the sink: wherever the regex text is built (a translator function or, after
    a refactoring, the matching method itself), that code is checked."""
    from .common import resolve_elem, resolve_local
    cls, funcs = resolver_funcs(ctx.p)
    n = 0
    sinks = []
    for f in list(cls.funcs()) + [g for g in ctx.p.all_funcs if g.module.relpath == RES and g.cls is None]:
        for node in walk_own(f.node):
            if isinstance(node, ast.Call) and norm(node.func) == "re.compile":
                sinks.append((f, node))
    if not sinks:
        raise AnalysisError("anchor: no re.compile call in anytree/resolver.py")
    for f, node in sinks:
        if f.module.assigns and any(node is v for v in f.module.assigns.values()):
            continue
        n += 1
        arg = node.args[0] if node.args else None
        src = resolve_local(f, arg) if arg is not None else None
        patparams = [q for q in f.posparams if q != f.selfname]
        if isinstance(src, ast.Call) and len(src.args) == 1 and not src.keywords:
            res = typer.results.get(f).calls.get(id(src)) if typer.results.get(f) else None
            tgt = res.target if res is not None and res.kind == "func" and isinstance(res.target, Func) else None
            a0 = resolve_elem(f, src.args[0])
            if tgt is not None and isinstance(a0, ast.Name) and a0.id in patparams:
                ctx.inst("G1", f, node, "re.compile receives %s(<pattern parameter>)" % tgt.qual)
                tparam = [q for q in tgt.posparams if q != tgt.selfname][0]
                n += _check_translation(ctx, typer, tgt, tparam, None)
                continue
            ctx.viol("G1", f, node, "re.compile receives `%s`, not the sanitising translation of the pattern parameter" % norm(src))
            continue
        # built in place (e.g. the translator was inlined): the pattern parameter is the taint source
        seed = None
        for q in patparams:
            if q in ("pat", "pattern"):
                seed = q
        if seed is None:
            # the pattern may arrive as first element of the cache key
            for nm in walk_own(f.node):
                if isinstance(nm, ast.Subscript) and isinstance(resolve_elem(f, nm), ast.Name) and resolve_elem(f, nm).id in patparams:
                    seed = resolve_elem(f, nm).id
        if seed is None and patparams:
            seed = patparams[-1]
        n += _check_translation(ctx, typer, f, seed, arg)
    # matching is start-anchored
    for f in cls.funcs():
        for node in walk_own(f.node):
            if isinstance(node, ast.Call) and isinstance(node.func, ast.Attribute) and node.func.attr in ("search", "findall", "finditer") \
                    and not isinstance(node.func.value, ast.Constant) \
                    and not (isinstance(node.func.value, ast.Name) and node.func.value.id in (f.module.assigns or {})):
                # (a module-level precompiled expression is not the glob pattern: e.g. a tokeniser applied to the pattern text)
                n += 1
                ctx.viol("G1", f, node, "pattern applied with .%s: not anchored at the start of the name" % node.func.attr)
            if isinstance(node, ast.Call) and isinstance(node.func, ast.Attribute) and node.func.attr in ("match", "fullmatch"):
                n += 1
                ctx.inst("G1", f, node, "start-anchored application (.%s)" % node.func.attr)
    return n


def _check_translation(ctx, typer, tr, patparam, result_expr):
    """check how ``tr`` builds the regex from its parameter ``patparam``; result_expr None = its return values"""
    from .common import resolve_elem, resolve_local
    cfg = typer.cfg_of(tr)
    tainted = {patparam}
    # names holding (an element of a key that holds) the pattern
    for node in walk_own(tr.node):
        if isinstance(node, ast.Assign) and len(node.targets) == 1 and isinstance(node.targets[0], ast.Name):
            r = resolve_elem(tr, node.value)
            if isinstance(r, ast.Name) and r.id in tainted:
                tainted.add(node.targets[0].id)
    for node in walk_own(tr.node):
        # a character taken by index: `char = pat[pos]`
        if isinstance(node, ast.Assign) and len(node.targets) == 1 and isinstance(node.targets[0], ast.Name) and isinstance(node.value, ast.Subscript) \
                and not isinstance(node.value.slice, ast.Slice) and isinstance(node.value.value, ast.Name) and node.value.value.id in tainted:
            tainted.add(node.targets[0].id)
    changed = True
    while changed:
        changed = False
        for node in walk_own(tr.node):
            tgt, it = None, None
            if isinstance(node, ast.For):
                tgt, it = node.target, node.iter
            elif isinstance(node, ast.comprehension):
                tgt, it = node.target, node.iter
            if tgt is not None and isinstance(tgt, ast.Name) and tgt.id not in tainted and any(
                    isinstance(x, ast.Name) and x.id in tainted for x in ast.walk(it)):
                tainted.add(tgt.id)
                changed = True
    # the per-character rule below needs the loop to run over the characters of the pattern itself
    for node in walk_own(tr.node):
        it = node.iter if isinstance(node, (ast.For, ast.comprehension)) else None
        if it is not None and any(isinstance(x, ast.Name) and x.id in tainted for x in ast.walk(it)):
            base = it
            while isinstance(base, ast.Call) and isinstance(base.func, ast.Name) and base.func.id in ("enumerate", "iter", "list", "tuple") and base.args:
                base = base.args[0]
            if not (isinstance(base, ast.Name) and base.id in tainted):
                raise AnalysisError("G1: %s splits the pattern with `%s` before translating it: the pieces are not single characters and the "
                                    "per-character translation rule does not apply (not followed)" % (tr.qual, norm(it)[:60]))
    assigns, augs, appends = {}, {}, {}
    for node in walk_own(tr.node):
        if isinstance(node, ast.Assign) and len(node.targets) == 1 and isinstance(node.targets[0], ast.Name):
            assigns.setdefault(node.targets[0].id, []).append(node)
        elif isinstance(node, ast.AugAssign) and isinstance(node.target, ast.Name):
            augs.setdefault(node.target.id, []).append(node)
        elif isinstance(node, ast.Expr) and isinstance(node.value, ast.Call) and isinstance(node.value.func, ast.Attribute) \
                and node.value.func.attr in ("append", "extend") and isinstance(node.value.func.value, ast.Name):
            appends.setdefault(node.value.func.value.id, []).append(node)
    state = {"n": 0}
    visiting = set()

    def which_from_guards(stmt):
        which = None
        for cn in cfg.nodes_of(stmt):
            for c, o, _ in cfg.guards_of(cn):
                w = _wild_test(c)
                if w is not None and o is True:
                    which = w
        return which

    def _wild_test(c):
        if isinstance(c, ast.Compare) and len(c.ops) == 1 and isinstance(c.ops[0], ast.Eq):
            for side, other in ((c.left, c.comparators[0]), (c.comparators[0], c.left)):
                if isinstance(side, ast.Constant) and side.value in ("*", "?") and isinstance(other, ast.Name) and other.id in tainted:
                    return side.value
        return None

    def frag(e, which, where):
        """check one regex fragment expression"""
        state["n"] += 1
        if isinstance(e, ast.Constant) and isinstance(e.value, str):
            if e.value == "":
                ctx.inst("G1", tr, where, "empty fragment")
            elif which is not None and _wild_ok(which, e.value):
                ctx.inst("G1", tr, where, "wildcard %r translated to %r" % (which, e.value))
            else:
                ctx.viol("G1", tr, where, "regex fragment %r is used %s: not the translation of a wildcard ('*' → any run, '?' → one "
                         "character)" % (e.value, "for wildcard %r" % which if which else "outside a wildcard branch"))
            return
        if isinstance(e, ast.Call) and norm(e.func) == "re.escape" and len(e.args) == 1:
            ctx.inst("G1", tr, where, "pattern character passes through re.escape")
            return
        if isinstance(e, ast.IfExp):
            # T[c] if c in T else re.escape(c)   /   re.escape(c) if c not in T else T[c]
            t = e.test
            if isinstance(t, ast.Compare) and len(t.ops) == 1 and isinstance(t.ops[0], (ast.In, ast.NotIn)) and isinstance(t.left, ast.Name) \
                    and t.left.id in tainted:
                tab = _wild_table_of(ctx.p, tr, t.comparators[0])
                if tab is not None:
                    hit, miss = (e.body, e.orelse) if isinstance(t.ops[0], ast.In) else (e.orelse, e.body)
                    lookup_ok = isinstance(hit, ast.Subscript) and norm(hit.value) == norm(t.comparators[0]) and norm(hit.slice) == t.left.id
                    bad = [k for k, v in tab.items() if k not in ("*", "?") or not _wild_ok(k, v)]
                    if lookup_ok and not bad:
                        ctx.inst("G1", tr, where, "wildcard table %s: every entry is the translation of its wildcard" % tab)
                    else:
                        ctx.viol("G1", tr, where, "wildcard table lookup `%s` is not a translation of '*'/'?' only (%s)" % (norm(hit), bad or "lookup form"))
                    frag(miss, which, where)
                    return
            w = _wild_test(e.test)
            frag(e.body, w if w is not None else which, where)
            frag(e.orelse, which if w is not None else which, where)
            return
        if isinstance(e, ast.Call) and isinstance(e.func, ast.Attribute) and e.func.attr == "get" and len(e.args) == 2 \
                and isinstance(e.args[0], ast.Name) and e.args[0].id in tainted:
            tab = _wild_table_of(ctx.p, tr, e.func.value)
            if tab is not None:
                bad = [k for k, v in tab.items() if k not in ("*", "?") or not _wild_ok(k, v)]
                if bad:
                    ctx.viol("G1", tr, where, "wildcard table has entries that are not translations of '*'/'?': %s" % bad)
                else:
                    ctx.inst("G1", tr, where, "wildcard table %s" % tab)
                frag(e.args[1], which, where)
                return
        if isinstance(e, ast.BoolOp) and isinstance(e.op, ast.Or) and len(e.values) == 2:
            # T.get(c) or re.escape(c): a table hit is a (non-empty, hence true) translation, a miss falls through
            g = e.values[0]
            if isinstance(g, ast.Call) and isinstance(g.func, ast.Attribute) and g.func.attr == "get" and len(g.args) == 1 \
                    and isinstance(g.args[0], ast.Name) and g.args[0].id in tainted:
                tab = _wild_table_of(ctx.p, tr, g.func.value)
                if tab is not None:
                    bad = [k for k, v in tab.items() if k not in ("*", "?") or not v or not _wild_ok(k, v)]
                    if bad:
                        ctx.viol("G1", tr, where, "wildcard table has entries that are not translations of '*'/'?': %s" % bad)
                    else:
                        ctx.inst("G1", tr, where, "wildcard table %s" % tab)
                    frag(e.values[1], which, where)
                    return
        if isinstance(e, ast.BinOp) and isinstance(e.op, ast.Add):
            frag(e.left, which, where)
            frag(e.right, which, where)
            return
        if isinstance(e, ast.Call) and isinstance(e.func, ast.Attribute) and e.func.attr == "join" and len(e.args) == 1:
            sep = e.func.value
            if not (isinstance(sep, ast.Constant) and sep.value == ""):
                ctx.viol("G1", tr, where, "fragments are joined with a non-empty separator `%s`" % norm(sep))
            frag(e.args[0], which, where)
            return
        if isinstance(e, (ast.ListComp, ast.GeneratorExp)):
            for g in e.generators:
                for c in g.ifs:
                    ctx.viol("G1", tr, where, "pattern characters are dropped by the condition `%s`" % norm(c))
            frag(e.elt, which, where)
            return
        if isinstance(e, (ast.List, ast.Tuple)):
            for x in e.elts:
                frag(x, which, where)
            return
        if isinstance(e, ast.Name):
            name = e.id
            if name in tainted:
                ctx.viol("G1", tr, where, "pattern text `%s` reaches the regular expression without re.escape: names containing regex "
                         "metacharacters are matched wrongly" % name)
                return
            if name in visiting:
                return
            visiting.add(name)
            srcs = assigns.get(name, []) + augs.get(name, []) + appends.get(name, [])
            if not srcs:
                ctx.viol("G1", tr, where, "unrecognised regex fragment `%s`" % name)
            for st in srcs:
                w = which_from_guards(st)
                if isinstance(st, ast.Assign):
                    frag(st.value, w, st)
                elif isinstance(st, ast.AugAssign):
                    frag(st.value, w, st)
                else:
                    for a in st.value.args:
                        frag(a, w, st)
            visiting.discard(name)
            return
        if any(isinstance(x, ast.Name) and x.id in tainted for x in ast.walk(e)):
            ctx.viol("G1", tr, where, "pattern text reaches the regular expression without re.escape: `%s`" % norm(e))
        else:
            ctx.viol("G1", tr, where, "unrecognised regex fragment `%s`" % norm(e))

    if result_expr is not None:
        holder = ast.Return(value=result_expr)
        ast.copy_location(holder, result_expr)
        rets = [holder]
    else:
        rets = [x for x in walk_own(tr.node) if isinstance(x, ast.Return) and x.value is not None]
    if not rets:
        raise AnalysisError("%s has no return" % tr.qual)
    for r in rets:
        rv = resolve_local(tr, r.value) if isinstance(r.value, ast.Name) and result_expr is not None else r.value
        # "".join(<list of pieces>): the literal pieces the list starts with are the prefix, literal pieces appended after the
        # character loop the suffix, what the loop appends is the body
        if isinstance(rv, ast.Call) and isinstance(rv.func, ast.Attribute) and rv.func.attr == "join" and isinstance(rv.func.value, ast.Constant) \
                and rv.func.value.value == "" and len(rv.args) == 1 and isinstance(rv.args[0], ast.Name) and rv.args[0].id in appends:
            acc = rv.args[0].id
            inits = assigns.get(acc, [])
            loops_ = [x for x in walk_own(tr.node) if isinstance(x, (ast.For, ast.While))]
            in_loop = lambda st_: any(st_ is y for lp in loops_ for y in ast.walk(lp))  # noqa: E731
            if len(inits) == 1 and isinstance(inits[0].value, (ast.List, ast.Tuple)) and not in_loop(inits[0]) \
                    and all(isinstance(e_, ast.Constant) and isinstance(e_.value, str) for e_ in inits[0].value.elts) and not augs.get(acc):
                pre = "".join(e_.value for e_ in inits[0].value.elts)
                post = ""
                okshape = True
                for st_ in appends[acc]:
                    call_ = st_.value
                    if in_loop(st_):
                        for a_ in call_.args:
                            if call_.func.attr == "append":
                                frag(a_, which_from_guards(st_), st_)
                            else:
                                frag(a_, None, st_)
                    elif call_.func.attr == "append" and len(call_.args) == 1 and isinstance(call_.args[0], ast.Constant) \
                            and isinstance(call_.args[0].value, str) and st_.lineno > max([lp.lineno for lp in loops_] or [0]):
                        post += call_.args[0].value
                    else:
                        okshape = False
                if okshape:
                    state["n"] += 1
                    ok = _anchored(pre, post)
                    if ok is True:
                        ctx.inst("G1", tr, r, "pieces wrapped by flags-only prefix %r and end-of-string anchor %r" % (pre, post))
                    else:
                        ctx.viol("G1", tr, r, "translated pattern is not anchored to the whole name: %s" % ok)
                    continue
        parts = _split_concat(rv)
        pre, post, seen_body = "", "", False
        for part in parts:
            if isinstance(part, ast.Constant) and isinstance(part.value, str):
                if seen_body:
                    post += part.value
                else:
                    pre += part.value
            else:
                seen_body = True
                frag(part, None, r)
        state["n"] += 1
        ok = _anchored(pre, post)
        if ok is True:
            ctx.inst("G1", tr, r, "body wrapped by flags-only prefix %r and end-of-string anchor %r" % (pre, post))
        else:
            ctx.viol("G1", tr, r, "translated pattern is not anchored to the whole name: %s" % ok)
    return state["n"]


def _anchored(pre, post):
    import re._parser as sp
    import re._constants as sc
    try:
        p = list(_regex_parse(pre + "X" + post))
    except Exception as exc:
        return "wrapper does not parse as a regex: %s" % exc
    # after inline flags the first element must be the placeholder literal
    if not p or p[0] != (sc.LITERAL, ord("X")):
        return "text %r precedes the body" % pre
    rest = p[1:]
    if len(rest) != 1 or rest[0][0] != sc.AT or rest[0][1] != sc.AT_END_STRING:
        return "suffix %r is not exactly an end-of-string anchor (\\Z)" % post
    return True


# ---------------------------------------------------------------------- G2/G3
def _deps(func, expr, stop=()):
    """inputs (parameter names, self.<attr>) an expression is data/control
    dependent on, flow-insensitively inside ``func``"""
    params = set(func.posparams) - {func.selfname}
    assigns = {}
    for node in walk_own(func.node):
        tv = []
        if isinstance(node, ast.Assign):
            for t in node.targets:
                for nm in ast.walk(t):
                    if isinstance(nm, ast.Name) and isinstance(nm.ctx, ast.Store):
                        tv.append((nm.id, node.value, node))
        elif isinstance(node, ast.AugAssign) and isinstance(node.target, ast.Name):
            tv.append((node.target.id, node.value, node))
        for name, val, st in tv:
            assigns.setdefault(name, []).append((val, st))
    # control conditions per statement
    conds = {}

    def walk(stmts, active):
        for s in stmts:
            conds[id(s)] = list(active)
            if isinstance(s, ast.If):
                walk(s.body, active + [s.test])
                walk(s.orelse, active + [s.test])
            elif isinstance(s, (ast.For, ast.While)):
                walk(s.body, active)
                walk(s.orelse, active)
            elif isinstance(s, ast.Try):
                walk(s.body, active)
                for h in s.handlers:
                    walk(h.body, active)
                walk(s.orelse, active)
                walk(s.finalbody, active)
            elif isinstance(s, ast.With):
                walk(s.body, active)
    walk(func.node.body, [])
    out, seen = set(), set()

    def visit(e):
        for x in ast.walk(e):
            if isinstance(x, ast.Attribute) and isinstance(x.value, ast.Name) and x.value.id == func.selfname:
                out.add("self." + x.attr)
            elif isinstance(x, ast.Name) and isinstance(x.ctx, ast.Load):
                if x.id in params:
                    out.add(x.id)
                elif x.id in assigns and x.id not in seen:
                    seen.add(x.id)
                    for val, st in assigns[x.id]:
                        visit(val)
                        for c in conds.get(id(st), []):
                            if not _is_size_test(c):
                                visit(c)
    visit(expr)
    return out


def _is_size_test(c):
    return any(isinstance(x, ast.Call) and isinstance(x.func, ast.Name) and x.func.id == "len" for x in ast.walk(c))


def rule_G2_all_caches(ctx, typer):
    """every shared (class- or module-level) cache of resolver.py is keyed by everything its cached value depends on"""
    from .common import resolve_local
    n = 0
    mod = ctx.p.module(RES)
    cls, funcs = resolver_funcs(ctx.p)
    shared = {name for name, v in cls.assigns.items() if isinstance(v, ast.Dict)} | {name for name, v in mod.assigns.items() if isinstance(v, ast.Dict)}
    for f in list(cls.funcs()) + [g for g in ctx.p.all_funcs if g.module.relpath == RES and g.cls is None]:
        for node in walk_own(f.node):
            if isinstance(node, ast.Subscript) and isinstance(node.ctx, ast.Store):
                base = node.value
                bname = base.attr if isinstance(base, ast.Attribute) else (base.id if isinstance(base, ast.Name) else None)
                if bname not in shared:
                    continue
                st = _enclosing_assign(f, node)
                if st is None:
                    continue
                n += 1
                vdeps = _deps(f, st.value)
                kdeps = _deps(f, node.slice)
                missing = sorted(vdeps - kdeps)
                if missing:
                    ctx.viol("G2", f, st, "shared cache `%s`: the cached value depends on %s but the key only on %s — a later call that "
                             "differs in %s gets a value computed for another one (results depend on earlier calls)" % (
                                 bname, sorted(vdeps), sorted(kdeps), ", ".join(missing)),
                             construct="cache %s key %s misses %s" % (bname, norm(node.slice), ", ".join(missing)))
                else:
                    ctx.inst("G2", f, st, "shared cache %s: value inputs %s ⊆ key inputs %s" % (bname, sorted(vdeps), sorted(kdeps)))
    return n


def _glob_normaliser(ctx, f, e, pv):
    """the list walked by __glob is `out` of: out = []; for part in <split components>: [if part in <subset of ('', '.')>: continue]
    [if part == '**' and out and out[-1] == '**': continue] out.append(part) - nothing else (written in a private helper of
    the resolver or, after inlining, in glob itself)"""
    from ..model import Func, mangle, strip_doc
    from .common import resolve_local
    if isinstance(e, ast.Call) and isinstance(e.func, ast.Attribute) and len(e.args) == 1 and norm(e.args[0]) == pv and not e.keywords \
            and e.func.attr.startswith("__") and f.cls is not None:
        h = f.cls.members.get(mangle(f.cls.name, e.func.attr))
        if not isinstance(h, Func):
            return False
        body = strip_doc(h.node.body)
        prm = [q for q in h.posparams if q != h.selfname]
        if len(body) != 3 or len(prm) != 1 or not isinstance(body[2], ast.Return):
            return False
        ctx.touch(h)
        return _normaliser_loop(body[0], body[1], prm[0], norm(body[2].value))
    if isinstance(e, ast.Name):
        # one alias step at most (`result = out`)
        al = [x for x in walk_own(f.node) if isinstance(x, ast.Assign) and len(x.targets) == 1 and norm(x.targets[0]) == e.id]
        out = al[0].value.id if len(al) == 1 and isinstance(al[0].value, ast.Name) else e.id
        body = f.node.body
        inits = [i for i, st in enumerate(body) if isinstance(st, ast.Assign) and len(st.targets) == 1 and norm(st.targets[0]) == out]
        if len(inits) != 1 or inits[0] + 1 >= len(body):
            return False
        others = [x for x in walk_own(f.node) if isinstance(x, ast.Name) and x.id == out and isinstance(x.ctx, ast.Store)]
        if len(others) != 1:
            return False
        return _normaliser_loop(body[inits[0]], body[inits[0] + 1], pv, out)
    return False


def _normaliser_loop(init, loop, src, out):
    if not (isinstance(init, ast.Assign) and len(init.targets) == 1 and isinstance(init.targets[0], ast.Name) and isinstance(init.value, ast.List)
            and not init.value.elts and init.targets[0].id == out):
        return False
    if not (isinstance(loop, ast.For) and isinstance(loop.target, ast.Name) and norm(loop.iter) == src and not loop.orelse and loop.body):
        return False
    v = loop.target.id
    *skips, last = loop.body
    if " ".join(norm(last).split()) != "%s.append(%s)" % (out, v):
        return False
    for sk in skips:
        if not (isinstance(sk, ast.If) and not sk.orelse and len(sk.body) == 1 and isinstance(sk.body[0], ast.Continue)):
            return False
        t = sk.test
        if isinstance(t, ast.Compare) and len(t.ops) == 1 and isinstance(t.ops[0], ast.In) and norm(t.left) == v \
                and isinstance(t.comparators[0], (ast.Tuple, ast.List, ast.Set)) \
                and all(isinstance(x, ast.Constant) and x.value in ("", ".") for x in t.comparators[0].elts):
            continue
        if isinstance(t, ast.BoolOp) and isinstance(t.op, ast.And) and [" ".join(norm(x).split()) for x in t.values] in (
                ["%s == '**'" % v, out, "%s[-1] == '**'" % out], ["%s == '**'" % v, "%s[-1:] == ['**']" % out]):
            continue
        return False
    return True


def rule_R7_parts_unmodified(ctx, typer):
    """the components walked are exactly those produced by the start-up split: between `__start` and the walk the
    component list is neither rebuilt nor edited (every component is looked up; none is cancelled or skipped)"""
    cls, funcs = resolver_funcs(ctx.p)
    n = 0
    for fname in ("get", "glob"):
        f = funcs.get(fname)
        if f is None:
            raise AnalysisError("anchor Resolver.%s not found" % fname)
        partsvars = set()
        for node in walk_own(f.node):
            if isinstance(node, ast.Assign) and isinstance(node.value, ast.Call) and norm(node.value.func).endswith("__start") \
                    and isinstance(node.targets[0], ast.Tuple) and len(node.targets[0].elts) == 2 and isinstance(node.targets[0].elts[1], ast.Name):
                partsvars.add(node.targets[0].elts[1].id)
        if not partsvars:
            ctx.viol("R7", f, f.node, "%s does not obtain (node, components) from the start-up split" % fname, construct="Resolver.%s: no __start" % fname)
            continue
        pv = next(iter(partsvars))
        n += 1
        consumers = []
        for node in walk_own(f.node):
            if isinstance(node, ast.For) and isinstance(node.target, ast.Name) and any(
                    isinstance(c, ast.Call) and norm(c.func).endswith("__get") for c in ast.walk(node)):
                consumers.append(("loop", node.iter, node))
            if isinstance(node, ast.Call) and norm(node.func).endswith("__glob") and len(node.args) == 2:
                consumers.append(("glob", node.args[1], node))
        ok = bool(consumers) and all(isinstance(e, ast.Name) and e.id == pv for kind, e, node in consumers)
        if not ok and fname == "glob" and consumers and all(kind == "glob" and _glob_normaliser(ctx, f, e, pv) for kind, e, node in consumers):
            # glob may drop the components that stay at the current node ('' and '.') and collapse a run of ADJACENT '**'
            # before the walk: both denote the same nodes in the same order (for get the positions of '' matter: not accepted there)
            ok = True
            ctx.notes.append("R7: glob walks the split components minus ''/'.' and with adjacent '**' collapsed (table of two idioms)")
        edits = [x for x in walk_own(f.node) if (isinstance(x, ast.Call) and isinstance(x.func, ast.Attribute) and isinstance(x.func.value, ast.Name)
                                                  and x.func.value.id == pv and x.func.attr in T.MUTATING_METHODS)
                 or (isinstance(x, ast.Assign) and any(isinstance(t, ast.Name) and t.id == pv for t in x.targets) and not norm(x.value.func if isinstance(x.value, ast.Call) else x.value).endswith("__start"))]
        if ok and not edits:
            ctx.inst("R7", f, f.node.name, "walks the component list of the start-up split unmodified")
        else:
            where = edits[0] if edits else f.node
            ctx.viol("R7", f, where, "%s does not walk the component list produced by the start-up split as it is (it is rebuilt, filtered "
                     "or edited first): a component can be cancelled or skipped without being looked up" % fname,
                     construct="Resolver.%s: components not walked as split" % fname)
    return n


def rule_G2_G3(ctx, typer):
    cls, funcs = resolver_funcs(ctx.p)
    ma = funcs.get("__match")
    n = 0
    stores, loads, clears, others = [], [], [], []
    for f in ctx.p.all_funcs:
        for node in walk_own(f.node):
            if isinstance(node, ast.Subscript) and _is_cache(node.value):
                (stores if isinstance(node.ctx, (ast.Store, ast.Del)) else loads).append((f, node))
            elif isinstance(node, ast.Call) and isinstance(node.func, ast.Attribute) and _is_cache(node.func.value):
                if node.func.attr == "clear":
                    clears.append((f, node))
                elif node.func.attr in T.MUTATING_METHODS:
                    others.append((f, node))
            elif isinstance(node, ast.Attribute) and node.attr == "_match_cache" and isinstance(node.ctx, (ast.Store, ast.Del)):
                others.append((f, node))
    if not stores or not loads:
        raise AnalysisError("anchor: no store/load of Resolver._match_cache found")
    # the cache belongs to the private machinery of Resolver: the name-mangled methods that store compiled patterns in it
    # (on the pinned tree: __match; a helper split off it, or inlined into its callers, is the same machinery)
    owners = []
    for f, node in stores:
        if f.cls is not None and f.cls.name == "Resolver" and f.srcname.startswith("__") and not f.srcname.endswith("__") and f not in owners:
            owners.append(f)
    for f, node in stores + clears + others:
        n += 1
        if f not in owners:
            ctx.viol("G3", f, node, "the shared pattern cache is mutated outside the private pattern machinery of Resolver (%s)" % (
                ", ".join(o.srcname for o in owners) or "no private method stores to it"))
    if not owners:
        return n
    for ma in owners:
        n += _g2_g3_owner(ctx, typer, ma, stores, loads, clears, others)
    n += _g2_new_options(ctx)
    return n


def _g2_new_options(ctx):
    """The cache is shared by all resolvers.  A NEW constructor option (analysed at its default everywhere else, see
    sa/newoptions.py) that the cached value depends on must be part of the key, or a resolver that does not use the option
    is served a pattern compiled for one that does.  Checked on the source as written (before the option is specialised)."""
    import os
    opts = []
    for item in ctx.p.inlined.get(RES, {}).get("new_options_at_default", []):
        if item.startswith("Resolver.__init__(") and "+self." in item:
            opts.append(item.split("+self.")[1].strip())
    if not opts:
        return 0
    try:
        raw = ast.parse(open(os.path.join(ctx.p.repo, RES), encoding="utf-8").read())
    except (OSError, SyntaxError):
        return 0
    n = 0
    for fn in [x for x in ast.walk(raw) if isinstance(x, ast.FunctionDef)]:
        stores = [x for x in ast.walk(fn) if isinstance(x, ast.Subscript) and isinstance(x.ctx, ast.Store) and isinstance(x.value, ast.Attribute)
                  and x.value.attr == "_match_cache"]
        if not stores:
            continue
        selfname = fn.args.args[0].arg if fn.args.args else "self"
        used = {x.attr for x in ast.walk(fn) if isinstance(x, ast.Attribute) and isinstance(x.value, ast.Name) and x.value.id == selfname}
        for st in stores:
            key = st.slice
            if isinstance(key, ast.Name):
                defs = [a for a in ast.walk(fn) if isinstance(a, ast.Assign) and any(isinstance(t, ast.Name) and t.id == key.id for t in a.targets)]
                key = defs[0].value if len(defs) == 1 else key
            in_key = {x.attr for x in ast.walk(key) if isinstance(x, ast.Attribute) and isinstance(x.value, ast.Name) and x.value.id == selfname}
            for o in opts:
                n += 1
                if o in used and o not in in_key:
                    f = next((g for g in ctx.p.all_funcs if g.module.relpath == RES and g.srcname == fn.name), None)
                    ctx.viol("G2", f, f.node if f is not None else None, "%s reads the new option self.%s while it fills the pattern cache that all "
                             "resolvers share, but the cache key (`%s`) does not contain it: a resolver that leaves the option at its default is "
                             "served patterns compiled for one that sets it" % (fn.name, o, ast.unparse(key)),
                             construct="cache key misses new option %s" % o)
                elif o in used:
                    ctx.inst("G2", next((g for g in ctx.p.all_funcs if g.module.relpath == RES and g.srcname == fn.name), None), "key", "new option %s is part of the cache key" % o)
    return n


def _g2_g3_owner(ctx, typer, ma, stores, loads, clears, others):
    n = 0
    for f, node in others:
        if f is ma:
            ctx.viol("G3", f, node, "the shared pattern cache is mutated by something other than the keyed store and the size-bounded clear()")
    # G2: key completeness
    for f, node in stores:
        if f is not ma:
            continue
        st = _enclosing_assign(ma, node)
        if st is None:
            raise AnalysisError("cache store is not an assignment")
        n += 1
        vdeps = _deps(ma, st.value)
        kdeps = _deps(ma, node.slice)
        missing = sorted(vdeps - kdeps)
        if missing:
            ctx.viol("G2", ma, st, "cached value depends on %s but the cache key only on %s: a resolver with another setting of "
                     "%s gets a pattern compiled for the wrong one" % (sorted(vdeps), sorted(kdeps), ", ".join(missing)),
                     construct="cache key %s misses %s" % (norm(node.slice), ", ".join(missing)))
        else:
            ctx.inst("G2", ma, st, "value inputs %s ⊆ key inputs %s" % (sorted(vdeps), sorted(kdeps)))
        for lf, ln in loads:
            n += 1
            if lf is ma and norm(ln.slice) != norm(node.slice):
                ctx.viol("G2", ma, ln, "cache is read with key `%s` but written with key `%s`" % (norm(ln.slice), norm(node.slice)))
            elif lf is ma:
                ctx.inst("G2", ma, ln, "lookup uses the same key as the store")
    # G3: clear() is size-guarded, precedes the store, result returned from the local
    cfg = typer.cfg_of(ma)
    for f, node in clears:
        if f is not ma:
            continue
        n += 1
        cns = _stmt_cfg_nodes(cfg, ma, node)
        ok = bool(cns)
        for cn in cns:
            gs = cfg.guards_of(cn)
            if not any(o is True and _is_size_test(c) and "_MAXCACHE" in norm(c) for c, o, _ in gs):
                ok = False
            for sf, sn in stores:
                for scn in _stmt_cfg_nodes(cfg, ma, sn):
                    if cfg.can_reach(scn, cn):
                        ok = False
        if ok:
            ctx.inst("G3", ma, node, "clear() guarded by the size bound and before the store of the new pattern")
        else:
            ctx.viol("G3", ma, node, "cache eviction is not (a) guarded by the _MAXCACHE size test and (b) before the store of the "
                     "freshly compiled pattern: eviction becomes observable")
    for node in walk_own(ma.node):
        if isinstance(node, ast.Return) and node.value is not None:
            n += 1
            if any(_is_cache(x) for x in ast.walk(node.value)):
                ctx.viol("G3", ma, node, "result is re-read from the cache (which may just have been cleared) instead of the local")
            else:
                ctx.inst("G3", ma, node, "result computed from the local compiled pattern")
    return n


def _is_cache(e):
    return isinstance(e, ast.Attribute) and e.attr == "_match_cache"


def _enclosing_assign(func, target):
    for node in walk_own(func.node):
        if isinstance(node, ast.Assign):
            for t in node.targets:
                if t is target:
                    return node
    return None


# ---------------------------------------------------------------------- G4
def rule_G4_handlers(ctx, funcs):
    n = 0
    for f in funcs:
        for node in walk_own(f.node):
            if isinstance(node, ast.ExceptHandler):
                n += 1
                if node.type is None:
                    names = ["<bare>"]
                else:
                    names = [norm(e).split(".")[-1] for e in (node.type.elts if isinstance(node.type, ast.Tuple) else [node.type])]
                bad = [x for x in names if x not in ERR_CLASSES and x != "KeyError"]
                if bad:
                    ctx.viol("G4", f, node, "handler catches %s: errors other than resolver dead ends below a wildcard are swallowed" % bad,
                             construct="except %s" % ", ".join(names))
                else:
                    ctx.inst("G4", f, "except %s" % ", ".join(names), "catches only resolver errors / the cache miss")
    return n


# ---------------------------------------------------------------------- R6
def rule_R6_string_compare(ctx, typer, funcs):
    """names are compared 'as a string': the value handed to a comparator
    (__cmp, __match, cmp_) as the node's name is str-typed (read through the
    str()-coercing helper), so get and glob agree and no str method fails"""
    from ..nodetype import STR
    n = 0
    for f in funcs:
        ft = typer.results.get(f)
        if ft is None or f.cls is None or f.cls.name != "Resolver":
            continue
        for node in walk_own(f.node):
            if isinstance(node, ast.Call) and node.args and (
                    (isinstance(node.func, ast.Attribute) and node.func.attr in ("__cmp", "__match") and norm(node.func.value) == f.selfname)
                    or (isinstance(node.func, ast.Name) and node.func.id == "cmp_")):
                a0 = node.args[0]
                t = ft.type_of(a0)
                n += 1
                if t == STR:
                    ctx.inst("R6", f, node, "node name compared as a string (str-typed)")
                else:
                    from ..nodetype import show
                    ctx.viol("R6", f, node, "the node's name reaches the comparison as `%s` (type %s), not through the str()-coercing "
                             "accessor: non-string names (ints, enums) no longer resolve, and str methods may raise" % (norm(a0), show(t)))
            elif isinstance(node, ast.Call) and isinstance(node.func, ast.Attribute) and node.func.attr in ("match", "fullmatch") \
                    and len(node.args) == 1 and not (isinstance(node.func.value, ast.Name) and node.func.value.id == "re"):
                # the pattern applied directly: `<compiled>.match(name)`
                a0 = node.args[0]
                t = ft.type_of(a0)
                n += 1
                if t == STR:
                    ctx.inst("R6", f, node, "node name matched as a string (str-typed)")
                else:
                    from ..nodetype import show
                    ctx.viol("R6", f, node, "the node's name reaches the pattern match as `%s` (type %s), not as a string: non-string names "
                             "(ints, enums) make the match raise" % (norm(a0), show(t)))
            elif isinstance(node, ast.Compare) and len(node.ops) == 1 and isinstance(node.ops[0], (ast.Eq, ast.NotEq)):
                # the comparator written out: `_getattr(child, attr) == name`, `_getattr(child, attr).upper() == name`
                for side in (node.left, node.comparators[0]):
                    base = side
                    while isinstance(base, ast.Call) and isinstance(base.func, ast.Attribute) and base.func.attr in ("upper", "lower", "casefold"):
                        base = base.func.value
                    if isinstance(base, ast.Call) and isinstance(base.func, ast.Name) and base.func.id == "_getattr":
                        t = ft.type_of(base)
                        n += 1
                        if t == STR:
                            ctx.inst("R6", f, node, "node name compared as a string (str-typed)")
                        else:
                            from ..nodetype import show
                            ctx.viol("R6", f, node, "the node's name reaches the comparison as `%s` (type %s), not as a string: non-string "
                                     "names (ints, enums) no longer resolve, and str methods may raise" % (norm(base), show(t)))
    return n


# ---------------------------------------------------------------------- G6
def rule_G6_no_extra_pruning(ctx, typer):
    """in __find every child whose name matches contributes: on every normal
    path from `match is true` back to the loop head the child is appended or
    recursed into — no shortcut skips matching children"""
    cls, funcs = resolver_funcs(ctx.p)
    f = funcs.get("__find")
    if f is None:
        raise AnalysisError("anchor Resolver.__find not found")
    cfg = typer.cfg_of(f)
    acc = set()
    for r in walk_own(f.node):
        if isinstance(r, ast.Return) and isinstance(r.value, ast.Name):
            acc.add(r.value.id)
    adders = []
    for cn in cfg.nodes:
        if cn.kind != "stmt":
            continue
        a = cn.ast
        if isinstance(a, ast.AugAssign) and isinstance(a.target, ast.Name) and a.target.id in acc:
            adders.append(cn)
        elif isinstance(a, ast.Expr) and isinstance(a.value, ast.Call) and isinstance(a.value.func, ast.Attribute) \
                and a.value.func.attr in ("append", "extend") and norm(a.value.func.value) in acc:
            adders.append(cn)
        elif isinstance(a, ast.Assign) and any(isinstance(t, ast.Name) and t.id in acc for t in a.targets) and not (isinstance(a.value, ast.List) and not a.value.elts):
            adders.append(cn)
    n = 0

    def is_match(c):
        """the name is matched against the pattern: `self.__match(name, pat)` or `<compiled>.match(name) is not None`"""
        if isinstance(c, ast.Call) and norm(c.func).endswith("__match"):
            return True
        return isinstance(c, ast.Compare) and len(c.ops) == 1 and isinstance(c.ops[0], ast.IsNot) and isinstance(c.comparators[0], ast.Constant) \
            and c.comparators[0].value is None and isinstance(c.left, ast.Call) and isinstance(c.left.func, ast.Attribute) \
            and c.left.func.attr in ("match", "fullmatch") and len(c.left.args) == 1
    guards = [g for g in cfg.nodes if g.kind == "guard" and g.outcome is True and is_match(g.cond)]
    heads = [h for h in cfg.nodes if h.kind == "fornext"]
    if not guards or not heads or not adders:
        raise AnalysisError("anchor: match guard / result accumulation in Resolver.__find not found")
    match_tests = [t for t in cfg.nodes if t.kind == "test" and is_match(t.cond)]
    for li in [x for x in cfg.nodes if x.kind == "loopin"]:
        hs = [h for h in heads if h.ast is li.ast]
        if not hs or not any(cfg.dominates(li, t) for t in match_tests):
            continue
        n += 1
        reach = cfg.reach_from(li, avoid=match_tests, labels_excluded=("exc",))
        # skipping a child because it has no children (it cannot carry the remaining components) is a pruning whose
        # correctness depends on those components: not decided here
        leaf_guards = [g for g in cfg.nodes if g.kind == "guard" and g.id in reach and cfg.dominates(li, g) and any(
            isinstance(x, ast.Attribute) and x.attr in ("children", "is_leaf") and isinstance(x.value, ast.Name) and x.value.id == getattr(li.ast.target, "id", None)
            for x in ast.walk(g.cond))]
        if (any(h.id in reach for h in hs) or cfg.exit.id in reach) and leaf_guards:
            reach2 = cfg.reach_from(li, avoid=match_tests + leaf_guards, labels_excluded=("exc",))
            if not (any(h.id in reach2 for h in hs) or cfg.exit.id in reach2):
                from .common import resolve_local as _rl
                conds = [_rl(f, g_.cond) for g_ in cfg.nodes if g_.kind == "guard" and g_.id in reach and cfg.dominates(li, g_)]
                looks_inside = any(isinstance(x, ast.Subscript) or (isinstance(x, ast.Compare) and any(isinstance(o_, (ast.In, ast.NotIn, ast.Eq, ast.NotEq)) for o_ in x.ops))
                                   for c_ in conds for x in ast.walk(c_))
                if not looks_inside:
                    ctx.viol("G6", f, leaf_guards[0].cond, "childless children are skipped before matching whenever further components follow, without "
                             "looking at those components: '', '.', '..' and '**' are satisfied at a leaf, so nodes the pattern denotes are lost",
                             construct="__find: leaves skipped before matching")
                    continue
                ctx.extra.setdefault("undecided", []).append("G6: Resolver.__find skips childless children before matching (`%s`): whether such a child "
                                                             "could still be a result depends on the remaining components and is not followed" % norm(leaf_guards[0].cond)[:60])
                continue
        if any(h.id in reach for h in hs) or cfg.exit.id in reach:
            ctx.viol("G6", f, li.ast.target, "a child can be skipped before its name is even matched against the pattern: the result no "
                     "longer contains exactly the nodes the pattern denotes", construct="__find: child skipped before matching")
        else:
            ctx.inst("G6", f, li.ast.target, "every child is matched against the pattern")
    for g in guards:
        n += 1
        reach = cfg.reach_from(g, avoid=adders, labels_excluded=("exc",))
        skipped = [h for h in heads if h.id in reach] + ([cfg.exit] if cfg.exit.id in reach else [])
        if skipped:
            ctx.viol("G6", f, g.cond, "a child whose name matches the pattern can be skipped: some path from the successful match to the "
                     "next child neither records it nor descends into it — the result no longer contains exactly the nodes the pattern denotes",
                     construct="__find: matching child skipped on some path")
        else:
            ctx.inst("G6", f, g.cond, "every matching child is recorded or descended into")
    return n


# ---------------------------------------------------------------------- R8
def rule_R8_split_unfiltered(ctx, typer):
    """the components come from `path.split(<the node's separator>)` as they are: in the start-up code the component
    list is only shortened at the front (pop(0) / slicing) for the root component — never filtered or rebuilt, so empty
    and '.' components keep their positions (a doubled leading separator stays an error)"""
    from .common import resolve_local
    cls, funcs = resolver_funcs(ctx.p)
    f = funcs.get("__start")
    if f is None:
        raise AnalysisError("anchor Resolver.__start not found")
    n = 0
    splits = [c for c in walk_own(f.node) if isinstance(c, ast.Call) and isinstance(c.func, ast.Attribute) and c.func.attr == "split"]
    # stripping with the separator as argument removes CHARACTERS of the separator, not one leading separator
    for c in walk_own(f.node):
        if isinstance(c, ast.Call) and isinstance(c.func, ast.Attribute) and c.func.attr in ("lstrip", "strip", "rstrip") and len(c.args) == 1:
            a_ = resolve_local(f, c.args[0])
            if isinstance(a_, ast.Attribute) and a_.attr == "separator":
                ctx.viol("R8", f, c, "`%s` strips every leading/trailing character that occurs in the separator, not one occurrence of the "
                         "separator: a doubled leading separator is swallowed and names that begin with such a character are damaged" % norm(c),
                         construct="__start: %s(separator)" % c.func.attr)
                return 1
    parts_ = [c for c in walk_own(f.node) if isinstance(c, ast.Call) and isinstance(c.func, ast.Attribute) and c.func.attr in ("partition", "rpartition")]
    if parts_ and len(splits) != 1:
        ctx.extra.setdefault("undecided", []).append("R8: Resolver.__start takes the root component with partition() and splits the rest separately: "
                                                     "that this equals one split of the whole path is not followed")
        return 1
    if not splits:
        # the path handed to a private helper of the resolver that does the splitting (and may drop no-op components, cache ...)
        pathp_ = [q for q in f.posparams if q not in (f.selfname,)][1] if len(f.posparams) > 2 else "path"
        helpers_ = [c for c in walk_own(f.node) if isinstance(c, ast.Call) and isinstance(c.func, ast.Attribute) and c.func.attr.startswith("__")
                    and any(isinstance(a, ast.Name) and a.id == pathp_ for a in c.args)]
        if helpers_:
            ctx.extra.setdefault("undecided", []).append("R8: Resolver.__start hands the path to `%s`, which parses it: what that helper does to the "
                                                         "components is not followed" % norm(helpers_[0].func))
            return 1
    if len(splits) != 1:
        ctx.viol("R8", f, f.node, "the path is not split exactly once into its components", construct="__start: %d split calls" % len(splits))
        return 1
    sp = splits[0]
    pathp = [q for q in f.posparams if q not in (f.selfname,)][1] if len(f.posparams) > 2 else "path"
    n += 1
    ok_split = norm(sp.func.value) == pathp and len(sp.args) == 1
    if ok_split:
        sep = resolve_local(f, sp.args[0])
        nodep = [q for q in f.posparams if q != f.selfname][0] if len(f.posparams) > 1 else "node"
        ok_split = isinstance(sep, ast.Attribute) and sep.attr == "separator" and norm(sep.value) == nodep
    if ok_split:
        ctx.inst("R8", f, sp, "components = path.split(node.separator)")
    else:
        ctx.viol("R8", f, sp, "the path is not split on the node's own separator: `%s`" % norm(sp))
    var = None
    for node in walk_own(f.node):
        if isinstance(node, ast.Assign) and node.value is sp and isinstance(node.targets[0], ast.Name):
            var = node.targets[0].id
    if var is None:
        n += 1
        holder = next((x for x in walk_own(f.node) if isinstance(x, (ast.ListComp, ast.GeneratorExp, ast.Call)) and x is not sp
                       and any(y is sp for y in ast.walk(x))), sp)
        ctx.viol("R8", f, holder, "the split components are processed before they are used (`%s`): empty / '.' components lose their "
                 "position, so malformed absolute paths resolve instead of failing" % " ".join(norm(holder).split())[:90])
        return n
    for node in walk_own(f.node):
        bad = None
        if isinstance(node, ast.Assign) and any(isinstance(t, ast.Name) and t.id == var for t in node.targets) and node.value is not sp:
            v = node.value
            if not (isinstance(v, ast.Subscript) and isinstance(v.slice, ast.Slice) and norm(v.value) == var):
                bad = node
        if isinstance(node, ast.Call) and isinstance(node.func, ast.Attribute) and norm(node.func.value) == var and node.func.attr in T.MUTATING_METHODS:
            if not (node.func.attr == "pop" and len(node.args) == 1 and isinstance(node.args[0], ast.Constant) and node.args[0].value == 0):
                bad = node
        if isinstance(node, (ast.ListComp, ast.GeneratorExp)) and any(norm(g.iter) == var for g in node.generators):
            bad = node
        if isinstance(node, ast.Call) and isinstance(node.func, ast.Name) and node.func.id in ("filter", "map") and any(norm(a) == var for a in node.args):
            bad = node
        if bad is not None:
            n += 1
            ctx.viol("R8", f, bad, "the component list is rebuilt or filtered in the start-up code (`%s`): empty / '.' components lose their "
                     "position, so malformed absolute paths resolve instead of failing" % " ".join(norm(bad).split())[:80])
    rets = [r for r in walk_own(f.node) if isinstance(r, ast.Return) and isinstance(r.value, ast.Tuple) and len(r.value.elts) == 2]
    for r in rets:
        e = r.value.elts[1]
        if isinstance(e, ast.Constant) and e.value is None:
            continue
        n += 1
        if (isinstance(e, ast.Name) and e.id == var) or (isinstance(e, ast.Subscript) and isinstance(e.slice, ast.Slice) and norm(e.value) == var):
            ctx.inst("R8", f, r, "returns the split components (front-shortened only)")
        else:
            ctx.viol("R8", f, r, "the components returned are `%s`, not the split list" % norm(e))
    return n


# ---------------------------------------------------------------------- R9
def _component_constraint(guards, var):
    """what the dominating guards say about the component variable: (P, N) with P the set it must be in (None: no
    positive test) and N the set of values excluded"""
    P, N = None, set()
    for c, o, _ in guards:
        if not (isinstance(c, ast.Compare) and len(c.ops) == 1):
            continue
        l, r, op = c.left, c.comparators[0], c.ops[0]
        vals = None
        if isinstance(l, ast.Name) and l.id == var:
            if isinstance(op, (ast.Eq, ast.NotEq)) and isinstance(r, ast.Constant) and isinstance(r.value, str):
                vals = {r.value}
            elif isinstance(op, (ast.In, ast.NotIn)) and isinstance(r, (ast.Tuple, ast.List, ast.Set)) and all(
                    isinstance(e, ast.Constant) and isinstance(e.value, str) for e in r.elts):
                vals = {e.value for e in r.elts}
        elif isinstance(r, ast.Name) and r.id == var and isinstance(op, (ast.Eq, ast.NotEq)) and isinstance(l, ast.Constant) \
                and isinstance(l.value, str):
            vals = {l.value}
        if vals is None:
            continue
        positive = isinstance(op, (ast.Eq, ast.In)) == bool(o)
        if positive:
            P = vals if P is None else (P & vals)
        else:
            N |= vals
    if P is not None:
        P = P - N
    return P, N


def _fanout_direct_find(f, cfg, cn, c, nodep):
    """`__find(sub, S, R)` with sub the loop variable of `for sub in PreOrderIter(node)`, S = REM[0], R = REM[1:], REM the list
    the sibling `__glob(sub, REM)` gets, on a path whose guards exclude '', '.', '..' and '**' for S (is_wildcard(S) false
    excludes '**'), inside a try that drops ChildResolverError"""
    from .common import resolve_local
    loops = [x for x in walk_own(f.node) if isinstance(x, ast.For) and isinstance(x.target, ast.Name) and isinstance(x.iter, ast.Call)
             and norm(x.iter.func) == "PreOrderIter" and x.iter.args and norm(x.iter.args[0]) == nodep and any(y is c for y in ast.walk(x))]
    if len(loops) != 1 or norm(c.args[0]) != loops[0].target.id:
        return False
    sib = [g for g in ast.walk(loops[0]) if isinstance(g, ast.Call) and norm(g.func).endswith("__glob") and len(g.args) == 2
           and norm(g.args[0]) == loops[0].target.id]
    if len(sib) != 1:
        return False
    rem = norm(sib[0].args[1])
    s_, r_ = resolve_local(f, c.args[1]), resolve_local(f, c.args[2])
    if isinstance(s_, ast.IfExp) and norm(s_.test) == rem:
        s_ = s_.body  # `REM[0] if REM else ''`
    if norm(s_) != "%s[0]" % rem or norm(r_) != "%s[1:]" % rem or not isinstance(c.args[1], ast.Name):
        return False
    sv = c.args[1].id
    tries = [t for t in ast.walk(loops[0]) if isinstance(t, ast.Try) and any(y is c for b in t.body for y in ast.walk(b))
             and any(h.type is not None and norm(h.type) == "ChildResolverError" for h in t.handlers)]
    if not tries:
        return False
    excluded = set()

    def visit(cond, outcome, depth=0):
        if depth > 4:
            return
        if isinstance(cond, ast.Name):
            r = resolve_local(f, cond)
            if r is not cond:
                visit(r, outcome, depth + 1)
            return
        if isinstance(cond, ast.UnaryOp) and isinstance(cond.op, ast.Not):
            visit(cond.operand, not outcome, depth + 1)
            return
        if isinstance(cond, ast.BoolOp) and ((isinstance(cond.op, ast.And) and outcome) or (isinstance(cond.op, ast.Or) and not outcome)):
            for v in cond.values:
                visit(v, outcome, depth + 1)
            return
        if isinstance(cond, ast.Call) and norm(cond.func).endswith("is_wildcard") and len(cond.args) == 1 and norm(cond.args[0]) == sv and not outcome:
            excluded.add("**")
            return
        P, N = _component_constraint([(cond, outcome, None)], sv)
        if P is None:
            excluded.update(N)
    for g_, o_, _n in cfg.guards_of(cn):
        visit(g_, o_)
    return {"", ".", "..", "**"} <= excluded


def rule_R9_component_dispatch(ctx, typer, which):
    """each path component is interpreted as specified: '..' moves to the parent, '' and '.' stay, any other component is
    looked up among the children (get: the walk loop; glob: the recursive descent, where '**' additionally fans out
    over the subtree).  Decided on the CFG: every step is classified by what it assigns/passes on, its dominating
    tests on the component must select exactly the components that step is specified for, and every path of a
    selected component performs its step before the next component is taken."""
    from .common import expand_straightline
    cls, funcs = resolver_funcs(ctx.p)
    n = 0
    SPECIAL = {"..", "", "."}
    if which == "get":
        f = funcs.get("get")
        cfg = typer.cfg_of(f)
        loops = [x for x in walk_own(f.node) if isinstance(x, ast.For) and isinstance(x.target, ast.Name)
                 and any(isinstance(c, ast.Call) and norm(c.func).endswith("__get") for c in ast.walk(x))]
        rets = [r for r in walk_own(f.node) if isinstance(r, ast.Return) and isinstance(r.value, ast.Name)]
        if len(loops) != 1 or not rets:
            raise AnalysisError("anchor: the component walk loop of Resolver.get not found")
        loop = loops[0]
        part = loop.target.id
        nodevar = rets[-1].value.id
        inside = {id(x) for s_ in loop.body for x in ast.walk(s_)}
        ups, childs = [], []
        for cn in cfg.stmt_nodes(("stmt",)):
            a = cn.ast
            if id(a) not in inside or not isinstance(a, ast.Assign):
                continue
            if not any(isinstance(t, ast.Name) and t.id == nodevar for t in a.targets):
                continue
            n += 1
            rhs = expand_straightline(cn, a.value)
            P, N = _component_constraint(cfg.guards_of(cn), part)
            if isinstance(rhs, ast.Attribute) and rhs.attr == "parent" and norm(rhs.value) == nodevar:
                ups.append(cn)
                if P == {".."}:
                    ctx.inst("R9", f, a, "'..' moves to the parent")
                else:
                    ctx.viol("R9", f, a, "the step to the parent is taken for components %s, not exactly for '..'" % (
                        sorted(P) if P is not None else "other than %s" % sorted(N)))
            elif isinstance(rhs, ast.Call) and norm(rhs.func).endswith("__get") and len(rhs.args) >= 2 and norm(rhs.args[-2]) == nodevar \
                    and norm(rhs.args[-1]) == part:
                childs.append(cn)
                if P is None and N == SPECIAL:
                    ctx.inst("R9", f, a, "every component other than '..', '', '.' is looked up among the children")
                else:
                    ctx.viol("R9", f, a, "the child lookup is performed for components %s; specified: every component except "
                             "'..', '' and '.'" % (sorted(P) if P is not None else "other than %s" % sorted(N)))
            else:
                ctx.viol("R9", f, a, "the current node is replaced by `%s` inside the walk: not one of the specified steps (parent "
                         "for '..', child lookup otherwise)" % norm(rhs))
        heads = [h for h in cfg.nodes if h.kind == "fornext" and h.ast is loop]
        # every path of a '..' component reaches its step (or leaves) before the next component
        for kind, want, steps in (("'..'", "up", ups), ("a child name", "child", childs)):
            starts = []
            for g in cfg.nodes:
                if g.kind != "guard" or id(g.cond) not in inside and not any(id(x) in inside for x in ast.walk(g.cond)):
                    continue
                P, N = _component_constraint(cfg.guards_of(g) + [(g.cond, g.outcome, g)], part)
                Pb, Nb = _component_constraint(cfg.guards_of(g), part)
                if want == "up" and P == {".."} and Pb != {".."}:
                    starts.append(g)
                if want == "child" and P is None and N == SPECIAL and Nb != SPECIAL:
                    starts.append(g)
            n += 1
            if not starts:
                ctx.viol("R9", f, loop, "no path of the walk is selected for %s (tests on the component: none establishes it)" % kind,
                         construct="Resolver.get: no branch for %s" % kind)
                continue
            for g in starts:
                reach = cfg.reach_from(g, avoid=steps, labels_excluded=("exc",))
                if any(h.id in reach for h in heads):
                    ctx.viol("R9", f, g.cond, "for %s a path takes the next component without %s" % (
                        kind, "moving to the parent" if want == "up" else "looking the component up"),
                        construct="Resolver.get: %s path skips its step" % kind)
                else:
                    ctx.inst("R9", f, g.cond, "%s: step performed on every path" % kind)
        return n
    # ---- glob
    f = funcs.get("__glob")
    if f is None:
        raise AnalysisError("anchor Resolver.__glob not found")
    cfg = typer.cfg_of(f)
    nodep, partsp = f.posparams[1], f.posparams[2]
    comp = None
    for a in walk_own(f.node):
        if isinstance(a, ast.Assign) and len(a.targets) == 1 and isinstance(a.targets[0], ast.Name) and isinstance(a.value, ast.Subscript) \
                and norm(a.value.value) == partsp and isinstance(a.value.slice, ast.Constant) and a.value.slice.value == 0:
            comp = a.targets[0].id
    if comp is None:
        raise AnalysisError("anchor: first component of Resolver.__glob not found")
    seen = {"up": 0, "stay": 0, "fan": 0, "find": 0}
    for cn in cfg.nodes:
        root = cn.cond if cn.kind == "test" else (cn.ast.iter if cn.kind == "foriter" else cn.ast)
        if root is None or cn.kind in ("guard", "entry", "exit", "loopin", "loopdone", "fornext", "tryenter", "dispatch", "handler"):
            continue
        if isinstance(root, (ast.If, ast.For, ast.While, ast.Try, ast.With)):
            continue
        for c in ast.walk(root):
            if not isinstance(c, ast.Call):
                continue
            fn = norm(c.func)
            if fn.endswith("__glob") and len(c.args) == 2:
                arg = expand_straightline(cn, c.args[0])
                P, N = _component_constraint(cfg.guards_of(cn), comp)
                n += 1
                if isinstance(arg, ast.Attribute) and arg.attr == "parent" and norm(arg.value) == nodep:
                    seen["up"] += 1
                    ok, want = P == {".."}, "'..'"
                elif isinstance(arg, ast.Name) and arg.id == nodep:
                    seen["stay"] += 1
                    ok, want = P == {"", "."}, "'' and '.'"
                else:
                    # fan-out over the subtree ('**') or descent below a matching child (inside __find)
                    loopvars = {x.target.id for x in walk_own(f.node) if isinstance(x, ast.For) and isinstance(x.target, ast.Name)
                                and isinstance(x.iter, ast.Call) and norm(x.iter.func) == "PreOrderIter" and x.iter.args
                                and norm(x.iter.args[0]) == nodep}
                    if isinstance(arg, ast.Name) and arg.id in loopvars:
                        seen["fan"] += 1
                        ok, want = P == {"**"}, "'**'"
                    else:
                        ok, want = False, "a specified step"
                if ok:
                    ctx.inst("R9", f, c, "recursion on %s exactly for %s" % (norm(arg), want))
                else:
                    ctx.viol("R9", f, c, "the descent continues at `%s` for components %s; specified for this step: %s" % (
                        norm(arg), sorted(P) if P is not None else "other than %s" % sorted(N), want))
            elif fn.endswith("__find") and len(c.args) == 3:
                P, N = _component_constraint(cfg.guards_of(cn), comp)
                n += 1
                seen["find"] += 1
                if P is None and N == SPECIAL | {"**"} and norm(c.args[0]) == nodep and norm(c.args[1]) == comp:
                    ctx.inst("R9", f, c, "every other component is matched against the children")
                elif _fanout_direct_find(f, cfg, cn, c, nodep):
                    # inside the '**' fan-out: __find(subnode, REM[0], REM[1:]) in place of __glob(subnode, REM) when REM[0] is an
                    # ordinary component - what __glob would do next, minus an error that the fan-out drops anyway
                    ctx.inst("R9", f, c, "'**' fan-out: the next ordinary component is matched against the children of the subtree node directly")
                else:
                    ctx.viol("R9", f, c, "children are matched for components %s; specified: every component except '..', '', '.', '**'" % (
                        sorted(P) if P is not None else "other than %s" % sorted(N)))
    for k, v in seen.items():
        if not v:
            ctx.viol("R9", f, f.node, "Resolver.__glob has no %s step" % {"up": "'..' (parent)", "stay": "''/'.' (stay)",
                                                                          "fan": "'**' (subtree)", "find": "child matching"}[k],
                     construct="Resolver.__glob: no %s step" % k)
    return n


def rule_R11_attr_value_truth(ctx, typer):
    """the value of the path attribute is only ever turned into a string: it is never tested for truth (`x or default`,
    `if x`, `not x`) - a node whose attribute is 0, '' or an empty container is named by that value like any other"""
    from .common import straightline_value
    n = 0
    for f in [g for g in ctx.p.all_funcs if g.module.relpath == RES]:
        cfg = typer.cfg_of(f) if not f.is_lambda else None

        def is_attr_read(e, depth=0):
            if isinstance(e, ast.Call) and isinstance(e.func, ast.Name) and e.func.id == "getattr" and len(e.args) >= 2 \
                    and not isinstance(e.args[1], ast.Constant):
                return True
            if isinstance(e, ast.Name) and cfg is not None and depth < 3:
                from .common import cfg_nodes_containing
                for h in cfg_nodes_containing(cfg, e):
                    v = straightline_value(h, e.id)
                    if v is not None and is_attr_read(v, depth + 1):
                        return True
            return False
        for node in walk_own(f.node):
            tests = []
            if isinstance(node, ast.BoolOp):
                tests = list(node.values[:-1])
            elif isinstance(node, (ast.If, ast.While, ast.IfExp)):
                tests = [node.test]
            elif isinstance(node, ast.UnaryOp) and isinstance(node.op, ast.Not):
                tests = [node.operand]
            elif isinstance(node, ast.comprehension):
                tests = list(node.ifs)
            for t in tests:
                if is_attr_read(t):
                    n += 1
                    ctx.viol("R11", f, node, "the path attribute value `%s` is tested for truth: a node whose attribute is 0, '' or "
                             "empty is treated as if it had none, so its own path no longer resolves to it" % norm(t))
        for node in walk_own(f.node):
            if isinstance(node, ast.Call) and isinstance(node.func, ast.Name) and node.func.id == "getattr" and len(node.args) >= 2 \
                    and not isinstance(node.args[1], ast.Constant):
                n += 1
                ctx.inst("R11", f, node, "attribute value read")
    return n


# ---------------------------------------------------------------------- G7
def rule_G7_fanout_dedup(ctx, typer):
    """'**': the results found below the different subtree nodes are merged through an identity duplicate test - every
    addition to the result list inside the fan-out loop is guarded by `not any(m is s for s in <result>)` or by a
    membership test on id() values (a node reachable from several subnodes, e.g. through '..', is returned once)"""
    from ..nodetype import ID
    cls, funcs = resolver_funcs(ctx.p)
    f = funcs.get("__glob")
    if f is None:
        raise AnalysisError("anchor Resolver.__glob not found")
    ft = typer.results.get(f) or typer.analyze(f)
    cfg = typer.cfg_of(f)
    nodep = f.posparams[1]
    fans = [lp for lp in walk_own(f.node) if isinstance(lp, ast.For) and isinstance(lp.iter, ast.Call) and norm(lp.iter.func) == "PreOrderIter"
            and lp.iter.args and norm(lp.iter.args[0]) == nodep]
    if not fans:
        raise AnalysisError("anchor: '**' fan-out loop (PreOrderIter(node)) in Resolver.__glob not found")
    n = 0
    for lp in fans:
        inside = {id(x) for s_ in lp.body for x in ast.walk(s_)}
        for cn in cfg.nodes:
            if cn.kind != "stmt" or id(cn.ast) not in inside:
                continue
            a = cn.ast
            acc = None
            if isinstance(a, ast.AugAssign) and isinstance(a.target, ast.Name):
                acc = a.target.id
            elif isinstance(a, ast.Expr) and isinstance(a.value, ast.Call) and isinstance(a.value.func, ast.Attribute) \
                    and a.value.func.attr in ("append", "extend", "insert") and isinstance(a.value.func.value, ast.Name):
                acc = a.value.func.value.id
            if acc is None and isinstance(a, ast.Expr) and isinstance(a.value, ast.Call) and isinstance(a.value.func, ast.Attribute) \
                    and a.value.func.attr == "setdefault" and len(a.value.args) == 2 and ft.type_of(a.value.args[0]) == ID:
                # results merged in a dict keyed by id(): the first occurrence is kept, later ones are dropped - an identity duplicate test
                n += 1
                ctx.inst("G7", f, a, "merged through a dict keyed by id(node) (first occurrence wins)")
                continue
            if acc is None and isinstance(a, ast.Assign) and len(a.targets) == 1 and isinstance(a.targets[0], ast.Subscript) \
                    and ft.type_of(a.targets[0].slice) == ID:
                # d[id(m)] = m: an existing key keeps its position and the value is the same node
                n += 1
                ctx.inst("G7", f, a, "merged through a dict keyed by id(node)")
                continue
            if acc is None:
                continue
            # only accumulators of nodes (id sets used for the duplicate test itself are not results)
            t = ft.type_of(ast.Name(id=acc, ctx=ast.Load())) if False else None
            arg = a.value if isinstance(a, ast.AugAssign) else (a.value.args[-1] if a.value.args else None)
            ta = ft.type_of(arg) if arg is not None else None
            if ta is not None and ta == ID:
                continue
            n += 1
            ok = False
            for c, o, _ in cfg.guards_of(cn):
                neg = False
                if isinstance(c, ast.UnaryOp) and isinstance(c.op, ast.Not):
                    c, neg = c.operand, True
                if isinstance(c, ast.Call) and isinstance(c.func, ast.Name) and c.func.id == "any" and c.args \
                        and isinstance(c.args[0], (ast.GeneratorExp, ast.ListComp)):
                    g = c.args[0]
                    el = g.elt
                    if isinstance(el, ast.Compare) and len(el.ops) == 1 and isinstance(el.ops[0], ast.Is) \
                            and norm(g.generators[0].iter) == acc and (o is False) != neg:
                        ok = True
                if isinstance(c, ast.Compare) and len(c.ops) == 1 and isinstance(c.ops[0], (ast.In, ast.NotIn)):
                    tl = ft.type_of(c.left)
                    absent = isinstance(c.ops[0], ast.NotIn) == bool(o)
                    if neg:
                        absent = not absent
                    if tl is not None and tl == ID and absent:
                        ok = True
            if not ok:
                # for seen in <acc>: if seen is m: break / else: <add>   (the else branch runs only when no element matched)
                dom = cfg.dominators().get(cn.id, set())
                for i_ in dom:
                    d_ = cfg.nodes[i_]
                    if d_.kind == "loopdone" and isinstance(d_.ast, ast.For) and norm(d_.ast.iter) == acc and len(d_.ast.body) == 1 \
                            and isinstance(d_.ast.body[0], ast.If) and not d_.ast.body[0].orelse and len(d_.ast.body[0].body) == 1 \
                            and isinstance(d_.ast.body[0].body[0], ast.Break) and any(a is x for s_ in d_.ast.orelse for x in ast.walk(s_)):
                        t_ = d_.ast.body[0].test
                        if isinstance(t_, ast.Compare) and len(t_.ops) == 1 and isinstance(t_.ops[0], ast.Is):
                            ok = True
            if not ok:
                # the duplicate test may be skipped when the remaining components can neither climb ('..') nor fan out again
                # ('**'): every match then lies a fixed number of levels below its start node, so two start nodes share none
                from .common import resolve_local as _rl
                recs_ = [c_ for s_ in lp.body for c_ in ast.walk(s_) if isinstance(c_, ast.Call) and norm(c_.func).endswith("__glob") and len(c_.args) == 2]
                remp = norm(recs_[0].args[1]) if recs_ else (f.posparams[2] if len(f.posparams) > 2 else "remainder")

                def excluded(c_, o_, depth=0):
                    if depth > 4:
                        return set(), False
                    if isinstance(c_, ast.Name):
                        r_ = _rl(f, c_)
                        return excluded(r_, o_, depth + 1) if r_ is not c_ else (set(), False)
                    if isinstance(c_, ast.UnaryOp) and isinstance(c_.op, ast.Not):
                        return excluded(c_.operand, not o_, depth + 1)
                    if isinstance(c_, ast.Call) and norm(c_.func) == "bool" and len(c_.args) == 1:
                        return excluded(c_.args[0], o_, depth + 1)
                    if isinstance(c_, ast.BoolOp) and ((isinstance(c_.op, ast.Or) and o_ is False) or (isinstance(c_.op, ast.And) and o_ is True)):
                        out, rel = set(), False
                        for v_ in c_.values:
                            e_, r2 = excluded(v_, o_, depth + 1)
                            out |= e_
                            rel = rel or r2
                        return out, rel
                    if isinstance(c_, ast.Compare) and len(c_.ops) == 1 and isinstance(c_.ops[0], (ast.In, ast.NotIn)) and norm(c_.comparators[0]) == remp \
                            and isinstance(c_.left, ast.Constant) and isinstance(c_.left.value, str):
                        absent_ = isinstance(c_.ops[0], ast.NotIn) == bool(o_)
                        return ({c_.left.value} if absent_ else set()), True
                    return set(), any(isinstance(x, ast.Name) and x.id == remp for x in ast.walk(c_))
                excl, related = set(), False
                for c, o, _ in cfg.guards_of(cn):
                    e_, r_ = excluded(c, o)
                    excl |= e_
                    related = related or r_
                if {"..", "**"} <= excl:
                    ok = True
                    ctx.notes.append("G7: duplicate test skipped where the remainder holds neither '..' nor '**'")
                elif related and excl:
                    missing = sorted({"..", "**"} - excl)
                    ctx.viol("G7", f, a, "the identity duplicate test of the '**' fan-out is skipped when the remaining components hold no %s, but "
                             "%s can still follow: then several subtree nodes reach the same node and it is returned more than once" % (
                                 " / ".join(repr(x) for x in sorted(excl)), " / ".join(repr(x) for x in missing)),
                             construct="__glob: duplicate test skipped although %s may follow" % ", ".join(missing))
                    continue
                elif related:
                    ctx.extra.setdefault("undecided", []).append("G7: when Resolver.__glob skips the duplicate test of the '**' fan-out depends on the "
                                                                 "remaining components in a way that is not followed")
                    continue
            if ok:
                ctx.inst("G7", f, a, "added only after the identity duplicate test")
            else:
                ctx.viol("G7", f, a, "results of the '**' fan-out are added to `%s` without an identity duplicate test on this path: a node "
                         "reachable from several subtree nodes (e.g. `**/..`) is returned more than once" % acc)
    return n


# ---------------------------------------------------------------------- G1b
def rule_G1b_dotall(ctx, typer):
    """'*' and '?' stand for ANY character: the compiled pattern has DOTALL in effect on every path - as the inline flag
    of the translation or in every value the `flags` argument of re.compile can take"""
    cls, funcs = resolver_funcs(ctx.p)
    n = 0
    for f in list(cls.funcs()) + [g for g in ctx.p.all_funcs if g.module.relpath == RES and g.cls is None]:
        for node in walk_own(f.node):
            if not (isinstance(node, ast.Call) and norm(node.func) == "re.compile"):
                continue
            n += 1
            # inline flag in the translation?
            tr = funcs.get("__translate")
            inline = False
            if tr is not None:
                for c in ast.walk(tr.node):
                    if isinstance(c, ast.Constant) and isinstance(c.value, str) and c.value.startswith("(?") and "s" in c.value.split(")")[0]:
                        inline = True
            for c in ast.walk(f.node):
                if isinstance(c, ast.Constant) and isinstance(c.value, str) and c.value.startswith("(?") and "s" in c.value.split(")")[0]:
                    inline = True
            if inline:
                ctx.inst("G1f", f, node, "DOTALL through the inline flag of the translation")
                continue
            fl = None
            for k in node.keywords:
                if k.arg == "flags":
                    fl = k.value
            if fl is None and len(node.args) >= 2:
                fl = node.args[1]
            poss = _flag_sets(typer.cfg_of(f), f, node, fl)
            if poss is None:
                raise AnalysisError("G1: cannot follow the flags of re.compile in %s" % f.qual)
            if all("DOTALL" in s_ or "S" in s_ for s_ in poss) and poss:
                ctx.inst("G1f", f, node, "DOTALL in every value of the flags argument")
            else:
                ctx.viol("G1f", f, node, "the pattern is compiled without DOTALL on some path (flags %s, no inline `(?s)`): '*' and '?' do "
                         "not match a newline in a name there" % sorted(sorted(s_) for s_ in poss),
                         construct="%s: re.compile without DOTALL" % f.qual)
    return n


_MODASSIGNS = [{}]


def _flag_names(e, depth=0):
    """names of the re flags OR-ed in an expression; None if not such an expression"""
    if e is None:
        return frozenset()
    if isinstance(e, ast.Name) and e.id in _MODASSIGNS[0] and depth < 4:
        return _flag_names(_MODASSIGNS[0][e.id], depth + 1)  # a module-level flag constant
    if isinstance(e, ast.Constant) and e.value == 0:
        return frozenset()
    if isinstance(e, ast.Attribute) and norm(e.value) == "re":
        return frozenset([e.attr])
    if isinstance(e, ast.BinOp) and isinstance(e.op, ast.BitOr):
        l, r = _flag_names(e.left, depth), _flag_names(e.right, depth)
        if l is None or r is None:
            return None
        return l | r
    return None


def _flag_sets(cfg, f, call, e):
    """possible sets of flag names of the expression at the call (forward dataflow over the flags variable)"""
    from .common import cfg_nodes_containing
    _MODASSIGNS[0] = {k: v for k, v in (f.module.assigns or {}).items()
                      if not any(isinstance(n_, ast.Name) and isinstance(n_.ctx, ast.Store) and n_.id == k for n_ in ast.walk(f.node))}
    if isinstance(e, ast.IfExp):
        a_, b_ = _flag_sets(cfg, f, call, e.body), _flag_sets(cfg, f, call, e.orelse)
        return None if a_ is None or b_ is None else a_ | b_
    direct = _flag_names(e)
    if direct is not None:
        return {direct}
    if not isinstance(e, ast.Name):
        return None
    var = e.id
    state = {cfg.entry.id: frozenset([None])}
    work = [cfg.entry]
    steps = 0
    while work:
        n_ = work.pop(0)
        steps += 1
        if steps > 3000:
            return None
        cur = state[n_.id]
        a = n_.ast
        out = cur
        if n_.kind == "stmt" and isinstance(a, ast.Assign) and any(isinstance(t, ast.Name) and t.id == var for t in a.targets):
            v = _flag_names(a.value)
            out = frozenset(["?"]) if v is None else frozenset([v])
        elif n_.kind == "stmt" and isinstance(a, ast.AugAssign) and isinstance(a.target, ast.Name) and a.target.id == var:
            v = _flag_names(a.value)
            if v is None or not isinstance(a.op, ast.BitOr):
                out = frozenset(["?"])
            else:
                out = frozenset((s_ | v) if isinstance(s_, frozenset) else s_ for s_ in cur)
        for s, lab in n_.succ:
            # exception edges are followed too (the compile call usually sits in the handler of the cache miss); along them the
            # statement's own effect has not happened
            new = state.get(s.id, frozenset()) | (cur if lab == "exc" else out)
            if new != state.get(s.id):
                state[s.id] = new
                work.append(s)
    hs = cfg_nodes_containing(cfg, call)
    if not hs:
        return None
    poss = state.get(hs[0].id, frozenset())
    if None in poss or "?" in poss:
        return None
    return set(poss)


def rule_R12_start_comparator(ctx, typer):
    """the start-up compares the root component with the comparator it is GIVEN (get hands in the literal comparison, glob
    the wildcard match): it calls its comparator parameter and no fixed comparison method of the resolver"""
    cls, funcs = resolver_funcs(ctx.p)
    f = funcs.get("__start")
    if f is None:
        raise AnalysisError("anchor Resolver.__start not found")
    ps = [x for x in f.posparams if x != f.selfname]
    if len(ps) < 3:
        ctx.viol("R12", f, f.node, "Resolver.__start takes no comparator argument: get and glob cannot compare the root component "
                 "differently", construct="__start: no comparator parameter")
        return 1
    cmpp = ps[2]
    calls = [c for c in walk_own(f.node) if isinstance(c, ast.Call) and isinstance(c.func, ast.Name) and c.func.id == cmpp]
    fixed = [c for c in walk_own(f.node) if isinstance(c, ast.Call) and isinstance(c.func, ast.Attribute)
             and c.func.attr in ("__cmp", "__match") and norm(c.func.value) in (f.selfname, "Resolver")]
    if fixed:
        ctx.viol("R12", f, fixed[0], "the root component is compared with `%s` instead of the comparator handed in (`%s`): get then "
                 "accepts wildcard roots / glob compares literally" % (norm(fixed[0].func), cmpp))
    elif not calls:
        ctx.viol("R12", f, f.node, "the comparator argument `%s` is never called: the root component is not compared" % cmpp,
                 construct="__start: comparator unused")
    else:
        ctx.inst("R12", f, calls[0], "root component compared through the comparator argument")
    # and the two entry points hand in their own comparison
    for entry, want in (("get", "__cmp"), ("glob", "__match")):
        g = funcs.get(entry)
        if g is None:
            continue
        for c in walk_own(g.node):
            if isinstance(c, ast.Call) and norm(c.func).endswith("__start") and len(c.args) >= 3:
                if norm(c.args[2]).endswith(want):
                    ctx.inst("R12", g, c, "%s hands in %s" % (entry, want))
                else:
                    ctx.viol("R12", g, c, "%s starts with the comparator `%s`; specified: %s" % (entry, norm(c.args[2]),
                                                                                               "literal comparison" if want == "__cmp" else "wildcard match"))
    return 1


def rule_R9_glob_dead_end(ctx, typer):
    """strict glob raises ChildResolverError only where a literal child name found nothing: the raise sits on the
    child-matching path (component other than '..', '', '.', '**'), never behind the relative / recursive components"""
    cls, funcs = resolver_funcs(ctx.p)
    f = funcs.get("__glob")
    cfg = typer.cfg_of(f)
    comp = None
    partsp = f.posparams[2]
    for a in walk_own(f.node):
        if isinstance(a, ast.Assign) and len(a.targets) == 1 and isinstance(a.targets[0], ast.Name) and isinstance(a.value, ast.Subscript) \
                and norm(a.value.value) == partsp and isinstance(a.value.slice, ast.Constant) and a.value.slice.value == 0:
            comp = a.targets[0].id
    if comp is None:
        return 0
    n = 0
    from .common import expand_straightline
    for rn in cfg.stmt_nodes(("raisestmt",)):
        exc = expand_straightline(rn, rn.ast.exc) if rn.ast.exc is not None else None
        if exc is None or "ChildResolverError" not in norm(exc):
            continue
        n += 1
        P, N = _component_constraint(cfg.guards_of(rn), comp)
        if P is None and {"..", "", ".", "**"} <= N:
            ctx.inst("R9", f, rn.ast, "ChildResolverError only for a child-name component")
        else:
            ctx.viol("R9", f, rn.ast, "ChildResolverError can be raised for components %s: a pattern whose relative ('..', '.', '') or "
                     "recursive ('**') component is followed by a wildcard that matches nothing is no dead end - strict mode must "
                     "return the same (empty) list as relaxed mode" % (sorted(P) if P is not None else "other than %s" % sorted(N)),
                     construct="__glob: ChildResolverError outside the child-name path")
    return n
