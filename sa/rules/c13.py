"""C13 — Mermaid export declares exactly the admitted nodes and only edges between them."""

from ..model import AnalysisError

from ..lint_identity import lint_program
from . import exporter_rules as X
from .common import typer_for

PROP = "C13"
LEVEL = "other"
TECHNIQUE = "static analysis: sibling cross-check of node/edge passes via CFG guards, optional-int lint, id()-keyed map rules"
EXPLANATION = (
    "The C12 rules for MermaidExporter: D1a same start node/filter_/stop in both passes and edge depth limit `None if m is "
    "None else m - 1`; D1b the edge yield is dominated by filter_(child) true and stop(child) false; D2 optional integers "
    "tested with `is None`; D3 the default label passes node.name through esc() (pattern and replacement checked on the "
    "regex AST); D4 default identifiers N<k>: map keyed by id(node), get-or-insert with a counter, map and counter "
    "assigned only in __init__ (stable within and across iterations); D5 header/options/nodes/edges order with lines "
    "passed on unchanged, to_file wraps exactly those lines in the fence, constructor options stored under their own "
    "names; D1c every admitted node/edge reaches its yield on "
    "every path of its loop; D6 line templates are constants. Not decided: the exact text."
    " Added in rounds 17-18: D4 memo entries may be tuples when every lookup takes the number; D3 the default label may come from a helper with a sentinel fall-back; no branch is decided by the truth value of the name."
)
ASSUMPTIONS = ["PreOrderIter admits nodes as C06 states", "user-supplied functions are opaque"]
FILES = {"anytree/exporter/mermaidexporter.py"}


def run(ctx):
    typer = typer_for(ctx)
    X.rule_D1(ctx, typer, "MermaidExporter")
    X.rule_optint_truthiness(ctx, typer, FILES)
    X.rule_name_truthiness(ctx, typer, FILES)
    X.rule_D1c_complete(ctx, typer, "MermaidExporter")
    ctx.floor("D1c", 2)
    X.rule_D3_escape(ctx, typer, "MermaidExporter", quoted=False)
    from .common import rule_format_templates
    rule_format_templates(ctx, typer, [f for f in ctx.p.all_funcs if f.module.relpath in FILES], "D6")
    X.rule_D4_ids(ctx, typer, "MermaidExporter")
    X.rule_D5_structure(ctx, typer, "MermaidExporter", closing=None, writer="to_file")
    X.rule_init_stores(ctx, "MermaidExporter")
    import ast
    w = ctx.p.func("MermaidExporter", "to_file")
    consts = [c.value for c in ast.walk(w.node) if isinstance(c, ast.Constant) and isinstance(c.value, str) and "```" in c.value]
    ctx.instances["D5"] += 1
    if consts != ["```mermaid\n", "```"]:
        ctx.viol("D5", w, w.node, "to_file fence lines are %r" % consts, construct="MermaidExporter.to_file fence")
    hits, _ = lint_program(ctx.p, typer, files=FILES)
    for h in hits:
        ctx.viol("D4", h.func, h.node, "identity-only rule %s: %s" % (h.rule, h.why))
    for f in ctx.p.all_funcs:
        if f.module.relpath in FILES:
            ctx.touch(f)
    if ctx.extra.get("undecided") and not ctx.new_findings():
        raise AnalysisError("; ".join(ctx.extra["undecided"][:2]))
    ctx.floor("D1a", 5)
    ctx.floor("D1b", 2)
    ctx.floor("D2", 1)
    ctx.floor("D3", 3)
    ctx.floor("D4", 6)
    ctx.floor("D5", 8)
