"""C17 — tree operations use node identity only (rules T1-T5)."""

from ..lint_identity import lint_program
from ..model import AnalysisError
from ..nodetype import Typer
from .common import fixture_program, resolution_stats, typer_for

PROP = "C17"
LEVEL = "other"
EXPLANATION = (
    "Package-wide identity-only lint (T1 value comparison, T2 membership/search/ordering by equality, T3 truth value, "
    "T4 hashing, T5 container protocol) over every function and lambda of anytree/, driven by a flow-sensitive "
    "node-type inference seeded by the package's parameter-name convention and node-valued API. Decides: no expression "
    "that the inference types as a tree node (or sequence of tree nodes) occurs in a context that would invoke a "
    "user-definable special method of the node. Complete for the syntactic forms T1-T5 over typed expressions; "
    "expressions typed unknown are silent and their count is reported. Not decided: behaviour of code the inference "
    "cannot type, and C-level library internals."
)
ASSUMPTIONS = [
    "parameter names follow the package convention frozen in sa/tables.py (node, child, parent, children, ...)",
    "the optional fastcache backend of anytree.cachedsearch (not installed) is outside the analysed program",
    "CPython semantics of ==, in, bool(), len(), hash(), iteration and list.index/remove/count",
]

FIXTURE_EXPECT = {"t1_eq": "T1", "t1_seq_eq": "T1", "t2_in": "T2", "t2_index": "T2", "t2_remove": "T2",
                  "t2_sorted": "T2", "t3_if": "T3", "t3_or": "T3", "t3_not": "T3", "t3_any": "T3", "t4_hash": "T4",
                  "t4_set": "T4", "t4_key": "T4", "t4_add": "T4", "t5_len": "T5", "t5_iter": "T5",
                  "t5_getitem": "T5", "t5_contains": "T5"}


def check_fixture(ctx):
    fp = fixture_program("c17")
    hits, _ = lint_program(fp, Typer(fp).run())
    got = {(h.func.srcname, h.rule) for h in hits}
    for fn, rule in FIXTURE_EXPECT.items():
        if (fn, rule) not in got:
            raise AnalysisError("C17 lint is blind: positive fixture %s (%s) not reported" % (fn, rule))
    if any(h.func.srcname == "ok_identity" for h in hits):
        raise AnalysisError("C17 lint reports the identity-only fixture function")
    ctx.extra["positive_fixture_instances"] = len(FIXTURE_EXPECT)


def run(ctx):
    check_fixture(ctx)
    typer = typer_for(ctx)
    hits, stats = lint_program(ctx.p, typer)
    for func in ctx.p.all_funcs:
        ctx.touch(func)
    ctx.instances["functions_linted"] = stats["functions"]
    ctx.instances["expr_typed_node"] = stats["typed_node"]
    ctx.instances["expr_typed_node_seq"] = stats["typed_node_seq"]
    ctx.floor("functions_linted", 150)
    ctx.floor("expr_typed_node", 380)
    ctx.floor("expr_typed_node_seq", 190)
    ctx.extra["typing"] = stats
    ctx.extra.update(resolution_stats(typer))
    # samples: typed contexts that were checked and passed
    from ..nodetype import has_node, show
    import ast
    n = 0
    for func in ctx.p.all_funcs:
        ft = typer.results.get(func)
        if ft is None:
            continue
        for node in ast.walk(func.node):
            if isinstance(node, ast.Compare) and n < 60:
                tl = ft.type_of(node.left)
                if has_node(tl):
                    ctx.samples.append("%s:%d %s  T1/T2  %s  (left: %s) → ok" % (
                        func.module.relpath, node.lineno, func.qual, " ".join(ast.unparse(node).split()), show(tl)))
                    n += 1
    for h in hits:
        ctx.viol(h.rule, h.func, h.node, h.why)
