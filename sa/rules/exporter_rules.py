"""Rules for the DOT and Mermaid exporters (C12, C13): admission agreement of
the node and edge passes, optional-int tests, escaping, stable identifiers."""

import ast

from .. import tables as T
from ..model import AnalysisError, Func, Prop, norm, strip_doc
from ..nodetype import ID, INT, NONE, OPT_INT, show
from .common import none_test, walk_own


def _kwarg(call, name, pos=None):
    for k in call.keywords:
        if k.arg == name:
            return k.value
    if pos is not None and pos < len(call.args):
        return call.args[pos]
    return None


def _preorder_calls(func):
    return [n for n in walk_own(func.node) if isinstance(n, ast.Call) and norm(n.func).endswith("PreOrderIter")]


def _last_name(e):
    if isinstance(e, ast.Attribute):
        return e.attr
    if isinstance(e, ast.Name):
        return e.id
    return norm(e)


def _yields(func):
    return [n for n in walk_own(func.node) if isinstance(n, ast.Yield)]


def _assignments_to(func, name):
    out = []
    for n in walk_own(func.node):
        if isinstance(n, ast.Assign) and any(isinstance(t, ast.Name) and t.id == name for t in n.targets):
            out.append(n)
    return out


# ---------------------------------------------------------------------- D1
_SUFFIX = None


def _strip_suffix(txt):
    import re as _re
    return _re.sub(r"__(gen|inl|call)\d+", "", txt)


def _canon_start(func, e):
    """start node of a traversal, comparable between the two passes: the expression text without the suffixes the
    inliner adds; a loop variable stands for 'each element of <its iterable's definition>'"""
    from .common import resolve_local
    if e is None:
        return None
    if isinstance(e, ast.Name):
        for lp in walk_own(func.node):
            if isinstance(lp, ast.For) and isinstance(lp.target, ast.Name) and lp.target.id == e.id:
                it = resolve_local(func, lp.iter) if isinstance(lp.iter, ast.Name) else lp.iter
                return "each of " + _strip_suffix(norm(it))
        r = resolve_local(func, e)
        return _strip_suffix(norm(r))
    return _strip_suffix(norm(e))


def rule_D1(ctx, typer, clsname, nodes_fn="__iter_nodes", edges_fn="__iter_edges"):
    p = ctx.p
    fn = p.func(clsname, nodes_fn)
    fe = p.func(clsname, edges_fn)
    n = 0
    cn, ce = _preorder_calls(fn), _preorder_calls(fe)
    if len(cn) != 1 or len(ce) != 1:
        raise AnalysisError("anchor: expected one PreOrderIter traversal in %s.%s and %s" % (clsname, nodes_fn, edges_fn))
    cn, ce = cn[0], ce[0]
    # the two passes start at the same node
    n += 1
    if _canon_start(fn, _kwarg(cn, "node", 0)) != _canon_start(fe, _kwarg(ce, "node", 0)):
        ctx.viol("D1a", fe, ce, "edge pass starts at `%s`, node pass at `%s`" % (norm(_kwarg(ce, "node", 0)), norm(_kwarg(cn, "node", 0))))
    else:
        ctx.inst("D1a", fe, ce, "same start node as the node pass")
    opts = {}
    for opt, pos in (("filter_", 1), ("stop", 2)):
        a, b = _kwarg(cn, opt, pos), _kwarg(ce, opt, pos)
        n += 1
        opts[opt] = (a, b)
        if a is None and b is None:
            ctx.inst("D1a", fe, ce, "%s: neither pass restricts" % opt)
            continue
        ta, tb = norm(a) if a is not None else "None", norm(b) if b is not None else "None"
        if ta != tb:
            ctx.viol("D1a", fe, ce, "edge pass enumerates parents with %s=%s but the node pass admits with %s=%s: the edge list "
                     "and the node list disagree" % (opt, tb, opt, ta), construct="%s: %s=%s vs %s" % (edges_fn, opt, tb, ta))
        else:
            ctx.inst("D1a", fe, ce, "%s=%s in both passes" % (opt, ta))
    # parameters of the two passes are fed from the same values by the caller
    it = p.func(clsname, "__iter")
    for opt in ("filter_", "stop"):
        a, b = opts[opt]
        if isinstance(a, ast.Name) and isinstance(b, ast.Name) and a.id in fn.posparams and b.id in fe.posparams:
            va = vb = None
            for c in walk_own(it.node):
                if isinstance(c, ast.Call) and isinstance(c.func, ast.Attribute):
                    if c.func.attr == nodes_fn.lstrip("_") or c.func.attr == nodes_fn:
                        va = _arg_for(c, fn, a.id)
                    if c.func.attr == edges_fn.lstrip("_") or c.func.attr == edges_fn:
                        vb = _arg_for(c, fe, b.id)
            n += 1
            if va is None or vb is None or norm(va) != norm(vb):
                ctx.viol("D1a", it, it.node, "%s passed to the node pass (%s) and to the edge pass (%s) differ" % (
                    opt, norm(va) if va is not None else "?", norm(vb) if vb is not None else "?"),
                    construct="%s.__iter: %s forwarded differently" % (clsname, opt))
            else:
                ctx.inst("D1a", it, va, "%s forwarded identically to both passes" % opt)
    # maxlevel: m' = None if m is None else m - 1
    m = _kwarg(cn, "maxlevel", 3)
    m2 = _kwarg(ce, "maxlevel", 3)
    n += 1
    if isinstance(m, ast.Name):
        from .common import resolve_local
        m = resolve_local(fn, m)  # e.g. a temporary introduced when a shared traversal helper was inlined
    mtxt = norm(m) if m is not None else None
    ok, why = _is_minus_one_of(fe, m2, mtxt, typer)
    if ok:
        ctx.inst("D1a", fe, ce, "edge pass depth limit is `%s - 1` when set, None otherwise" % mtxt)
    else:
        ctx.viol("D1a", fe, ce, "edge pass depth limit is not `None if m is None else m - 1` for the node pass's m=%s: %s" % (mtxt, why),
                 construct="%s: maxlevel=%s" % (edges_fn, norm(m2) if m2 is not None else "None"))
    # (b) the edge yield is guarded by filter_(child) true and stop(child) false
    cfg = typer.cfg_of(fe)
    inner = None
    for node in walk_own(fe.node):
        if isinstance(node, ast.For) and isinstance(node.target, ast.Name) and any(
                isinstance(x, ast.Attribute) and x.attr == "children" for x in ast.walk(node.iter)):
            inner = node
    if inner is None:
        raise AnalysisError("anchor: loop over node.children in %s.%s not found" % (clsname, edges_fn))
    child = inner.target.id
    # predicates the loop header itself establishes for every element: filter(P, S) -> P true, filterfalse(Q, S) -> Q false
    header_facts = set()
    it_ = inner.iter
    while isinstance(it_, ast.Call) and len(it_.args) == 2 and not it_.keywords:
        fname_ = norm(it_.func)
        if fname_ == "filter" and isinstance(it_.args[0], ast.Name):
            header_facts.add((it_.args[0].id, True))
        elif fname_ in ("filterfalse", "itertools.filterfalse") and isinstance(it_.args[0], ast.Name):
            header_facts.add((it_.args[0].id, False))
        else:
            break
        it_ = it_.args[1]
    ys = [y for y in ast.walk(inner) if isinstance(y, ast.Yield)]
    if not ys:
        raise AnalysisError("anchor: edge yield in %s.%s not found" % (clsname, edges_fn))
    for y in ys:
        ycn = _cfg_nodes_containing(cfg, y)
        for pred, want in (("filter_", True), ("stop", False)):
            a, _ = opts[pred]
            if a is None:
                continue
            n += 1
            ok = bool(ycn)
            for c_ in ycn:
                gs = cfg.guards_of(c_)
                hit = any(isinstance(c, ast.Call) and _last_name(c.func) == pred and len(c.args) == 1 and
                          isinstance(c.args[0], ast.Name) and c.args[0].id == child and o is want for c, o, _ in gs)
                if not hit and isinstance(a, ast.Name) and (a.id, want) in header_facts:
                    hit = True
                if not hit:
                    ok = False
            if ok:
                ctx.inst("D1b", fe, y, "edge emitted only if %s(child) is %s" % (pred, want))
            else:
                ctx.viol("D1b", fe, y, "an edge is emitted without checking %s(child) is %s although the node pass admits nodes "
                         "with it: an edge can name a node that was never declared" % (pred, want),
                         construct="%s.%s: edge yield not guarded by %s(child)" % (clsname, edges_fn, pred))
    return n


def _arg_for(call, callee, param):
    ps = callee.posparams
    if callee.selfname:
        ps = ps[1:]
    for k in call.keywords:
        if k.arg == param:
            return k.value
    if param in ps and ps.index(param) < len(call.args):
        return call.args[ps.index(param)]
    return None


def _cfg_nodes_containing(cfg, expr):
    out = []
    for cn in cfg.nodes:
        if cn.kind not in ("stmt", "return", "test"):
            continue
        root = cn.cond if cn.kind == "test" else cn.ast
        for c in ast.walk(root):
            if c is expr:
                out.append(cn)
                break
    return out


def _is_minus_one_of(func, expr, mtxt, typer=None):
    """expr denotes `None if m is None else m - 1` (m given by its source text): evaluated by cases
    (m is None / m is not None) over the function's CFG with a reaching-value dataflow"""
    if mtxt is None:
        return (expr is None or (isinstance(expr, ast.Constant) and expr.value is None)), "node pass unbounded"
    if expr is None:
        return False, "edge pass has no depth limit"

    def value_ok(v, is_none):
        """v evaluated in the given case equals the wanted value"""
        if isinstance(v, ast.IfExp):
            nt = none_test(v.test)
            if nt is not None and nt[0] == mtxt:
                return value_ok(v.body if nt[1] == is_none else v.orelse, is_none)
            if norm(v.test) == mtxt:  # truthiness form (reported by D2); None is falsy, a set limit is assumed truthy here
                return value_ok(v.orelse if is_none else v.body, is_none)
            return False
        if is_none:
            return isinstance(v, ast.Constant) and v.value is None
        return isinstance(v, ast.BinOp) and isinstance(v.op, ast.Sub) and norm(v.left) == mtxt and isinstance(v.right, ast.Constant) \
            and v.right.value == 1
    if not isinstance(expr, ast.Name):
        ok = value_ok(expr, True) and value_ok(expr, False)
        return ok, "" if ok else "`%s` is not `None if %s is None else %s - 1`" % (norm(expr), mtxt, mtxt)
    from ..cfg import CFG, forward_dataflow
    cfg = typer.cfg_of(func) if typer is not None else CFG(func.node, func.body, name=func.where)
    use_nodes = [cn for cn in cfg.nodes if cn.kind in ("foriter", "stmt", "return") and any(
        isinstance(x, ast.Call) and norm(x.func).endswith("PreOrderIter") for x in ast.walk(cn.ast.iter if cn.kind == "foriter" else cn.ast))]
    var = expr.id
    for is_none in (True, False):
        def transfer(n, st, is_none=is_none):
            if st is None:
                return None
            if n.kind == "guard":
                nt = none_test(n.cond)
                if nt is not None and nt[0] == mtxt and (nt[1] == is_none) != n.outcome:
                    return None
                if norm(n.cond) == mtxt and is_none and n.outcome:
                    return None
                return st
            a = n.ast
            if n.kind == "stmt" and isinstance(a, ast.Assign) and any(isinstance(t, ast.Name) and t.id == var for t in a.targets):
                return ("val", a.value)
            if n.kind == "stmt" and isinstance(a, ast.AugAssign) and isinstance(a.target, ast.Name) and a.target.id == var:
                return ("conflict",)
            return st

        def join(x, y):
            if x is None:
                return y
            if y is None:
                return x
            if x == y or (x[0] == y[0] == "val" and ast.dump(x[1]) == ast.dump(y[1])):
                return x
            return ("conflict",)
        instate = forward_dataflow(cfg, ("unset",), transfer, None, join, equal=lambda p_, q_: p_ == q_ or (
            p_ is not None and q_ is not None and p_[0] == q_[0] == "val" and ast.dump(p_[1]) == ast.dump(q_[1])))
        seen = False
        for cn in use_nodes:
            st = instate.get(cn.id)
            if st is None:
                continue
            seen = True
            if st[0] != "val" or not value_ok(st[1], is_none):
                return False, "when %s %s the edge pass gets `%s`" % (mtxt, "is None" if is_none else "is set",
                                                                     norm(st[1]) if st[0] == "val" else st[0])
        if not seen:
            return False, "the edge traversal is unreachable when %s %s" % (mtxt, "is None" if is_none else "is set")
    return True, ""


# ---------------------------------------------------------------------- D2
def rule_name_truthiness(ctx, typer, files, rule="D3"):
    """the node's name is a value like any other: no branch of the default name / label code is decided by its TRUTH value
    (`if not getattr(node, "name", None): raise ...`, `name or <fall-back>`): '', 0 and None are names that must be printed"""
    from .common import resolve_local
    n = 0
    for f in ctx.p.all_funcs:
        if f.module.relpath not in files or f.is_lambda:
            continue
        cfg = typer.cfg_of(f)

        def is_name_read(e, depth=0):
            if isinstance(e, ast.Name) and depth < 3:
                r = resolve_local(f, e)
                return r is not e and is_name_read(r, depth + 1)
            if isinstance(e, ast.Attribute) and e.attr == "name" and isinstance(e.value, ast.Name):
                return True
            return isinstance(e, ast.Call) and norm(e.func) == "getattr" and len(e.args) >= 2 and isinstance(e.args[1], ast.Constant) \
                and e.args[1].value == "name"
        for g in cfg.nodes:
            if g.kind == "guard" and g.outcome is True and is_name_read(g.cond):
                n += 1
                ctx.viol(rule, f, g.cond, "a branch is decided by the truth value of the node's name (`%s`): a name that is falsy ('', 0, None) is "
                         "treated as missing instead of being written out" % norm(g.cond)[:60], construct="%s: truth value of the name" % f.qual)
    return n


def rule_optint_truthiness(ctx, typer, files, rule="D2"):
    """an optional integer (None = unbounded, 0 legal) is tested with `is None`,
    never by truthiness — unless a dominating guard makes 0 infeasible"""
    n = 0
    for func in ctx.p.all_funcs:
        if func.module.relpath not in files:
            continue
        ft = typer.results.get(func)
        if ft is None:
            continue
        cfg = typer.cfg_of(func)
        tests = []
        for node in walk_own(func.node):
            if isinstance(node, (ast.If, ast.While, ast.IfExp, ast.Assert)):
                tests.append((node, node.test))
            elif isinstance(node, ast.comprehension):
                for c in node.ifs:
                    tests.append((node, c))
            elif isinstance(node, ast.BoolOp):
                for v in node.values[:-1]:
                    tests.append((node, v))
        seen = set()
        for holder, t in tests:
            for atom in _truth_atoms(t):
                if id(atom) in seen:
                    continue
                seen.add(id(atom))
                ty = ft.type_of(atom)
                if ty is None or "top" in ty or not ("int" in ty and "none" in ty):
                    continue
                n += 1
                if _zero_infeasible(cfg, func, holder, atom):
                    ctx.inst(rule, func, holder, "truthiness of %s, but a dominating _abort_at_level guard excludes 0" % norm(atom))
                else:
                    ctx.viol(rule, func, holder, "optional integer `%s` (None = unbounded, 0 legal) is tested by truthiness: 0 is treated "
                             "like None" % norm(atom), construct="truthiness of %s in `%s`" % (norm(atom), " ".join(norm(t).split())))
        # None-tests on optional ints are the instances that pass
        for node in walk_own(func.node):
            if isinstance(node, ast.Compare):
                nt = none_test(node)
                if nt is not None:
                    sub = node.left if not (isinstance(node.left, ast.Constant) and node.left.value is None) else node.comparators[0]
                    ty = ft.type_of(sub)
                    if ty is not None and "top" not in ty and "int" in ty:
                        n += 1
                        ctx.inst(rule, func, node, "optional integer tested with is/is not None")
    return n


def _truth_atoms(t):
    if isinstance(t, ast.BoolOp):
        for v in t.values:
            for a in _truth_atoms(v):
                yield a
    elif isinstance(t, ast.UnaryOp) and isinstance(t.op, ast.Not):
        for a in _truth_atoms(t.operand):
            yield a
    else:
        yield t


def _zero_infeasible(cfg, func, holder, atom):
    """value-range dataflow: at the truthiness test the optional integer is either None or >= 1"""
    from ..cfg import forward_dataflow
    key = norm(atom)
    TOPR = (True, True, None)  # (can be None, can be int, lower bound of the int part)

    def lb_max(lb, k):
        return k if lb is None else max(lb, k)

    def refine(cond, outcome, st):
        nt = none_test(cond)
        if nt is not None and nt[0] == key:
            is_none = nt[1] == outcome
            return (True, False, None) if is_none else (False, st[1], st[2])
        if isinstance(cond, ast.Call) and _last_name(cond.func) == "_abort_at_level" and len(cond.args) == 2 and norm(cond.args[1]) == key \
                and isinstance(cond.args[0], ast.Constant) and isinstance(cond.args[0].value, int):
            k = cond.args[0].value
            if outcome is False:
                return (st[0], st[1], lb_max(st[2], k))  # None or level <= X
            return (False, True, st[2])  # abort true: X is an int below the level
        if isinstance(cond, ast.Compare) and len(cond.ops) == 1:
            l, r, op = cond.left, cond.comparators[0], type(cond.ops[0])
            if norm(r) == key and isinstance(l, ast.Constant) and isinstance(l.value, int):
                # k OP X  ->  X OP' k
                op = {ast.Gt: ast.Lt, ast.Lt: ast.Gt, ast.GtE: ast.LtE, ast.LtE: ast.GtE, ast.Eq: ast.Eq, ast.NotEq: ast.NotEq}.get(op)
                l, r = r, l
            if norm(l) == key and isinstance(r, ast.Constant) and isinstance(r.value, int) and op is not None:
                k = r.value
                if not outcome:
                    op = {ast.Gt: ast.LtE, ast.LtE: ast.Gt, ast.Lt: ast.GtE, ast.GtE: ast.Lt, ast.Eq: ast.NotEq, ast.NotEq: ast.Eq}[op]
                lb = st[2]
                if op is ast.GtE:
                    lb = lb_max(lb, k)
                elif op is ast.Gt:
                    lb = lb_max(lb, k + 1)
                elif op is ast.Eq:
                    lb = lb_max(lb, k)
                return (False, True, lb)  # an ordering comparison with None would have raised
        if norm(cond) == key:
            if outcome:
                return (False, True, lb_max(st[2], 1) if st[2] is None or st[2] >= 0 else st[2])
            return st
        return st

    def transfer(n, st):
        if st is None:
            return None
        if n.kind == "guard":
            return refine(n.cond, n.outcome, st)
        a = n.ast
        if n.kind == "stmt" and isinstance(a, (ast.Assign, ast.AugAssign, ast.AnnAssign)):
            targets = a.targets if isinstance(a, ast.Assign) else [a.target]
            if any(norm(t) == key for t in targets for t in ast.walk(t) if isinstance(t, (ast.Name, ast.Attribute))):
                return TOPR
        if n.kind == "loopin" and any(norm(t) == key for t in ast.walk(a.target) if isinstance(t, (ast.Name, ast.Attribute))):
            return TOPR
        return st

    def join(x, y):
        if x is None:
            return y
        if y is None:
            return x
        lbs = [v[2] for v in (x, y) if v[1]]
        lb = None if any(b_ is None for b_ in lbs) or not lbs else min(lbs)
        return (x[0] or y[0], x[1] or y[1], lb)
    instate = forward_dataflow(cfg, TOPR, transfer, None, join)
    cns = []
    for cn in cfg.nodes:
        root = cn.cond if cn.kind == "test" else cn.ast
        if root is None or cn.kind in ("guard", "loopin", "loopdone", "fornext"):
            continue
        if cn.kind == "foriter":
            root = root.iter
        elif cn.kind == "with":
            root = ast.Tuple(elts=[i.context_expr for i in root.items], ctx=ast.Load())
        elif isinstance(root, (ast.For, ast.While, ast.Try, ast.With, ast.FunctionDef, ast.ClassDef)):
            continue
        for c in ast.walk(root):
            if c is atom:
                cns.append(cn)
                break
    if not cns:
        return False
    for cn in cns:
        st = instate.get(cn.id)
        if st is None:
            continue  # unreachable
        can_none, can_int, lb = st
        if can_int and not (lb is not None and lb >= 1):
            return False
    return True


def _assigns(cn, name):
    a = cn.ast
    if cn.kind == "stmt" and isinstance(a, (ast.Assign, ast.AugAssign, ast.AnnAssign)):
        targets = a.targets if isinstance(a, ast.Assign) else [a.target]
        return any(isinstance(x, ast.Name) and x.id == name for t in targets for x in ast.walk(t))
    if cn.kind == "loopin":
        return any(isinstance(x, ast.Name) and x.id == name for x in ast.walk(a.target))
    return False


# ---------------------------------------------------------------------- D3
def rule_D3_escape(ctx, typer, clsname, quoted=True):
    """names from nodenamefunc land in quoted slots only through esc(); esc
    escapes double quote and backslash"""
    p = ctx.p
    n = 0
    cls = p.cls(clsname)
    if quoted:
        # what the line generators receive in the nodenamefunc position must be the user's callable itself: a wrapper
        # (e.g. a caching closure that already quotes and escapes) moves the escaping somewhere this rule does not follow
        it_ = p.func(clsname, "__iter")
        for c in walk_own(it_.node):
            if isinstance(c, ast.Call) and isinstance(c.func, ast.Attribute) and c.func.attr in ("__iter_nodes", "__iter_edges"):
                callee = p.func(clsname, c.func.attr)
                from .common import call_binding
                got = call_binding(c, callee).get("nodenamefunc")
                if got is not None and not (isinstance(got, ast.Name) and got.id == "nodenamefunc"
                                            and not any(isinstance(d_, ast.FunctionDef) and d_.name == "nodenamefunc" for d_ in ast.walk(it_.node))):
                    ctx.extra.setdefault("undecided", []).append(
                        "D3: %s.%s receives `%s` in the place of nodenamefunc; where its result is escaped is not followed" % (clsname, c.func.attr, norm(got)))
        if ctx.extra.get("undecided"):
            return n
        for fname in ("__iter_nodes", "__iter_edges"):
            f = p.func(clsname, fname)
            tainted = set()
            for node in walk_own(f.node):
                if isinstance(node, ast.Assign) and isinstance(node.value, ast.Call) and _last_name(node.value.func) == "nodenamefunc":
                    for t in node.targets:
                        if isinstance(t, ast.Name):
                            tainted.add(t.id)
            if not tainted:
                raise AnalysisError("anchor: nodenamefunc result in %s.%s not found" % (clsname, fname))
            for y in _yields(f):
                if y.value is None:
                    continue
                wrapped = set()
                for c in ast.walk(y.value):
                    if isinstance(c, ast.Call) and _last_name(c.func) == "esc" and len(c.args) == 1:
                        for x in ast.walk(c.args[0]):
                            wrapped.add(id(x))
                fmt = None
                if isinstance(y.value, ast.BinOp) and isinstance(y.value.op, ast.Mod) and isinstance(y.value.left, ast.Constant):
                    fmt = y.value.left.value
                for x in ast.walk(y.value):
                    if isinstance(x, ast.Name) and x.id in tainted:
                        n += 1
                        if id(x) in wrapped:
                            ctx.inst("D3", f, y, "identifier %s passes through esc()" % x.id)
                        else:
                            ctx.viol("D3", f, y, "identifier `%s` (a nodenamefunc result) is written into the quoted slot without esc(): "
                                     "a name containing '\"' or '\\' breaks the statement" % x.id)
                if fmt is not None:
                    escs = [c for c in ast.walk(y.value) if isinstance(c, ast.Call) and _last_name(c.func) == "esc"]
                    n += 1
                    unq = [c for c in escs if not _in_quoted_slot(y.value, c)]
                    n_quoted_slots = sum(t_.left.value.count('"%s"') for t_ in ast.walk(y.value)
                                         if isinstance(t_, ast.BinOp) and isinstance(t_.op, ast.Mod) and isinstance(t_.left, ast.Constant)
                                         and isinstance(t_.left.value, str))
                    if unq:
                        ctx.viol("D3", f, y, "the escaped identifier `%s` is not written into a double-quoted slot of its format" % norm(unq[0]))
                    elif n_quoted_slots != len(escs):
                        ctx.viol("D3", f, y, "format %r has %d double-quoted slots for %d escaped identifiers" % (fmt, n_quoted_slots, len(escs)))
                    else:
                        ctx.inst("D3", f, y, "every escaped identifier sits in a double-quoted slot")
    else:
        f = p.func(clsname, "_default_nodefunc")
        for node in walk_own(f.node):
            if isinstance(node, ast.Attribute) and node.attr == "name" and isinstance(node.ctx, ast.Load):
                n += 1
                ok = False
                for c in walk_own(f.node):
                    if isinstance(c, ast.Call) and _last_name(c.func) == "esc" and any(x is node for a in c.args for x in ast.walk(a)):
                        ok = True
                if ok:
                    ctx.inst("D3", f, node, "default label passes node.name through esc()")
                else:
                    ctx.viol("D3", f, node, "default label uses node.name without esc()")
        if not any(isinstance(node, ast.Attribute) and node.attr == "name" and isinstance(node.ctx, ast.Load) for node in walk_own(f.node)):
            n += _label_helper_rule(ctx, typer, p, f, clsname)
    # esc itself
    esc = cls.lookup("esc")
    if not isinstance(esc, Func):
        raise AnalysisError("anchor %s.esc not found" % clsname)
    # delegation: `return Other.esc(value)` hands the same value to another class's esc
    for _ in range(3):
        body = [s_ for s_ in esc.node.body if not (isinstance(s_, ast.Expr) and isinstance(s_.value, ast.Constant))]
        if len(body) == 1 and isinstance(body[0], ast.Return) and isinstance(body[0].value, ast.Call):
            c = body[0].value
            prm = [a for a in esc.posparams if a != esc.selfname]
            if isinstance(c.func, ast.Attribute) and c.func.attr == "esc" and isinstance(c.func.value, ast.Name) and len(c.args) == 1 \
                    and not c.keywords and isinstance(c.args[0], ast.Name) and prm and c.args[0].id == prm[0]:
                r_ = ctx.p.resolve_name(esc.module, c.func.value.id)
                other = r_[1] if r_ is not None and r_[0] == "class" else None
                tgt = other.lookup("esc") if other is not None else None
                if isinstance(tgt, Func) and tgt is not esc:
                    ctx.inst("D3", esc, c, "esc delegates to %s" % tgt.qual)
                    esc = tgt
                    continue
        break
    mod = esc.module
    n += 1
    # escaping written as a chain of str.replace calls instead of one regular expression
    reps = [c for c in walk_own(esc.node) if isinstance(c, ast.Call) and isinstance(c.func, ast.Attribute) and c.func.attr == "replace"
            and len(c.args) == 2 and all(isinstance(a_, ast.Constant) and isinstance(a_.value, str) for a_ in c.args)]
    if reps and not any(isinstance(c, ast.Call) and isinstance(c.func, ast.Attribute) and c.func.attr in ("sub", "subn") for c in walk_own(esc.node)):
        reps.sort(key=lambda c: (c.lineno, c.col_offset))
        pairs = [(c.args[0].value, c.args[1].value) for c in reps]
        olds = [o for o, _ in pairs]
        if set(olds) != {'"', "\\"[:1]} or len(olds) != 2:
            ctx.viol("D3", esc, reps[0], "the replacements cover %s, not exactly the double quote and the backslash" % sorted(set(olds)),
                     construct="esc: replace chain covers %s" % sorted(set(olds)))
        elif any(new_ != "\\"[:1] + old_ for old_, new_ in pairs):
            ctx.viol("D3", esc, reps[0], "a replacement does not prefix the character with exactly one backslash: %s" % pairs,
                     construct="esc: replace chain replacement")
        elif olds[0] != "\\"[:1]:
            ctx.viol("D3", esc, reps[0], "the quote is escaped before the backslash: the backslash just inserted in front of the quote is then "
                     "escaped itself, so a name containing both characters comes out wrong", construct="esc: replace chain order")
        else:
            ctx.inst("D3", esc, reps[0], "backslashes escaped first, then double quotes, each by one backslash")
            ctx.inst("D3", esc, reps[1], "replace chain covers '\"' and '\\'")
        return n + 1
    subs0 = [c for c in walk_own(esc.node) if isinstance(c, ast.Call) and isinstance(c.func, ast.Attribute) and c.func.attr in ("sub", "subn")
             and isinstance(c.func.value, ast.Name)]
    patname = subs0[0].func.value.id if subs0 else "_RE_ESC"
    pat = mod.assigns.get(patname)
    ok_pat = False
    if isinstance(pat, ast.Call) and norm(pat.func) == "re.compile" and pat.args and isinstance(pat.args[0], ast.Constant):
        import re._parser as sp
        import re._constants as sc
        try:
            parsed = list(sp.parse(pat.args[0].value))
            if len(parsed) == 1 and parsed[0][0] == sc.IN:
                lits = {v for k, v in parsed[0][1] if k == sc.LITERAL}
                neg = any(k == sc.NEGATE for k, v in parsed[0][1])
                ok_pat = {ord('"'), ord("\\")} <= lits and not neg
        except Exception:
            ok_pat = False
    if ok_pat:
        ctx.inst("D3", esc, pat, "escape pattern is a character class containing '\"' and '\\'")
    else:
        ctx.viol("D3", esc, pat if pat is not None else esc.node, "escape pattern does not cover both the double quote and the backslash",
                 construct="_RE_ESC = %s" % (norm(pat) if pat is not None else "?"))
    subs = [c for c in walk_own(esc.node) if isinstance(c, ast.Call) and isinstance(c.func, ast.Attribute) and c.func.attr in ("sub", "subn")]
    n += 1
    good = False
    from .common import resolve_local
    for c in subs:
        if norm(c.func.value) == patname and len(c.args) == 2 and not c.keywords and c.func.attr == "sub":
            repl = resolve_local(esc, c.args[0])
            if isinstance(repl, ast.Name):
                r_ = ctx.p.resolve_name(esc.module, repl.id)
                if r_ is not None and r_[0] == "const":
                    repl = r_[1]
            if isinstance(repl, ast.Lambda):
                body = repl.body
                if isinstance(body, ast.BinOp) and isinstance(body.op, ast.Mod) and isinstance(body.left, ast.Constant) \
                        and body.left.value == "\\%s" and "group(0)" in norm(body.right):
                    good = True
            elif isinstance(repl, ast.Constant) and repl.value in ("\\\\\\g<0>",):
                good = True  # template: escaped backslash followed by the whole match
            text = resolve_local(esc, c.args[1])
            if not (isinstance(text, ast.Call) and norm(text.func) in ("six.text_type", "str") and len(text.args) == 1):
                good = False
    if good:
        ctx.inst("D3", esc, esc.node, "every match is replaced by backslash + itself")
    else:
        ctx.viol("D3", esc, esc.node, "esc() does not replace every match of the escape pattern by a backslash followed by the match",
                 construct="%s.esc body" % clsname)
    return n


# ---------------------------------------------------------------------- D4
def _label_helper_rule(ctx, typer, p, f, clsname):
    """the default label is esc(H(node)) with H a helper of the package that returns the node's `name` whenever the node has
    one: name = getattr(node, "name", <sentinel object()>), replaced only under `name is <sentinel>`"""
    from ..model import Func
    nodep = f.posparams[-1]
    for c in walk_own(f.node):
        if not (isinstance(c, ast.Call) and _last_name(c.func) == "esc" and len(c.args) == 1 and isinstance(c.args[0], ast.Call)
                and [norm(a) for a in c.args[0].args] == [nodep] and not c.args[0].keywords):
            continue
        hc = c.args[0]
        h = None
        if isinstance(hc.func, ast.Attribute) and norm(hc.func.value) in (clsname, f.selfname or "", "self", "cls"):
            h = p.cls(clsname).lookup(hc.func.attr)
        elif isinstance(hc.func, ast.Name):
            r = p.resolve_name(f.module, hc.func.id)
            h = r[1] if r is not None and r[0] == "func" else None
        if not isinstance(h, Func):
            continue
        ctx.touch(h)
        hp = [q for q in h.posparams if q != h.selfname]
        if len(hp) != 1:
            continue
        cfg = typer.cfg_of(h)
        reads = [a for a in walk_own(h.node) if isinstance(a, ast.Assign) and len(a.targets) == 1 and isinstance(a.targets[0], ast.Name)
                 and isinstance(a.value, ast.Call) and norm(a.value.func) == "getattr" and len(a.value.args) == 3
                 and norm(a.value.args[0]) == hp[0] and isinstance(a.value.args[1], ast.Constant) and a.value.args[1].value == "name"]
        rets = [r for r in walk_own(h.node) if isinstance(r, ast.Return)]
        ors = [b for b in walk_own(h.node) if isinstance(b, ast.BoolOp) and isinstance(b.op, ast.Or) and isinstance(b.values[0], ast.Call)
               and norm(b.values[0].func) == "getattr" and len(b.values[0].args) >= 2 and isinstance(b.values[0].args[1], ast.Constant)
               and b.values[0].args[1].value == "name"]
        if ors:
            ctx.viol("D3", h, ors[0], "the default label is `%s`: a name that is merely falsy ('', 0, None) is replaced by the fall-back instead of "
                     "being printed as it is" % norm(ors[0])[:70], construct="%s: falsy name replaced" % h.qual)
            return 1
        if len(reads) != 1 or not rets or not any(r.value is not None and norm(r.value) == reads[0].targets[0].id for r in rets):
            continue
        v = reads[0].targets[0].id
        dflt = reads[0].value.args[2]
        sentinel = False
        if isinstance(dflt, ast.Name):
            r = p.resolve_name(h.module, dflt.id)
            sentinel = r is not None and r[0] == "const" and isinstance(r[1], ast.Call) and norm(r[1].func) == "object" and not r[1].args
        others = [cn for cn in cfg.nodes if cn.kind == "stmt" and isinstance(cn.ast, ast.Assign) and cn.ast is not reads[0]
                  and any(isinstance(t, ast.Name) and t.id == v for t in cn.ast.targets)]
        # a return of something else than the name read (the normalised form of `name = <fall-back>; return name`)
        others += [cn for cn in cfg.nodes if cn.kind == "return" and (cn.ast.value is None or norm(cn.ast.value) != v)]
        verdict = True
        for cn in others:
            gs = cfg.guards_of(cn)
            good = sentinel and any(isinstance(g, ast.Compare) and len(g.ops) == 1 and isinstance(g.ops[0], ast.Is) and o is True
                                    and {norm(g.left), norm(g.comparators[0])} == {v, norm(dflt)} for g, o, _ in gs)
            if not good:
                verdict = False
                why = "; ".join("`%s` is %s" % (norm(g)[:40], o) for g, o, _ in gs) or "unconditionally"
                ctx.viol("D3", h, cn.ast, "the default label is the node's name only while %s does not replace it: it is replaced when %s - a name "
                         "that is merely falsy / None / equal to the fall-back marker is not printed as it is" % (h.qual, why),
                         construct="%s: name replaced outside `is <sentinel>`" % h.qual)
        if verdict:
            ctx.inst("D3", f, c, "default label is esc(%s(node)): the name whenever the node has one (sentinel fall-back)" % h.qual)
        return 1
    return 0


def rule_D4_ids(ctx, typer, clsname):
    """default identifiers: map keyed by id(node), get-or-insert with a counter,
    map and counter assigned only in __init__"""
    p = ctx.p
    f = p.func(clsname, "_default_nodenamefunc")
    ft = typer.results.get(f)
    n = 0
    ids_attr, ctr_attr = None, None
    for node in walk_own(f.node):
        if isinstance(node, ast.Subscript) and isinstance(node.value, ast.Attribute) and isinstance(node.value.value, ast.Name) \
                and node.value.value.id == f.selfname:
            ids_attr = node.value.attr
            n += 1
            ty = ft.type_of(node.slice)
            if ty == ID:
                ctx.inst("D4", f, node, "identifier map keyed by id(node)")
            else:
                ctx.viol("D4", f, node, "identifier map is keyed by %s, not by id(node): equal or unhashable nodes collide/fail" % show(ty))
            if isinstance(node.ctx, ast.Store):
                st = None
                for a in walk_own(f.node):
                    if isinstance(a, ast.Assign) and any(t is node for t in a.targets):
                        st = a
                n += 1
                from .common import resolve_local as _rl

                def _is_next(e_):
                    e_ = _rl(f, e_)
                    if isinstance(e_, ast.Name) and st is not None:
                        # the binding that reaches the store (`num = next(counter)` in the miss branch)
                        from .common import reaching_def_nodes
                        cfg_ = typer.cfg_of(f)
                        at_ = [cn_ for cn_ in cfg_.nodes if cn_.kind == "stmt" and cn_.ast is st]
                        ds_ = reaching_def_nodes(at_[0], e_.id) if at_ else None
                        if ds_ and len(ds_) == 1:
                            e_ = ds_[0].ast.value
                    return e_ if isinstance(e_, ast.Call) and norm(e_.func) == "next" and e_.args and isinstance(e_.args[0], ast.Attribute) else None
                val_ = _rl(f, st.value) if st is not None else None
                if st is not None and isinstance(val_, ast.Tuple) and sum(1 for e_ in val_.elts if _is_next(e_) is not None) == 1:
                    # the memo keeps the number together with other data: (num, node); every read takes that component
                    idx_ = next(i_ for i_, e_ in enumerate(val_.elts) if _is_next(e_) is not None)
                    ctr_attr = _is_next(val_.elts[idx_]).args[0].attr
                    loads_ = [x for x in walk_own(f.node) if isinstance(x, ast.Subscript) and isinstance(x.ctx, ast.Load)
                              and isinstance(x.value, ast.Attribute) and x.value.attr == ids_attr]
                    picked = [x for x in walk_own(f.node) if isinstance(x, ast.Subscript) and any(x.value is l_ for l_ in loads_)
                              and isinstance(x.slice, ast.Constant) and x.slice.value == idx_]
                    if len(picked) == len(loads_):
                        ctx.inst("D4", f, st, "new nodes get the next counter value (kept as component %d of the memo entry)" % idx_)
                    else:
                        ctx.viol("D4", f, st, "the memo entry is a tuple with the number at position %d, but a lookup does not take that component" % idx_)
                elif st is not None and _is_next(st.value) is not None:
                    ctr_attr = _is_next(st.value).args[0].attr
                    ctx.inst("D4", f, st, "new nodes get the next counter value")
                else:
                    ctx.viol("D4", f, st or node, "a node seen for the first time does not get next(<counter>)")
    if ids_attr is None:
        raise AnalysisError("anchor: identifier map in %s._default_nodenamefunc not found" % clsname)
    # get-or-insert: the store happens only on a miss of the lookup (KeyError handler or membership test)
    n += 1
    cfg = typer.cfg_of(f)
    ok = False
    tries = [t for t in walk_own(f.node) if isinstance(t, ast.Try)]
    for t in tries:
        body_loads = [s_ for s_ in ast.walk(ast.Module(body=t.body, type_ignores=[])) if isinstance(s_, ast.Subscript) and isinstance(s_.ctx, ast.Load)]
        hs = [h for h in t.handlers if h.type is not None and norm(h.type) == "KeyError"]
        stores = [s_ for h in hs for s_ in ast.walk(h) if isinstance(s_, ast.Subscript) and isinstance(s_.ctx, ast.Store)]
        if body_loads and stores:
            ok = True
    if not ok:
        store_nodes = [cn for cn in cfg.nodes if cn.kind == "stmt" and isinstance(cn.ast, ast.Assign) and any(
            isinstance(t_, ast.Subscript) and isinstance(t_.value, ast.Attribute) and t_.value.attr == ids_attr for t_ in cn.ast.targets)]
        good = bool(store_nodes)
        for cn in store_nodes:
            key = next(norm(t_.slice) for t_ in cn.ast.targets if isinstance(t_, ast.Subscript))
            miss = False
            for c, o, _ in cfg.guards_of(cn):
                if isinstance(c, ast.Compare) and len(c.ops) == 1 and norm(c.left) == key and isinstance(c.comparators[0], ast.Attribute) \
                        and c.comparators[0].attr == ids_attr:
                    if (isinstance(c.ops[0], ast.NotIn) and o is True) or (isinstance(c.ops[0], ast.In) and o is False):
                        miss = True
            if not miss:
                good = False
        ok = good
    if ok:
        ctx.inst("D4", f, f.node, "get-or-insert idiom (a number is assigned only when the node has none yet)")
    else:
        ctx.viol("D4", f, f.node, "identifier lookup is not get-or-insert: a node does not keep its identifier",
                 construct="%s._default_nodenamefunc: no get-or-insert" % clsname)
    # stability: map and counter are (re)assigned only in __init__
    cls = p.cls(clsname)
    for c in cls.mro():
        for g in c.funcs():
            for node in walk_own(g.node):
                if isinstance(node, ast.Attribute) and isinstance(node.ctx, (ast.Store, ast.Del)) and \
                        node.attr in (ids_attr, ctr_attr) and isinstance(node.value, ast.Name) and node.value.id == g.selfname:
                    n += 1
                    if g.srcname == "__init__":
                        ctx.inst("D4", g, node, "identifier state initialised in __init__")
                    else:
                        ctx.viol("D4", g, node, "identifier map/counter is reassigned in %s: identifiers are not stable across the node "
                                 "pass, the edge pass and repeated iteration" % g.qual)
            for node in walk_own(g.node):
                if isinstance(node, ast.Call) and isinstance(node.func, ast.Attribute) and node.func.attr in ("clear", "pop", "popitem") \
                        and isinstance(node.func.value, ast.Attribute) and node.func.value.attr == ids_attr:
                    n += 1
                    ctx.viol("D4", g, node, "identifier map is emptied in %s" % g.qual)
    # the name returned is a function of the number only
    for r in walk_own(f.node):
        if isinstance(r, ast.Return) and r.value is not None:
            n += 1
            nodeparam = f.posparams[1] if len(f.posparams) > 1 else "node"
            uses_node = [x for x in ast.walk(r.value) if isinstance(x, ast.Attribute) and isinstance(x.value, ast.Name) and x.value.id == nodeparam]
            direct_node = [x for x in ast.walk(r.value) if isinstance(x, ast.Name) and x.id == nodeparam]
            if not uses_node and not direct_node:
                ctx.inst("D4", f, r, "identifier text computed from the number alone")
            else:
                ctx.viol("D4", f, r, "identifier text depends on the node itself (%s), not only on its number" % norm((uses_node + direct_node)[0]))
    return n


# ---------------------------------------------------------------------- D5
def rule_D5_structure(ctx, typer, clsname, closing=None, writer="to_dotfile"):
    p = ctx.p
    n = 0
    it = p.func(clsname, "__iter")
    order = []
    chains = {}
    for st in strip_doc(it.node.body):
        if isinstance(st, ast.Expr) and isinstance(st.value, ast.Yield):
            order.append(("yield", st.value.value))
        elif isinstance(st, ast.Assign) and isinstance(st.value, ast.Call) and norm(st.value.func) in ("itertools.chain", "chain") \
                and len(st.targets) == 1 and isinstance(st.targets[0], ast.Name):
            chains[st.targets[0].id] = st.value
        elif isinstance(st, (ast.For,)) and (
                (isinstance(st.iter, ast.Name) and st.iter.id in chains) or
                (isinstance(st.iter, ast.Call) and norm(st.iter.func) in ("itertools.chain", "chain"))):
            ch = chains[st.iter.id] if isinstance(st.iter, ast.Name) else st.iter
            body_ok = len(st.body) == 1 and isinstance(st.body[0], ast.Expr) and isinstance(st.body[0].value, ast.Yield) \
                and isinstance(st.body[0].value.value, ast.Name) and isinstance(st.target, ast.Name) \
                and st.body[0].value.value.id == st.target.id
            for a_ in ch.args:
                if isinstance(a_, ast.Call) and isinstance(a_.func, ast.Attribute):
                    order.append(("for", a_.func.attr, body_ok, st))
                else:
                    order.append(("other", a_))
        elif isinstance(st, ast.Expr) and isinstance(st.value, ast.YieldFrom) and isinstance(st.value.value, ast.Call) \
                and norm(st.value.value.func) in ("itertools.chain", "chain"):
            for a_ in st.value.value.args:
                if isinstance(a_, ast.Call) and isinstance(a_.func, ast.Attribute):
                    order.append(("for", a_.func.attr, True, st))
                else:
                    order.append(("other", a_))
        elif isinstance(st, ast.For) and isinstance(st.iter, ast.Call) and isinstance(st.iter.func, ast.Attribute):
            body_ok = len(st.body) == 1 and isinstance(st.body[0], ast.Expr) and isinstance(st.body[0].value, ast.Yield) \
                and isinstance(st.body[0].value.value, ast.Name) and isinstance(st.target, ast.Name) \
                and st.body[0].value.value.id == st.target.id
            order.append(("for", st.iter.func.attr, body_ok, st))
        elif isinstance(st, ast.Expr) and isinstance(st.value, ast.YieldFrom) and isinstance(st.value.value, ast.Call) \
                and isinstance(st.value.value.func, ast.Attribute):
            order.append(("for", st.value.value.func.attr, True, st))
        elif isinstance(st, ast.Assign) and all(isinstance(t_, ast.Name) for t_ in st.targets) and not any(
                isinstance(c_, ast.Call) and isinstance(c_.func, ast.Attribute) and c_.func.attr.startswith("__iter") for c_ in ast.walk(st.value)) \
                and not any(isinstance(x_, (ast.Yield, ast.YieldFrom)) for x_ in ast.walk(st.value)):
            continue  # a named intermediate value (e.g. the parts of the header line): produces no line
        elif isinstance(st, ast.Expr) and isinstance(st.value, ast.Call) and isinstance(st.value.func, ast.Attribute) \
                and st.value.func.attr in ("debug", "info", "warning", "error", "log") and isinstance(st.value.func.value, ast.Name) \
                and isinstance(it.module.assigns.get(st.value.func.value.id), ast.Call) \
                and norm(it.module.assigns[st.value.func.value.id].func) in ("logging.getLogger", "getLogger"):
            continue  # diagnostics through the module logger: produces no line
        elif isinstance(st, ast.FunctionDef) and not any(isinstance(x_, (ast.Yield, ast.YieldFrom)) for x_ in ast.walk(st)):
            continue  # a local helper is defined: produces no line
        else:
            order.append(("other", st))
    want = ["yield", "__iter_options", "__iter_nodes", "__iter_edges"] + (["yield"] if closing else [])
    got = []
    for o in order:
        if o[0] == "yield":
            got.append("yield")
        elif o[0] == "for":
            got.append("__" + o[1].lstrip("_") if not o[1].startswith("__") else o[1])
        else:
            got.append("other:" + type(o[1]).__name__)
    n += 1
    if got != want:
        ctx.viol("D5", it, it.node, "line order of the export is %s, expected header, options, node lines, edge lines%s" % (
            got, ", closing brace" if closing else ""), construct="%s.__iter order %s" % (clsname, "/".join(got)))
    else:
        ctx.inst("D5", it, it.node, "header, options, nodes, edges%s in this order, each line passed on unchanged" % (", closing" if closing else ""))
        for o in order:
            if o[0] == "for":
                n += 1
                if not o[2]:
                    ctx.viol("D5", it, o[3], "lines of %s are not passed on unchanged" % o[1])
        if closing:
            last = order[-1][1]
            n += 1
            if not (isinstance(last, ast.Constant) and last.value == closing):
                ctx.viol("D5", it, order[-1][1], "closing line is `%s`, not %r" % (norm(last), closing))
            else:
                ctx.inst("D5", it, last, "closing line %r" % closing)
    # file writer writes exactly the lines of __iter__
    w = p.func(clsname, writer)
    n += 1
    loops = [x for x in walk_own(w.node) if isinstance(x, ast.For) and isinstance(x.iter, ast.Name) and x.iter.id == w.selfname]
    good = False
    for lp in loops:
        # leading `name = <expr>` steps of the loop body are substituted into the write
        binds = {}
        body = list(lp.body)
        while len(body) > 1 and isinstance(body[0], ast.Assign) and len(body[0].targets) == 1 and isinstance(body[0].targets[0], ast.Name) \
                and not any(isinstance(x, ast.Call) for x in ast.walk(body[0].value)):
            binds[body[0].targets[0].id] = body[0].value
            body = body[1:]
        if len(body) == 1 and isinstance(body[0], ast.Expr) and isinstance(body[0].value, ast.Call):
            c = body[0].value
            if isinstance(c.func, ast.Attribute) and c.func.attr == "write" and len(c.args) == 1:
                a = c.args[0]
                for _ in range(3):
                    if isinstance(a, ast.Name) and a.id in binds:
                        a = binds[a.id]
                if isinstance(a, ast.BinOp) and isinstance(a.op, ast.Mod) and isinstance(a.left, ast.Constant) and a.left.value == "%s\n" \
                        and isinstance(a.right, ast.Name) and isinstance(lp.target, ast.Name) and a.right.id == lp.target.id:
                    good = True
    if good:
        ctx.inst("D5", w, w.node, "%s writes each line of the iteration followed by a newline" % writer)
    else:
        ctx.viol("D5", w, w.node, "%s does not write exactly the lines of the iteration" % writer, construct="%s.%s body" % (clsname, writer))
    return n


def rule_D5_legacy(ctx):
    """RenderTreeGraph adds nothing but a forwarding __init__"""
    cls = ctx.p.cls("RenderTreeGraph")
    n = 1
    base_ok = [b.name for b in cls.bases] == ["DotExporter"]
    members = sorted(cls.members)
    if not base_ok or members != ["__init__"] or cls.assigns:
        ctx.viol("D5", None, cls.node, "legacy RenderTreeGraph no longer is DotExporter plus a forwarding constructor (bases %s, members %s)" % (
            [b.name for b in cls.bases], members), construct="class RenderTreeGraph", file=cls.module.relpath, qual="RenderTreeGraph",
            line=cls.node.lineno)
        return n
    init = cls.members["__init__"]
    a = init.node.args
    fwd = False
    for c in walk_own(init.node):
        if isinstance(c, ast.Call) and isinstance(c.func, ast.Attribute) and c.func.attr == "__init__" and "super" in norm(c.func.value):
            stars = [x for x in c.args if isinstance(x, ast.Starred)]
            kws = [k for k in c.keywords if k.arg is None]
            if a.vararg and a.kwarg and len(stars) == 1 and norm(stars[0].value) == a.vararg.arg and len(c.args) == 1 \
                    and len(kws) == 1 and norm(kws[0].value) == a.kwarg.arg and len(c.keywords) == 1:
                fwd = True
    n += 1
    # spelled-out form: the very parameter list of DotExporter.__init__ (names, order, defaults), each handed on under its own name
    explicit = None
    if not a.vararg and not a.kwarg and not a.kwonlyargs:
        base = ctx.p.func("DotExporter", "__init__")
        ba = base.node.args

        def sig(x):
            names = [q.arg for q in x.posonlyargs + x.args][1:]
            dfl = [norm(d) for d in x.defaults]
            return names, dfl
        same_sig = sig(a) == sig(ba) and not ba.vararg and not ba.kwarg and not ba.kwonlyargs
        names = sig(a)[0]
        ok_fwd = False
        for c in walk_own(init.node):
            if isinstance(c, ast.Call) and isinstance(c.func, ast.Attribute) and c.func.attr == "__init__" and "super" in norm(c.func.value):
                got = {}
                ok_fwd = not any(isinstance(x, ast.Starred) for x in c.args) and all(k.arg is not None for k in c.keywords)
                for i, x in enumerate(c.args):
                    if i < len(names):
                        got[names[i]] = norm(x)
                for k in c.keywords:
                    got[k.arg] = norm(k.value)
                ok_fwd = ok_fwd and got == {q: q for q in names}
        explicit = same_sig and ok_fwd
        if not same_sig and ok_fwd:
            ctx.viol("D5", init, init.node, "RenderTreeGraph.__init__ spells out its parameters as %s, DotExporter.__init__ has %s: positional "
                     "arguments of the legacy class land in other options than with DotExporter" % (sig(a)[0], sig(ba)[0]),
                     construct="RenderTreeGraph.__init__ parameter list differs from DotExporter's")
            return n
    if explicit:
        ctx.inst("D5", init, init.node, "same parameter list as DotExporter.__init__, each handed on under its own name")
    elif fwd and len(a.args) == 1:
        ctx.inst("D5", init, init.node, "forwards *args, **kwargs unchanged to DotExporter.__init__")
    else:
        ctx.viol("D5", init, init.node, "RenderTreeGraph.__init__ does not forward all its arguments unchanged to DotExporter",
                 construct="RenderTreeGraph.__init__ forwarding")
    return n


def rule_init_stores(ctx, clsname, rule="D5"):
    """the constructor stores every option it accepts under its own name"""
    f = ctx.p.func(clsname, "__init__")
    n = 0
    stored = {}
    for node in walk_own(f.node):
        if isinstance(node, ast.Assign) and len(node.targets) == 1 and isinstance(node.targets[0], ast.Attribute) \
                and isinstance(node.targets[0].value, ast.Name) and node.targets[0].value.id == f.selfname:
            stored[node.targets[0].attr] = node.value
    fwd = set()
    for c in walk_own(f.node):
        if isinstance(c, ast.Call) and isinstance(c.func, ast.Attribute) and c.func.attr == "__init__":
            for k in c.keywords:
                if k.arg and isinstance(k.value, ast.Name) and k.value.id == k.arg:
                    fwd.add(k.arg)
            for a in c.args:
                if isinstance(a, ast.Name):
                    fwd.add(a.id)
    for prm in f.posparams[1:]:
        n += 1
        v = stored.get(prm)
        if (isinstance(v, ast.Name) and v.id == prm) or prm in fwd:
            ctx.inst(rule, f, prm, "option stored/forwarded under its own name")
        else:
            ctx.viol(rule, f, f.node, "constructor option `%s` is not stored unchanged as self.%s: the setting is ignored or altered" % (prm, prm),
                     construct="%s.__init__: option %s" % (clsname, prm))
    return n


# ---------------------------------------------------------------------- D1c
def rule_D1c_complete(ctx, typer, clsname):
    """no admitted node / admitted link is skipped: every path through the node
    loop yields its line; every path through the child loop yields the edge
    unless filter_(child) is false or stop(child) is true"""
    p = ctx.p
    n = 0
    for fname, kind in (("__iter_nodes", "node"), ("__iter_edges", "edge")):
        f = p.func(clsname, fname)
        cfg = typer.cfg_of(f)
        loopins = [x for x in cfg.nodes if x.kind == "loopin"]
        if kind == "edge":
            loopins = [x for x in loopins if any(isinstance(y, ast.Attribute) and y.attr == "children" for y in ast.walk(x.ast.iter))]
        else:
            loopins = [x for x in loopins if isinstance(x.ast.iter, ast.Call) and norm(x.ast.iter.func).endswith("PreOrderIter")]
        if not loopins:
            raise AnalysisError("anchor: %s loop in %s.%s not found" % (kind, clsname, fname))
        for li in loopins:
            n += 1
            var = li.ast.target.id if isinstance(li.ast.target, ast.Name) else None
            heads = [x for x in cfg.nodes if x.kind == "fornext" and x.ast is li.ast]
            ys = [x for x in cfg.nodes if x.kind == "stmt" and isinstance(x.ast, ast.Expr) and isinstance(x.ast.value, ast.Yield)
                  and cfg.dominates(li, x)]
            skip_ok = []
            if kind == "edge" and var:
                for g in cfg.nodes:
                    if g.kind == "guard" and isinstance(g.cond, ast.Call) and len(g.cond.args) == 1 and norm(g.cond.args[0]) == var:
                        nm = _last_name(g.cond.func)
                        if (nm == "filter_" and g.outcome is False) or (nm == "stop" and g.outcome is True):
                            skip_ok.append(g)
            reach = cfg.reach_from(li, avoid=ys + skip_ok, labels_excluded=("exc",))
            if any(h.id in reach for h in heads) or cfg.exit.id in reach:
                ctx.viol("D1c", f, li.ast.target, "some path through the %s loop emits no line although the %s is admitted: an admitted "
                         "%s is missing from the output" % (kind, kind, "node" if kind == "node" else "link"),
                         construct="%s.%s: %s skipped on some path" % (clsname, fname, kind))
            else:
                ctx.inst("D1c", f, li.ast.target, "every admitted %s yields its line" % kind)
    return n


def _in_quoted_slot(root, call):
    """the call is an operand of a %-format whose placeholder at that position is wrapped in double quotes"""
    for t in ast.walk(root):
        if not (isinstance(t, ast.BinOp) and isinstance(t.op, ast.Mod) and isinstance(t.left, ast.Constant) and isinstance(t.left.value, str)):
            continue
        ops = list(t.right.elts) if isinstance(t.right, ast.Tuple) else [t.right]
        for i, o in enumerate(ops):
            if o is call:
                fmt = t.left.value
                pos, k, j = [], 0, 0
                while j < len(fmt) - 1:
                    if fmt[j] == "%":
                        if fmt[j + 1] == "%":
                            j += 2
                            continue
                        pos.append(j)
                        j += 2
                        continue
                    j += 1
                if i < len(pos):
                    q = pos[i]
                    return q > 0 and fmt[q - 1] == '"' and fmt[q:q + 2] == "%s" and q + 2 < len(fmt) and fmt[q + 2] == '"'
                return False
    return False
