"""C02 — attach/move/detach/children assignment have the specified effect."""

from .. import linkrules
from .common import typer_for
from .mixins import analyses, record_stats, report

PROP = "C02"
LEVEL = "other"
EXPLANATION = (
    "Decides five structural clauses, each necessary for the specified effect: E1 every hook/link write of a parent "
    "assignment is preceded by the identity test `stored parent is not new parent` (no-op when unchanged); E2 TreeError/"
    "LoopError refusals and children validation precede every effect of the call; E3 duplicate children are detected on "
    "id() values; E4 sibling lists are edited only by identity-based removal and append-at-end on the list as read after the last "
    "user code ran (any other list operation on a children list, and an edit of a list read before a hook, is reported); E5 children assignment detaches all former children before attaching, iterates the "
    "validated tuple itself in order assigning child.parent = node, and the Node/AnyNode/SymlinkNode constructors delegate "
    "parent=/children= to the setters. E6 a cached children tuple (memo field) is dropped next to every list write (as C01 W9). Checked on all abstract traces of the entry points of both mixins. Not decided: "
    "that the resulting concrete forest equals the specification for every state, termination of the ancestor walk, "
    "which error class wins when several apply."
    " Added in rounds 16-17: E2 (only-if) a type test that guards a refusal names the node mixins, never type(self) / __class__ (legal trees mix node classes); E5 the materialisation tuple(children) may live in a private helper that obeys the same rule and returns the tuple; E5c the parent may be assigned under `parent is not None` only; W10 as in C01."
)
ASSUMPTIONS = [
    "abstract traces: hooks/unknown callees opaque, loops unrolled 0..2",
    "LightNodeMixin has no node-type check (frozen C18 difference)",
]


def run(ctx):
    typer = typer_for(ctx)
    linkrules.rule_E3(ctx, typer)
    # a value cached from the links (memo field) is dropped together with every change of those links: otherwise the public
    # `children` view disagrees with the stored links right after a mutation
    from ..memo import rule_coherence
    rule_coherence(ctx, "E6")
    linkrules.rule_W10_one_shot(ctx)
    linkrules.rule_E5_constructors(ctx, typer)
    ctx.floor("E3", 2)
    ctx.floor("E5c", 6)
    mas = analyses(ctx)
    res = []
    for m, ma in mas.items():
        n, probs = ma.noop_guard_problems()
        res.append(("E1 effects behind no-op guard", n, probs))
        n, probs = ma.refusal_before_effect()
        res.append(("E2 refusals before effects", n, probs))
        n, probs = ma.loopcheck_problems()
        for pr, _, _ in probs:
            pr.rule = "E2"
        res.append(("E2 loop refusals precede attaches", n, probs))
        n, probs = ma.pair_problems(("E4",))
        # a sibling list read before user code ran and edited afterwards: the node is appended to / removed from a dead
        # list, so the assignment does not have its effect (shared with C01 W2, reported here as E4)
        _, stale = ma.pair_problems(("W2",))
        for pr, nm, tr in stale:
            if "between list read and" in (pr.construct or ""):
                pr.rule = "E4"
                probs.append((pr, nm, tr))
        res.append(("E4 list edits", n, probs))
        n, probs = ma.children_assignment_order()
        res.append(("E5 children assignment order", n, probs))
    report(ctx, res)
    record_stats(ctx, mas)
    ctx.floor("E1 effects behind no-op guard", 1000)
    ctx.floor("E2 refusals before effects", 300)
    ctx.floor("E5 children assignment order", 500)
    _rule_argument_materialised_first(ctx, typer)
    _rule_child_type_check_total(ctx, typer)
    _rule_type_refusals_admit_every_node(ctx, typer)
    # raise sites present (anchors): type check (NodeMixin only), duplicates, loop x2
    import ast
    from ..model import AnalysisError
    for m, want in (("NodeMixin", {"TreeError": 3, "LoopError": 2}), ("LightNodeMixin", {"TreeError": 1, "LoopError": 2})):
        cls = ctx.p.cls(m)
        got = {"TreeError": 0, "LoopError": 0}
        for f in cls.funcs():
            for n_ in ast.walk(f.node):
                if isinstance(n_, ast.Raise) and n_.exc is not None:
                    for name in _raised_classes(f.node, n_.exc):
                        if name in got:
                            got[name] += 1
        for k, v in want.items():
            ctx.instances["E2 raise sites"] += got[k]
            if got[k] < v:
                f = ctx.p.func(m, "parent", "setter")
                ctx.viol("E2", f, f.node, "%s has %d %s refusal site(s); %d are needed (type of parent, type of child, "
                         "duplicate child / self as parent, ancestor as parent): a call that must be refused is accepted" % (
                             m, got[k], k, v), construct="%s: %s refusal sites %d < %d" % (m, k, got[k], v))


def _raised_classes(fn, exc):
    """exception class name(s) of a raise operand, one entry per refusal source: `raise E(...)`, or `raise v` with
    `v = E(...)` bound in the function; an `E(msg)` whose message variable is bound to several (non-None) messages is
    one refusal per message (single raise point after several checks)"""
    import ast
    if isinstance(exc, ast.Name):
        out = []
        for n in ast.walk(fn):
            if isinstance(n, ast.Assign) and len(n.targets) == 1 and isinstance(n.targets[0], ast.Name) \
                    and n.targets[0].id == exc.id and isinstance(n.value, ast.Call):
                out.extend(_raised_classes(fn, n.value))
        return out
    if isinstance(exc, ast.Call):
        name = ast.unparse(exc.func)
        k = 1
        if exc.args and isinstance(exc.args[0], ast.Name):
            msgs = [n for n in ast.walk(fn) if isinstance(n, ast.Assign) and len(n.targets) == 1
                    and isinstance(n.targets[0], ast.Name) and n.targets[0].id == exc.args[0].id
                    and not (isinstance(n.value, ast.Constant) and n.value.value is None)]
            k = max(1, len(msgs))
        return [name] * k
    return [ast.unparse(exc)]


def _rule_argument_materialised_first(ctx, typer):
    """E5: the iterable handed to `children =` is turned into a tuple BEFORE anything else looks at it; every other use
    of the parameter is dominated by that conversion (a one-shot iterator validated first would be empty afterwards).
    The conversion may live in a private helper of the class that obeys the same rule and returns the tuple."""
    import ast
    from ..model import Func, mangle
    from .common import cfg_nodes_containing, walk_own

    def helper_of(f, call):
        """Func of `Cls.__helper(prm)` / `self.__helper(prm)`"""
        if not (isinstance(call, ast.Call) and isinstance(call.func, ast.Attribute) and call.func.attr.startswith("__") and f.cls is not None):
            return None
        mem = f.cls.members.get(mangle(f.cls.name, call.func.attr))
        return mem if isinstance(mem, Func) else None

    def check(f, prm, label, depth=0):
        """-> True when the rule holds in f for parameter prm (violations are reported here); for a helper also requires
        that every return hands back the materialised value"""
        cfg = typer.cfg_of(f)
        conv = []
        extra_ok = set()
        for cn in cfg.stmt_nodes(("stmt",)):
            a = cn.ast
            if isinstance(a, ast.Assign) and isinstance(a.value, ast.Call) and isinstance(a.value.func, ast.Name) \
                    and a.value.func.id in ("tuple", "list") and len(a.value.args) == 1 and isinstance(a.value.args[0], ast.Name) \
                    and a.value.args[0].id == prm:
                conv.append(cn)
            elif isinstance(a, ast.Assign) and isinstance(a.value, ast.Call) and isinstance(a.value.func, ast.Name) \
                    and a.value.func.id in ("tuple", "list") and len(a.value.args) == 1 and isinstance(a.value.args[0], ast.IfExp):
                # tuple(arg if arg is not None else ()): None accepted as "no children"; only identity tests on the raw argument
                ie = a.value.args[0]
                from .common import none_test
                nt = none_test(ie.test)
                arm, other = (ie.orelse, ie.body) if (nt is not None and nt[1]) else (ie.body, ie.orelse)
                if nt is not None and nt[0] == prm and isinstance(arm, ast.Name) and arm.id == prm \
                        and isinstance(other, (ast.Tuple, ast.List)) and not other.elts:
                    conv.append(cn)
                    extra_ok |= {id(x) for x in ast.walk(ie) if isinstance(x, ast.Name) and x.id == prm}
            elif depth == 0 and isinstance(a, ast.Assign) and isinstance(a.value, ast.Call) and len(a.value.args) == 1 and not a.value.keywords \
                    and isinstance(a.value.args[0], ast.Name) and a.value.args[0].id == prm:
                h = helper_of(f, a.value)
                if h is not None:
                    hp = [x for x in h.posparams if x != h.selfname]
                    if len(hp) == 1:
                        ctx.touch(h)
                        if check(h, hp[0], "%s (for %s)" % (h.qual, label), depth + 1):
                            conv.append(cn)
                        else:
                            return False
        if not conv:
            ctx.viol("E5", f, f.node, "the assigned iterable is never materialised with tuple(...): a generator is consumed by the first "
                     "loop over it", construct="%s: no materialisation" % label)
            return False
        conv_args = {id(c.ast.value.args[0]) for c in conv} | extra_ok
        bad = None
        # materialised under ANOTHER name: the raw argument must not be looked at again at all (validating or iterating
        # the original after tuple() consumed a one-shot iterator sees nothing)
        other_name = [c for c in conv if not any(isinstance(t, ast.Name) and t.id == prm for t in c.ast.targets)]
        if other_name and len(other_name) == len(conv):
            for x in walk_own(f.node):
                if isinstance(x, ast.Name) and x.id == prm and isinstance(x.ctx, ast.Load) and id(x) not in conv_args:
                    bad = x
            if bad is not None:
                ctx.viol("E5", f, bad, "the raw argument `%s` is used again after it was materialised as `%s`: a one-shot iterator is "
                         "already exhausted there, so that use (validation, iteration) sees nothing" % (
                             prm, norm(other_name[0].ast.targets[0])), construct="%s: raw argument used after tuple()" % label)
                return False
        for x in walk_own(f.node):
            if isinstance(x, ast.Name) and x.id == prm and isinstance(x.ctx, ast.Load) and id(x) not in conv_args:
                for h in cfg_nodes_containing(cfg, x):
                    if not any(cfg.dominates(c, h) for c in conv):
                        bad = x
        if bad is not None:
            ctx.viol("E5", f, bad, "the assigned iterable `%s` is used before it has been turned into a tuple: a one-shot iterator "
                     "(generator, reversed, filter) is exhausted by that use and the children end up empty" % prm,
                     construct="%s: argument used before tuple()" % label)
            return False
        if depth:
            names = {norm(t) for c in conv for t in c.ast.targets}
            rets = [r for r in walk_own(f.node) if isinstance(r, ast.Return)]
            if not rets or not all(r.value is not None and norm(r.value) in names for r in rets):
                ctx.viol("E5", f, f.node, "the helper that materialises the assigned iterable does not hand the tuple back on every return: its "
                         "caller goes on with something else", construct="%s: tuple not returned" % label)
                return False
        ctx.inst("E5", f, conv[0].ast, "argument materialised before any other use")
        return True
    for m in ("NodeMixin", "LightNodeMixin"):
        f = ctx.p.func(m, "children", "setter")
        prm = [x for x in f.posparams if x != f.selfname][0]
        check(f, prm, "%s.children.setter" % m)


def _rule_type_refusals_admit_every_node(ctx, typer):
    """E2 (only-if direction): a type test that guards a refusal admits every tree node - it names the node mixins, never
    the receiver's own class or an exact class: trees mix node classes (File below Directory, a base-class node below a
    subclass node), and those calls must go through"""
    import ast
    from .. import tables as T
    for m in T.MIXINS:
        cls = ctx.p.classes.get(m)
        if cls is None:
            continue
        for f in cls.funcs():
            cfg = typer.cfg_of(f)
            for rn in cfg.stmt_nodes(("raisestmt",)):
                for c, o, _ in cfg.guards_of(rn):
                    if isinstance(c, ast.Call) and isinstance(c.func, ast.Name) and c.func.id in ("isinstance", "issubclass") and len(c.args) == 2 and o is False:
                        names = [n_.id for n_ in ast.walk(c.args[1]) if isinstance(n_, ast.Name)]
                        own = [n_ for n_ in ast.walk(c.args[1]) if (isinstance(n_, ast.Call) and norm(n_.func) == "type") or
                               (isinstance(n_, ast.Attribute) and n_.attr == "__class__")]
                        if own and not any(x in T.MIXINS for x in names):
                            ctx.viol("E2", f, c, "the call is refused unless `%s`: the test is against the class of one particular node, not against "
                                     "the node mixins, so a legal node of another class (a sibling class, a base-class instance below a "
                                     "subclass instance) is refused" % norm(c)[:80], construct="%s: refusal on `%s`" % (f.qual, norm(c)[:60]))
                        elif any(x in T.MIXINS for x in names):
                            ctx.inst("E2", f, c, "type refusal tests against the node mixins")
                    elif isinstance(c, ast.Compare) and len(c.ops) == 1 and isinstance(c.ops[0], (ast.Is, ast.IsNot, ast.Eq, ast.NotEq)):
                        sides = [c.left, c.comparators[0]]
                        exact = [x for x in sides if (isinstance(x, ast.Call) and norm(x.func) == "type" and len(x.args) == 1)
                                 or (isinstance(x, ast.Attribute) and x.attr == "__class__")]
                        refuses_on_diff = (isinstance(c.ops[0], (ast.Is, ast.Eq)) and o is False) or (isinstance(c.ops[0], (ast.IsNot, ast.NotEq)) and o is True)
                        if len(exact) == 2 and refuses_on_diff:
                            ctx.viol("E2", f, c, "the call is refused when `%s` says the two nodes are of different exact classes: legal trees mix "
                                     "node classes" % norm(c)[:80], construct="%s: refusal on `%s`" % (f.qual, norm(c)[:60]))


def _rule_child_type_check_total(ctx, typer):
    """E2: a child that is not a tree node is refused - with no exception for None (unlike the parent, None is not a
    legal child)"""
    import ast
    from .common import none_test
    cls = ctx.p.cls("NodeMixin")
    found = False
    for f in cls.funcs():
        cfg = typer.cfg_of(f)
        for rn in cfg.stmt_nodes(("raisestmt",)):
            gs = cfg.guards_of(rn)
            subj = None
            for c, o, _ in gs:
                if isinstance(c, ast.Call) and isinstance(c.func, ast.Name) and c.func.id == "isinstance" and o is False and c.args:
                    subj = norm(c.args[0])
            if subj is None:
                continue
            # only the per-child check: its subject is a loop variable over the children
            loops = [lp for lp in ast.walk(f.node) if isinstance(lp, ast.For) and isinstance(lp.target, ast.Name) and lp.target.id == subj]
            if not loops:
                continue
            found = True
            esc = [c for c, o, _ in gs if none_test(c) is not None and none_test(c)[0] == subj]
            if esc:
                ctx.viol("E2", f, esc[0], "the type check of a child is skipped when the child is None (`%s`): None is accepted as a child and "
                         "fails later, after other children were already moved" % norm(esc[0]), construct="child type check exempts None")
            else:
                ctx.inst("E2", f, rn.ast, "every non-node child is refused")
    if not found:
        ctx.notes.append("E2: per-child type check not located (covered by the raise-site count)")


from ..model import norm  # noqa: E402
