"""C14 — search functions: filtered pre-order and count bounds."""

import ast

from ..model import AnalysisError, norm
from .common import call_binding, check_forwarding, find_calls, none_test, typer_for, walk_own
from .exporter_rules import rule_optint_truthiness

PROP = "C14"
LEVEL = "other"
TECHNIQUE = "static analysis: parameter-forwarding agreement between sibling wrappers, CFG guards of the raise sites with normalised comparisons"
EXPLANATION = (
    "F1 each anytree.cachedsearch wrapper has the same parameter list (names, order, defaults) as its anytree.search "
    "namesake and passes every parameter in the slot of the same name; the fallback decorator forwards *args/**kwargs "
    "and returns the result. F2 _findall materialises PreOrderIter(node, filter_, stop, maxlevel) — each value in the slot "
    "of that name — into a tuple and returns it unchanged; every public function forwards all its parameters to "
    "_findall/_find; _find calls _findall with maxcount=1 and returns the first element or None. F3 the CountError raises "
    "are control-dependent on `mincount is not None and len < mincount` resp. `maxcount is not None and len > maxcount` "
    "(None-tests, strict comparisons after normalising orientation), both numbers appear in the message. F4 the "
    "attribute filter reads the attribute inside try/except AttributeError → False and compares with ==; the verdict is initialised per node and every admitted node is examined. F5 the "
    "CountError message templates are constants. Not decided: "
    "that PreOrderIter itself is right (C05/C06)."
    " Added in round 16: F4 `attr in (value,)` is not `attr == value` (containment tests identity first)."
)
ASSUMPTIONS = ["fastcache (optional, not installed) is outside the analysed program", "len() of a tuple is its number of elements"]
S = "anytree/search.py"
CS = "anytree/cachedsearch.py"
NAMES = ("findall", "findall_by_attr", "find", "find_by_attr")


def _sig(f):
    a = f.node.args
    return ([x.arg for x in a.posonlyargs + a.args], [norm(d) for d in a.defaults], [x.arg for x in a.kwonlyargs],
            [norm(d) if d is not None else None for d in a.kw_defaults], a.vararg.arg if a.vararg else None,
            a.kwarg.arg if a.kwarg else None)


def run(ctx):
    p = ctx.p
    typer = typer_for(ctx)
    from .common import rule_format_templates
    rule_format_templates(ctx, typer, [f for f in p.all_funcs if f.module.relpath in (S, CS)], "F5")
    # ---------------------------------------------------------------- F1
    for name in NAMES:
        w = p.modfunc(CS, name)
        s = p.modfunc(S, name)
        ctx.touch(w)
        ctx.touch(s)
        if _sig(w) != _sig(s):
            ctx.viol("F1", w, w.node, "signature differs from anytree.search.%s: %s vs %s" % (name, _sig(w)[:2], _sig(s)[:2]),
                     construct="cachedsearch.%s signature" % name)
        else:
            ctx.inst("F1", w, "def %s" % name, "same parameters, order and defaults as search.%s" % name)
        calls = find_calls(w, lambda c: norm(c.func) == "search.%s" % name)
        rets = [r for r in walk_own(w.node) if isinstance(r, ast.Return)]
        if len(calls) != 1 or len(rets) != 1 or rets[0].value is not calls[0]:
            ctx.viol("F1", w, w.node, "wrapper does not simply return search.%s(...)" % name, construct="cachedsearch.%s body" % name)
            continue
        check_forwarding(ctx, "F1", w, calls[0], s, {q: q for q in s.posparams})
    rc = p.resolve_name(p.module(CS), "_cache")
    if rc is not None and rc[0] == "ext" and not rc[1].startswith("fastcache"):
        w0 = p.modfunc(CS, "findall")
        ctx.viol("F1", w0, w0.node, "the cachedsearch functions are decorated with %s: results are memoised on the arguments while the tree "
                 "stays mutable, so they no longer return what anytree.search returns (stale results, TypeError for unhashable "
                 "arguments)" % rc[1], construct="cachedsearch: _cache is %s" % rc[1])
        return
    cache = p.modfunc(CS, "_cache")
    wrapped = [g for g in p.all_funcs if g.module.relpath == CS and g.srcname == "wrapped"]
    if not wrapped:
        raise AnalysisError("anchor cachedsearch fallback decorator not found")
    wr = wrapped[0]
    a = wr.node.args
    rets = [r for r in walk_own(wr.node) if isinstance(r, ast.Return)]
    good = len(rets) == 1 and isinstance(rets[0].value, ast.Call) and a.vararg and a.kwarg and not a.args
    if good:
        c = rets[0].value
        good = norm(c.func) == "func" and len(c.args) == 1 and isinstance(c.args[0], ast.Starred) and norm(c.args[0].value) == a.vararg.arg \
            and len(c.keywords) == 1 and c.keywords[0].arg is None and norm(c.keywords[0].value) == a.kwarg.arg
    if good:
        ctx.inst("F1", wr, wr.node, "fallback cache decorator returns func(*args, **kwargs)")
    else:
        ctx.viol("F1", wr, wr.node, "fallback cache decorator does not return func(*args, **kwargs) unchanged", construct="cachedsearch fallback wrapper")
    for g in (cache,) + tuple(cache.nested):
        for r in walk_own(g.node):
            if isinstance(r, ast.Return) and g is not wr:
                ctx.inst("F1", g, r, "decorator plumbing")
    # ---------------------------------------------------------------- F2
    fa = p.modfunc(S, "_findall")
    fi = p.modfunc(S, "_find")
    pre = find_calls(fa, lambda c: norm(c.func).endswith("PreOrderIter"))
    if len(pre) != 1:
        raise AnalysisError("anchor: PreOrderIter call in search._findall not found")
    it_init = p.func("AbstractIter", "__init__")
    check_forwarding(ctx, "F2", fa, pre[0], it_init, {"node": "node", "filter_": "filter_", "stop": "stop", "maxlevel": "maxlevel"})
    # result = tuple(PreOrderIter(...)) and returned unchanged
    res_names = set()
    for n in walk_own(fa.node):
        if isinstance(n, ast.Assign) and isinstance(n.value, ast.Call) and norm(n.value.func) == "tuple" and n.value.args \
                and n.value.args[0] is pre[0]:
            for t in n.targets:
                if isinstance(t, ast.Name):
                    res_names.add(t.id)
    rets = [r for r in walk_own(fa.node) if isinstance(r, ast.Return)]
    for r in rets:
        if isinstance(r.value, ast.Name) and r.value.id in res_names or (isinstance(r.value, ast.Call) and norm(r.value.func) == "tuple" and r.value.args and r.value.args[0] is pre[0]):
            ctx.inst("F2", fa, r, "returns the materialised pre-order unchanged")
        else:
            ctx.viol("F2", fa, r, "_findall returns `%s`, not the materialised traversal" % norm(r.value))
    if not res_names and not rets:
        ctx.viol("F2", fa, fa.node, "traversal is not materialised into a tuple", construct="_findall: no tuple(PreOrderIter(...))")
    expect = {
        "findall": (fa, {"node": "node", "filter_": "filter_", "stop": "stop", "maxlevel": "maxlevel", "mincount": "mincount", "maxcount": "maxcount"}),
        "findall_by_attr": (fa, {"node": "node", "filter_": _is_attr_lambda, "maxlevel": "maxlevel", "mincount": "mincount", "maxcount": "maxcount"}),
        "find": (fi, {"node": "node", "filter_": "filter_", "stop": "stop", "maxlevel": "maxlevel"}),
        "find_by_attr": (fi, {"node": "node", "filter_": _is_attr_lambda, "maxlevel": "maxlevel"}),
    }
    for name, (callee, exp) in expect.items():
        f = p.modfunc(S, name)
        _CURRENT[0] = f
        calls = find_calls(f, lambda c: norm(c.func) == callee.srcname)
        rets = [r for r in walk_own(f.node) if isinstance(r, ast.Return)]
        if len(calls) != 1 or len(rets) != 1 or rets[0].value is not calls[0]:
            ctx.viol("F2", f, f.node, "%s does not simply return %s(...)" % (name, callee.srcname), construct="search.%s body" % name)
            continue
        # an option the public function takes under the name of one of the callee's parameters (e.g. a later added `stop`)
        # has to be handed on under that name as well
        exp = dict(exp)
        for q in f.posparams:
            if q in callee.posparams and q not in exp:
                exp[q] = q
        check_forwarding(ctx, "F2", f, calls[0], callee, exp)
    calls = find_calls(fi, lambda c: norm(c.func) == "_findall")
    if len(calls) != 1:
        raise AnalysisError("anchor: _findall call in search._find not found")
    check_forwarding(ctx, "F2", fi, calls[0], fa, {"node": "node", "filter_": "filter_", "stop": "stop", "maxlevel": "maxlevel",
                                                  "maxcount": lambda e: isinstance(e, ast.Constant) and e.value == 1 and not isinstance(e.value, bool)})
    items = None
    for n in walk_own(fi.node):
        if isinstance(n, ast.Assign) and n.value is calls[0] and isinstance(n.targets[0], ast.Name):
            items = n.targets[0].id
    rets = [r for r in walk_own(fi.node) if isinstance(r, ast.Return)]
    ok = False
    if items and len(rets) == 1 and isinstance(rets[0].value, ast.IfExp):
        v = rets[0].value
        ok = norm(v.test) == items and norm(v.body) == "%s[0]" % items and isinstance(v.orelse, ast.Constant) and v.orelse.value is None
        if not ok:
            nt = none_test(v.test)
    if not ok and items:
        # statement form: if items: return items[0] / return None
        texts = sorted(norm(r.value) if r.value is not None else "None" for r in rets)
        ok = texts == sorted(["%s[0]" % items, "None"])
    if not ok and items and len(rets) == 1 and isinstance(rets[0].value, ast.Name):
        # try: first = items[0] / except IndexError: first = None ; return first
        var = rets[0].value.id
        for t in walk_own(fi.node):
            if isinstance(t, ast.Try) and len(t.body) == 1 and isinstance(t.body[0], ast.Assign) and norm(t.body[0].targets[0]) == var \
                    and norm(t.body[0].value) == "%s[0]" % items and len(t.handlers) == 1 and t.handlers[0].type is not None \
                    and norm(t.handlers[0].type) == "IndexError" and len(t.handlers[0].body) == 1 and isinstance(t.handlers[0].body[0], ast.Assign) \
                    and norm(t.handlers[0].body[0].targets[0]) == var and isinstance(t.handlers[0].body[0].value, ast.Constant) \
                    and t.handlers[0].body[0].value.value is None and not t.orelse and not t.finalbody:
                ok = True
    if ok:
        ctx.inst("F2", fi, rets[0], "first match or None")
    else:
        ctx.viol("F2", fi, fi.node, "_find does not return the first match of _findall(..., maxcount=1) or None", construct="search._find result")
    # ---------------------------------------------------------------- F3
    cfg = typer.cfg_of(fa)
    ft = typer.results.get(fa)
    lens = set()
    for n in walk_own(fa.node):
        if isinstance(n, ast.Assign) and isinstance(n.value, ast.Call) and norm(n.value.func) == "len" and n.value.args \
                and isinstance(n.value.args[0], ast.Name) and n.value.args[0].id in res_names:
            for t in n.targets:
                if isinstance(t, ast.Name):
                    lens.add(t.id)

    def is_len(e):
        return (isinstance(e, ast.Name) and e.id in lens) or (isinstance(e, ast.Call) and norm(e.func) == "len" and e.args
                                                               and isinstance(e.args[0], ast.Name) and e.args[0].id in res_names)
    found = {"mincount": 0, "maxcount": 0}
    for node in cfg.stmt_nodes(("raisestmt",)):
        if "CountError" not in norm(node.ast.exc):
            continue
        gs = cfg.guards_of(node)
        bound = None
        for c, o, _ in gs:
            nt = none_test(c)
            if nt is not None and nt[0] in found and (nt[1] is False) == (o is True):
                bound = nt[0]
        cmp_ok, cmp_seen = False, None
        for c, o, _ in gs:
            if isinstance(c, ast.Compare) and len(c.ops) == 1 and isinstance(c.ops[0], (ast.Lt, ast.LtE, ast.Gt, ast.GtE)):
                l, r, op = c.left, c.comparators[0], type(c.ops[0])
                if not o:
                    op = {ast.Lt: ast.GtE, ast.LtE: ast.Gt, ast.Gt: ast.LtE, ast.GtE: ast.Lt}[op]
                if is_len(r) and not is_len(l):
                    l, r = r, l
                    op = {ast.Lt: ast.Gt, ast.LtE: ast.GtE, ast.Gt: ast.Lt, ast.GtE: ast.LtE}[op]
                if is_len(l) and isinstance(r, ast.Name) and r.id in found:
                    cmp_seen = (r.id, op.__name__)
                    want = ast.Lt if r.id == "mincount" else ast.Gt
                    cmp_ok = op is want and (bound == r.id)
        if bound is None:
            ctx.viol("F3", fa, node.ast, "CountError is raised without a dominating `is not None` test of its bound: a bound of None "
                     "(or 0 under a truthiness test) is mishandled")
            continue
        found[bound] += 1
        if cmp_ok:
            ctx.inst("F3", fa, node.ast, "raised iff %s is not None and len %s %s" % (bound, "<" if bound == "mincount" else ">", bound))
        else:
            ctx.viol("F3", fa, node.ast, "CountError for %s is guarded by %s; the specified condition is `len %s %s` (strict): "
                     "a bound equal to the match count is treated wrongly" % (bound, cmp_seen, "<" if bound == "mincount" else ">", bound))
        from .common import expand_straightline
        exc = expand_straightline(node, node.ast.exc)
        names = {x.id for x in ast.walk(exc) if isinstance(x, ast.Name)}
        if bound in names and (names & lens or any(is_len(x) for x in ast.walk(exc))):
            ctx.inst("F3", fa, node.ast, "message names both numbers")
        else:
            ctx.viol("F3", fa, node.ast, "CountError message does not name both the bound and the number found",
                     construct="CountError message for %s" % bound)
    for b, k in found.items():
        if k == 0:
            ctx.viol("F3", fa, fa.node, "no CountError raise for %s: the bound is not enforced" % b, construct="_findall: %s not enforced" % b)
    # both bounds are examined on every path to a normal return: a result is only returned after, for each bound, either
    # `bound is None` held or the comparison with the match count came out within the bound
    rets_cfg = cfg.stmt_nodes(("return",))
    for b in ("mincount", "maxcount"):
        passes = []
        for g in cfg.nodes:
            if g.kind != "guard":
                continue
            nt = none_test(g.cond)
            if nt is not None and nt[0] == b and (nt[1] is True) == (g.outcome is True):
                passes.append(g)  # bound is None
                continue
            c = g.cond
            if isinstance(c, ast.Compare) and len(c.ops) == 1 and isinstance(c.ops[0], (ast.Lt, ast.LtE, ast.Gt, ast.GtE)):
                l, r, op = c.left, c.comparators[0], type(c.ops[0])
                if is_len(r) and not is_len(l):
                    l, r = r, l
                    op = {ast.Lt: ast.Gt, ast.LtE: ast.GtE, ast.Gt: ast.Lt, ast.GtE: ast.LtE}[op]
                if is_len(l) and isinstance(r, ast.Name) and r.id == b:
                    viol_op = ast.Lt if b == "mincount" else ast.Gt
                    within = {ast.Lt: ast.GtE, ast.LtE: ast.Gt, ast.Gt: ast.LtE, ast.GtE: ast.Lt}[viol_op]
                    eff = op if g.outcome else {ast.Lt: ast.GtE, ast.LtE: ast.Gt, ast.Gt: ast.LtE, ast.GtE: ast.Lt}[op]
                    if eff is within:
                        passes.append(g)
        reach = cfg.reach_from(cfg.entry, avoid=passes, labels_excluded=("exc",))
        leak = [r for r in rets_cfg if r.id in reach]
        if leak:
            ctx.viol("F3", fa, leak[0].ast, "a result is returned on a path that never examined %s (neither `%s is None` nor the "
                     "comparison with the match count): the bound is not enforced there" % (b, b), construct="_findall: %s unchecked path" % b)
        else:
            ctx.inst("F3", fa, fa.node.name, "%s examined on every path to a return" % b)
    rule_optint_truthiness(ctx, typer, {S, CS}, rule="F3")
    # ---------------------------------------------------------------- F4
    fb = p.modfunc(S, "_filter_by_name")
    from .common import resolve_local
    if len(fb.posparams) != 3:
        ctx.viol("F4", fb, fb.node, "the attribute filter is no longer `_filter_by_name(node, name, value)` reading getattr(node, name) "
                 "per node (signature %s): attribute names are interpreted differently (e.g. dotted paths)" % (fb.posparams,),
                 construct="_filter_by_name signature %s" % (fb.posparams,))
        ctx.floor("F1", 16)
        ctx.floor("F2", 18)
        ctx.floor("F3", 4)
        return
    nodep, namep, valuep = fb.posparams[0], fb.posparams[1], fb.posparams[2]
    ga = find_calls(fb, lambda c: norm(c.func) == "getattr")
    fcfg = typer.cfg_of(fb)
    # names that hold the attribute value / the verdict
    attr_names = {t.id for n_ in walk_own(fb.node) if isinstance(n_, ast.Assign) and any(n_.value is g for g in ga)
                  for t in n_.targets if isinstance(t, ast.Name)}

    def is_attr_value(e):
        return any(e is g for g in ga) or (isinstance(e, ast.Name) and e.id in attr_names)
    cmps = [c for c in walk_own(fb.node) if isinstance(c, ast.Compare) and len(c.ops) == 1 and isinstance(c.ops[0], ast.Eq)
            and ((is_attr_value(c.left) and norm(c.comparators[0]) == valuep) or (is_attr_value(c.comparators[0]) and norm(c.left) == valuep))]
    # `any(attr == v for v in values)` with the searched value handed over as a 1-tuple: the same comparison per alternative
    any_calls = []
    for c_ in walk_own(fb.node):
        if isinstance(c_, ast.Call) and isinstance(c_.func, ast.Name) and c_.func.id == "any" and len(c_.args) == 1 \
                and isinstance(c_.args[0], (ast.GeneratorExp, ast.ListComp)) and len(c_.args[0].generators) == 1:
            g_ = c_.args[0].generators[0]
            e_ = c_.args[0].elt
            if isinstance(g_.target, ast.Name) and norm(g_.iter) == valuep and not g_.ifs and isinstance(e_, ast.Compare) and len(e_.ops) == 1 \
                    and isinstance(e_.ops[0], ast.Eq) and ((is_attr_value(e_.left) and norm(e_.comparators[0]) == g_.target.id)
                                                           or (is_attr_value(e_.comparators[0]) and norm(e_.left) == g_.target.id)):
                any_calls.append(c_)
    for c_ in walk_own(fb.node):
        if isinstance(c_, ast.Compare) and len(c_.ops) == 1 and isinstance(c_.ops[0], (ast.In, ast.NotIn)) and is_attr_value(c_.left) \
                and norm(c_.comparators[0]) == valuep:
            ctx.viol("F4", fb, c_, "`%s`: a containment test on a tuple first compares by identity, so an attribute value that is the very object "
                     "searched for is selected even when `==` says it is not equal (NaN, objects with their own __eq__)" % norm(c_),
                     construct="_filter_by_name: containment instead of ==")
    cmps = cmps + any_calls
    verdict_names = {t.id for n_ in walk_own(fb.node) if isinstance(n_, ast.Assign) and any(n_.value is c for c in cmps)
                     for t in n_.targets if isinstance(t, ast.Name)}
    protected = False
    false_on_missing = False
    for t in walk_own(fb.node):
        if isinstance(t, ast.Try):
            inside = any(c_ is g for s_ in t.body for c_ in ast.walk(s_) for g in ga)
            hs = [h for h in t.handlers if h.type is not None and "AttributeError" in norm(h.type)]
            if inside and hs:
                protected = True
                for h in hs:
                    for st_ in ast.walk(h):
                        if isinstance(st_, ast.Return) and isinstance(st_.value, ast.Constant) and st_.value.value is False:
                            false_on_missing = True
                        if isinstance(st_, ast.Assign) and isinstance(st_.value, ast.Constant) and st_.value.value is False \
                                and any(isinstance(x, ast.Name) and x.id in verdict_names for x in st_.targets):
                            false_on_missing = True
    # verdict initialised to False before the try, bound inside it only by the comparison, handler leaves it alone
    # and the function returns the verdict: a failing getattr leaves the initial False
    if protected and not false_on_missing:
        body = [s_ for s_ in fb.node.body if not (isinstance(s_, ast.Expr) and isinstance(s_.value, ast.Constant))]
        for i, t in enumerate(body):
            if not isinstance(t, ast.Try) or t.finalbody:
                continue
            hs = [h for h in t.handlers if h.type is not None and "AttributeError" in norm(h.type)]
            for v in verdict_names:
                init = [s_ for s_ in body[:i] if isinstance(s_, ast.Assign) and len(s_.targets) == 1 and norm(s_.targets[0]) == v]
                stores_in_handlers = [x for h in t.handlers for x in ast.walk(h) if isinstance(x, ast.Name) and x.id == v
                                      and isinstance(x.ctx, ast.Store)]
                rets = [r for r in walk_own(fb.node) if isinstance(r, ast.Return)]
                exits_in_handlers = [x for h in hs for x in ast.walk(h) if isinstance(x, (ast.Return, ast.Raise))]
                if hs and len(init) == 1 and isinstance(init[0].value, ast.Constant) and init[0].value.value is False \
                        and not stores_in_handlers and not exits_in_handlers and rets \
                        and all(isinstance(r.value, ast.Name) and r.value.id == v for r in rets) \
                        and all(isinstance(s_, ast.Return) for s_ in body[i + 1:]):
                    false_on_missing = True
    if ga and all(len(g.args) >= 3 for g in ga):
        sentinel = True
        for g in ga:
            d = g.args[2]
            r = p.resolve_name(fb.module, d.id) if isinstance(d, ast.Name) else None
            if not (r is not None and r[0] == "const" and isinstance(r[1], ast.Call) and norm(r[1].func) == "object"):
                sentinel = False
        if sentinel:
            protected = false_on_missing = True
        else:
            ctx.viol("F4", fb, ga[0], "a missing attribute is replaced by the default `%s`, which can equal the searched value: nodes "
                     "lacking the attribute are selected instead of skipped" % norm(ga[0].args[2]))
            protected = false_on_missing = True
    if protected and false_on_missing:
        ctx.inst("F4", fb, fb.node.name, "missing attribute → False")
    else:
        ctx.viol("F4", fb, fb.node, "attribute read is not protected against AttributeError → False: nodes lacking the attribute raise",
                 construct="_filter_by_name: AttributeError guard")
    rets = [r for r in walk_own(fb.node) if isinstance(r, ast.Return) and r.value is not None
            and not (isinstance(r.value, ast.Constant) and r.value.value is False)]
    good = bool(cmps) and bool(rets) and all(any(r.value is c for c in cmps) or (isinstance(r.value, ast.Name) and r.value.id in verdict_names) for r in rets)
    if good:
        ctx.inst("F4", fb, cmps[0], "attribute value compared with == value, verdict returned unchanged")
    else:
        ctx.viol("F4", fb, fb.node, "selection is not `getattr(node, name) == value`", construct="_filter_by_name comparison")
    if ga:
        b_ = ga[0]
        from .common import resolve_local as _rl2
        recv_ = _rl2(fb, b_.args[0]) if b_.args else None
        if isinstance(recv_, ast.Name) and recv_.id != nodep and b_.args and isinstance(b_.args[0], ast.Name):
            # `attr = node; attr = getattr(attr, name)`: the receiver is the binding that reaches the read
            from .common import reaching_def_nodes
            cfg_ = typer_for(ctx).cfg_of(fb)
            at_ = [cn_ for cn_ in cfg_.nodes if cn_.ast is not None and cn_.kind == "stmt" and any(x is b_ for x in ast.walk(cn_.ast))]
            ds_ = reaching_def_nodes(at_[0], b_.args[0].id) if at_ else None
            if ds_ and len(ds_) == 1:
                recv_ = ds_[0].ast.value
        if not (len(b_.args) >= 2 and (norm(b_.args[0]) == nodep or (recv_ is not None and norm(recv_) == nodep)) and norm(b_.args[1]) == namep):
            ctx.viol("F4", fb, b_, "attribute read is not getattr(node, name)")
    ctx.floor("F1", 16)
    ctx.floor("F2", 18)
    ctx.floor("F3", 4)
    ctx.floor("F4", 2)


_CURRENT = [None]


def _is_attr_lambda(e):
    """lambda n: _filter_by_name(n, name, value)  — or a local def / name bound to one"""
    f = _CURRENT[0]
    if isinstance(e, ast.Name) and f is not None:
        from .common import local_def, resolve_local
        r = resolve_local(f, e)
        if isinstance(r, ast.Name):
            d = local_def(f, r.id)
            if isinstance(d, ast.FunctionDef) and len(d.args.args) == 1:
                from ..model import strip_doc
                b = strip_doc(d.body)
                v = d.args.args[0].arg
                return len(b) == 1 and isinstance(b[0], ast.Return) and isinstance(b[0].value, ast.Call) \
                    and norm(b[0].value.func) == "_filter_by_name" and _binds_name_value(v, b[0].value.args, b[0].value.keywords)
            e = d if d is not None else r
        else:
            e = r
    if isinstance(e, ast.Call) and norm(e.func) in ("partial", "functools.partial") and e.args and norm(e.args[0]) == "_filter_by_name":
        # partial(_filter_by_name, name=name, value=value): the node stays the one positional argument
        return len(e.args) == 1 and _binds_name_value(None, [], e.keywords)
    if not isinstance(e, ast.Lambda) or len(e.args.args) != 1:
        return False
    v = e.args.args[0].arg
    b = e.body
    return isinstance(b, ast.Call) and norm(b.func) == "_filter_by_name" and _binds_name_value(v, b.args, b.keywords)


def _binds_name_value(nodevar, args, keywords):
    """the call binds (node, name, value) of _filter_by_name to (<nodevar>, name, value), positionally or by keyword"""
    order = ["node", "name", "value"]
    b = {}

    def txt(a):
        if isinstance(a, ast.Name) and _CURRENT[0] is not None and a.id not in ("name", "value") and a.id != nodevar:
            from .common import resolve_local
            r_ = resolve_local(_CURRENT[0], a)  # a local holding the value (e.g. `values = (value,)`)
            if r_ is not None:
                return norm(r_)
        return norm(a)
    for prm, a in zip(order, args):
        b[prm] = txt(a)
    for k in keywords:
        if k.arg is None or k.arg in b:
            return False
        b[k.arg] = txt(k.value)
    if b.get("value") in ("(value,)", "[value]"):
        b["value"] = "value"  # the searched value handed over as the only alternative
    if nodevar is None:
        return b == {"name": "name", "value": "value"}
    return b == {"node": nodevar, "name": "name", "value": "value"}
