"""C09 — RenderTree: structural clauses of "one row per node, prefixes encode the position"."""

import ast

from ..model import AnalysisError, Func, norm
from .common import cfg_nodes_containing, none_test, straightline_value, typer_for, walk_own

PROP = "C09"
LEVEL = "other"
TECHNIQUE = ("static analysis: CFG dominance/reachability over the recursive row generator, level-offset dataflow for the depth "
             "guard, provenance evaluation of the prefix strings over reaching definitions")
EXPLANATION = (
    "Decides structural, necessary clauses of the drawing, not the text for particular trees. V1 in the recursive row "
    "generator of RenderTree: the node's own row is yielded before anything of its children (dominance); the children are "
    "taken from self.childiter(node.children), applied once, and walked in that order through the last-marker helper; each "
    "child is rendered by a recursive call whose rows are passed on unchanged, with the position tuple extended by exactly "
    "one element, the negation of that child's is-last flag (a child with a following sibling 'continues'); the descent is "
    "guarded by `maxlevel is None or level < maxlevel` with the level one above the node's own and the recursion passing "
    "that level on (offset dataflow), and RenderTree.__iter__ starts at the start node with an empty tuple. V2 provenance "
    "of the two prefixes of every Row that is built: for an empty position tuple both are ''; otherwise `fill` is the "
    "concatenation over ALL elements and `pre` over all BUT THE LAST of (vertical if the element is true else empty), `pre` "
    "followed by (cont if the LAST element is true else end); the third field is the node. Swapped style fields, the wrong "
    "slice, a missing last segment are each reported with the provenance found. V3 text assembly (str(), by_attr): the "
    "first line of a value is prefixed with row.pre and every further line with row.fill, and an empty value still gives "
    "one line; str() takes its lines from repr(row.node). V4 the name tables used by the node reprs are sequences at every "
    "call site (a string would turn the membership test into a substring test). Not decided: the last-marker helper itself (that exactly the final element is flagged), equal widths of a "
    "custom style, Node/AnyNode reprs. An implementation that builds the prefixes differently (e.g. incrementally per level) "
    "is answered with 'cannot follow' (ANALYSIS-ERROR), not with a verdict."
    " Added in round 16: V3 (value) by_attr prints attrname(node) / getattr(node, attrname, <fall-back>) unchanged - `getattr(...) or default` replaces falsy values; the rule follows by_attr into a shared line generator."
)
ASSUMPTIONS = ["_is_last(iterable) yields (item, is_last) in order with is_last true exactly for the final item (not decided here)",
               "style objects expose vertical/cont/end/empty of equal width"]
RENDER = "anytree/render.py"
FIELDS = ("vertical", "cont", "end", "empty")


class _Undecided(Exception):
    pass


def show(v):
    k = v[0]
    if k == "conts":
        return "continues%s" % ("[:-1]" if v[1] == "butlast" else "")
    if k == "last":
        return "continues[-1]"
    if k == "map":
        return "[%s if c else %s for c in %s]" % (v[2], v[3], show(v[1]))
    if k == "join":
        return "''.join(%s)" % show(v[1])
    if k == "sel":
        return "(%s if %s else %s)" % (v[2], show(v[1]), v[3])
    if k == "cat":
        return " + ".join(show(x) for x in v[1])
    if k == "str":
        return repr(v[1])
    if k == "field":
        return v[1]
    if k == "node":
        return "node"
    return str(v)


class PrefixEval:
    """what a prefix expression is made of, in terms of the position tuple and the style fields"""

    def __init__(self, typer, func, contsvar, style_exprs, nodevar):
        self.f = func
        self.cfg = typer.cfg_of(func)
        self.conts = contsvar
        self.styles = style_exprs  # expression texts denoting the style object
        self.nodevar = nodevar
        self.depth = 0

    def ev(self, e, at):
        self.depth += 1
        try:
            if self.depth > 40:
                raise _Undecided("expression too deep")
            return self._ev(e, at)
        finally:
            self.depth -= 1

    def _field(self, e):
        if isinstance(e, ast.Attribute) and e.attr in FIELDS and norm(e.value) in self.styles:
            return e.attr
        return None

    def _ev(self, e, at):
        if isinstance(e, ast.Constant) and isinstance(e.value, str):
            return ("str", e.value)
        fld = self._field(e)
        if fld is not None:
            return ("field", fld)
        if isinstance(e, ast.Name):
            if e.id == self.conts:
                return ("conts", "all")
            if e.id == self.nodevar:
                return ("node",)
            from .common import reaching_def_nodes
            ds = reaching_def_nodes(at, e.id)
            if ds and len(ds) == 2:
                # two definitions selected by one test (a desugared conditional expression or an if/else)
                g1 = {id(c): (c, o) for c, o, _ in self.cfg.guards_of(ds[0])}
                g2 = {id(c): (c, o) for c, o, _ in self.cfg.guards_of(ds[1])}
                split = [k for k in g1 if k in g2 and g1[k][1] != g2[k][1]]
                if len(split) == 1:
                    cond, o1 = g1[split[0]]
                    t_def, f_def = (ds[0], ds[1]) if o1 else (ds[1], ds[0])
                    neg = False
                    if isinstance(cond, ast.UnaryOp) and isinstance(cond.op, ast.Not):
                        cond, neg = cond.operand, True
                    cv = self.ev(cond, ds[0])
                    tv, fv = self.ev(t_def.ast.value, t_def), self.ev(f_def.ast.value, f_def)
                    if neg:
                        tv, fv = fv, tv
                    if cv == ("last",) and tv[0] == "field" and fv[0] == "field":
                        return ("sel", cv, tv[1], fv[1])
                raise _Undecided("`%s` has two definitions that are not a choice on the last position" % e.id)
            if not ds or len(ds) != 1:
                raise _Undecided("cannot find the unique definition of `%s`" % e.id)
            return self.ev(ds[0].ast.value, ds[0])
        if isinstance(e, ast.Subscript):
            base = self.ev(e.value, at)
            if isinstance(e.slice, ast.Slice):
                sl = e.slice
                full = sl.lower is None and sl.upper is None and sl.step is None
                butlast = sl.lower is None and sl.step is None and isinstance(sl.upper, ast.UnaryOp) and isinstance(sl.upper.op, ast.USub) \
                    and isinstance(sl.upper.operand, ast.Constant) and sl.upper.operand.value == 1
                if not (full or butlast):
                    raise _Undecided("slice `%s`" % norm(e))
                if full:
                    return base
                if base == ("conts", "all"):
                    return ("conts", "butlast")
                if base[0] == "map" and base[1] == ("conts", "all"):
                    return ("map", ("conts", "butlast"), base[2], base[3])
                raise _Undecided("slice of %s" % show(base))
            idx = e.slice
            if isinstance(idx, ast.UnaryOp) and isinstance(idx.op, ast.USub) and isinstance(idx.operand, ast.Constant) and idx.operand.value == 1:
                if base == ("conts", "all"):
                    return ("last",)
                if base[0] == "map" and base[1] == ("conts", "all"):
                    return ("sel", ("last",), base[2], base[3])
            raise _Undecided("index `%s`" % norm(e))
        if isinstance(e, (ast.ListComp, ast.GeneratorExp)) and len(e.generators) == 1 and not e.generators[0].ifs:
            g = e.generators[0]
            src = self.ev(g.iter, at)
            if src[0] != "conts" or not isinstance(g.target, ast.Name):
                raise _Undecided("comprehension over %s" % show(src))
            elt = e.elt
            if isinstance(elt, ast.IfExp):
                test = elt.test
                neg = False
                if isinstance(test, ast.UnaryOp) and isinstance(test.op, ast.Not):
                    test, neg = test.operand, True
                t, f = self._field(elt.body), self._field(elt.orelse)
                if isinstance(test, ast.Name) and test.id == g.target.id and t and f:
                    if neg:
                        t, f = f, t
                    return ("map", src, t, f)
            raise _Undecided("comprehension element `%s`" % norm(elt))
        if isinstance(e, ast.Call):
            fn = e.func
            if isinstance(fn, ast.Attribute) and fn.attr == "join" and isinstance(fn.value, ast.Constant) and fn.value.value == "" and len(e.args) == 1:
                inner = self.ev(e.args[0], at)
                if inner[0] == "map":
                    return ("join", inner)
                raise _Undecided("join of %s" % show(inner))
            if isinstance(fn, ast.Name) and fn.id in ("list", "tuple") and len(e.args) == 1:
                return self.ev(e.args[0], at)
            raise _Undecided("call `%s`" % norm(e))
        if isinstance(e, ast.IfExp):
            test = e.test
            neg = False
            if isinstance(test, ast.UnaryOp) and isinstance(test.op, ast.Not):
                test, neg = test.operand, True
            c = self.ev(test, at)
            t, f = self._field(e.body), self._field(e.orelse)
            if c == ("last",) and t and f:
                if neg:
                    t, f = f, t
                return ("sel", c, t, f)
            raise _Undecided("conditional `%s`" % norm(e))
        if isinstance(e, ast.BinOp) and isinstance(e.op, ast.Add):
            l, r = self.ev(e.left, at), self.ev(e.right, at)
            parts = (list(l[1]) if l[0] == "cat" else [l]) + (list(r[1]) if r[0] == "cat" else [r])
            parts = [x for x in parts if x != ("str", "")]
            if not parts:
                return ("str", "")
            return ("cat", tuple(parts)) if len(parts) > 1 else parts[0]
        if isinstance(e, ast.BinOp) and isinstance(e.op, ast.Mod) and isinstance(e.left, ast.Constant) and e.left.value == "%s%s" \
                and isinstance(e.right, ast.Tuple) and len(e.right.elts) == 2:
            return self._ev(ast.BinOp(left=e.right.elts[0], op=ast.Add(), right=e.right.elts[1]), at)
        raise _Undecided("expression `%s`" % norm(e))


WANT_FILL = ("join", ("map", ("conts", "all"), "vertical", "empty"))
WANT_PRE = ("cat", (("join", ("map", ("conts", "butlast"), "vertical", "empty")), ("sel", ("last",), "cont", "end")))


def _explain(role, got):
    want = WANT_PRE if role == "pre" else WANT_FILL
    return "`%s` is %s; by definition it is %s" % (role, show(got), show(want))


def _positional_flag(cfg, nxt, call, a_conts, contsvar, idx_v, seq_e, seq_at, childiter_call, res, p):
    """True: the tuple is extended by `idx != len(S) - 1` / `idx < len(S) - 1` with S the iterated sequence; a message: S is
    something else (the raw children); None: not followed"""
    from .common import reaching_def_nodes
    if not (isinstance(a_conts, ast.BinOp) and isinstance(a_conts.op, ast.Add) and isinstance(a_conts.left, ast.Name) and a_conts.left.id == contsvar
            and isinstance(a_conts.right, ast.Tuple) and len(a_conts.right.elts) == 1):
        return None
    el = a_conts.right.elts[0]
    if not (isinstance(el, ast.Compare) and len(el.ops) == 1):
        return None
    l, r, op = el.left, el.comparators[0], el.ops[0]
    if isinstance(r, ast.Name) and r.id == idx_v:
        l, r = r, l
        op = {ast.Lt: ast.Gt, ast.Gt: ast.Lt}.get(type(op), type(op))()
    if not (isinstance(l, ast.Name) and l.id == idx_v and isinstance(op, (ast.NotEq, ast.Lt))):
        if isinstance(l, ast.Name) and l.id == idx_v and isinstance(op, (ast.Eq, ast.GtE)):
            return "the position tuple is extended by `%s`, which is true for the LAST child: specified is true exactly when the child has a following sibling" % norm(el)
        return None
    hs = cfg_nodes_containing(cfg, call)
    bound, at_b = res(r, hs[0] if hs else None)
    # len(X) - 1, or helper(X) whose every return is `len(<param>) - 1` (None for unsized)
    x = None
    if isinstance(bound, ast.BinOp) and isinstance(bound.op, ast.Sub) and isinstance(bound.right, ast.Constant) and bound.right.value == 1 \
            and isinstance(bound.left, ast.Call) and norm(bound.left.func) == "len" and len(bound.left.args) == 1:
        x = bound.left.args[0]
    elif isinstance(bound, ast.Call) and isinstance(bound.func, ast.Name) and len(bound.args) == 1:
        r_ = p.resolve_name(nxt.module, bound.func.id)
        if r_ is not None and r_[0] == "func":
            h = r_[1]
            prm = h.posparams[0] if h.posparams else None
            rets = [q for q in walk_own(h.node) if isinstance(q, ast.Return) and q.value is not None]
            vals = [norm(q.value) for q in rets]
            if prm and vals and all(v in ("len(%s) - 1" % prm, "None") for v in vals) and "len(%s) - 1" % prm in vals:
                x = bound.args[0]
    if x is None:
        return None
    # X must denote the iterated sequence: the same expression resolving to the childiter call, evaluated where the bound is
    xv, _ = res(x, at_b)
    if xv is childiter_call or (isinstance(xv, ast.Call) and norm(xv) == norm(childiter_call) and isinstance(x, ast.Name) and isinstance(seq_e, ast.Name)
                                and x.id == seq_e.id and reaching_def_nodes(at_b, x.id) == reaching_def_nodes(seq_at, seq_e.id)):
        return True
    if isinstance(xv, ast.Attribute) and xv.attr == "children":
        return ("the last child is recognised by comparing the index with len(`%s`) - 1, the node's own children, not with the length of what "
                "childiter returned: when childiter drops (or adds) children the wrong child - or none - is drawn as the last one" % norm(x))
    return None


def run(ctx):
    p = ctx.p
    typer = typer_for(ctx)
    rt = p.cls("RenderTree")
    nxt = p.func("RenderTree", "__next")
    it = p.func("RenderTree", "__iter__")
    ctx.touch(nxt)
    ctx.touch(it)
    undecided = []
    cfg = typer.cfg_of(nxt)
    ps = [x for x in nxt.posparams if x != nxt.selfname]
    if len(ps) < 2:
        raise AnalysisError("anchor: RenderTree.__next(node, continues[, level]) signature changed: %s" % (nxt.posparams,))
    nodevar, contsvar = ps[0], ps[1]
    levelvar = ps[2] if len(ps) > 2 else None
    selfn = nxt.selfname
    # the rules below follow ONE representation of a row's position: the tuple of "has a following sibling" flags of its
    # ancestors.  A generator that threads the finished prefix strings (or anything else) instead is not followed.
    starts0 = [c for c in walk_own(it.node) if isinstance(c, ast.Call) and norm(c.func) == "%s.__next" % it.selfname]
    if len(starts0) == 1 and len(starts0[0].args) >= 2 and isinstance(starts0[0].args[1], ast.Constant) and isinstance(starts0[0].args[1].value, str):
        raise AnalysisError("C09: RenderTree.__next is started with the string %r where the position tuple is expected: rows carry their "
                            "prefix strings instead of the tuple of continuation flags - this representation is not followed" % starts0[0].args[1].value)
    # ------------------------------------------------------------------ V1
    rec_calls = [c for c in walk_own(nxt.node) if isinstance(c, ast.Call) and norm(c.func) in ("%s.__next" % selfn, "RenderTree.__next")]
    if not rec_calls:
        ctx.viol("V1", nxt, nxt.node, "the row generator does not recurse into the children", construct="__next: no recursion")
    yields = [y for y in walk_own(nxt.node) if isinstance(y, (ast.Yield, ast.YieldFrom))]
    # the node's own row: a yield whose value does not come from the recursion
    rec_vars = set()
    for lp in [x for x in walk_own(nxt.node) if isinstance(x, ast.For)]:
        if any(c is lp.iter or any(c is x for x in ast.walk(lp.iter)) for c in rec_calls) and isinstance(lp.target, ast.Name):
            rec_vars.add(lp.target.id)
    own, passed = [], []
    for y in yields:
        if isinstance(y, ast.YieldFrom):
            if any(c is y.value for c in rec_calls):
                passed.append(y)
            else:
                own.append(y)
        elif isinstance(y.value, ast.Name) and y.value.id in rec_vars:
            passed.append(y)
        else:
            own.append(y)
    # a row of a CHILD yielded directly (instead of recursing for it, e.g. on the deepest level): a short cut whose
    # equivalence with the recursion depends on the depth bookkeeping - not followed
    nodep_ = nxt.posparams[1] if len(nxt.posparams) > 1 else "node"
    child_rows = [y for y in own if isinstance(y, ast.Yield) and isinstance(y.value, ast.Call) and y.value.args
                  and isinstance(y.value.args[0], ast.Name) and y.value.args[0].id != nodep_
                  and any(isinstance(lp_, ast.For) and any(y is z for z in ast.walk(lp_)) for lp_ in walk_own(nxt.node))]
    if child_rows and len(own) - len(child_rows) == 1:
        undecided.append("the row of a child is yielded directly in RenderTree.__next (`%s`) instead of through the recursion" % norm(child_rows[0].value)[:60])
        own = [y for y in own if y not in child_rows]
    if len(own) != 1:
        ctx.viol("V1", nxt, nxt.node, "the row generator yields %d rows of its own per node; exactly one is specified" % len(own),
                 construct="__next: own rows %d" % len(own))
    if rec_calls and not passed:
        ctx.viol("V1", nxt, rec_calls[0], "the rows of the children are not passed on", construct="__next: child rows dropped")
    own_nodes = [h for y in own for h in cfg_nodes_containing(cfg, y)]
    for c in rec_calls:
        for h in cfg_nodes_containing(cfg, c):
            if own_nodes and all(cfg.dominates(o, h) for o in own_nodes):
                ctx.inst("V1", nxt, c, "the node's own row precedes its children's rows")
            else:
                ctx.viol("V1", nxt, c, "the children are rendered on a path that has not yielded the node's own row first: rows are not in "
                         "pre-order", construct="__next: recursion not dominated by the own row")
    # children source and order
    loops = [x for x in walk_own(nxt.node) if isinstance(x, ast.For) and any(c is z for c in rec_calls for s_ in x.body for z in ast.walk(s_))]
    child_var = last_var = None
    positional = {}
    for lp in loops:
        src = lp.iter
        hs = cfg_nodes_containing(cfg, src)
        at = hs[0] if hs else None

        from .common import reaching_def_nodes

        def res(e, where, depth=0):
            """(expression, node where it is evaluated) with names followed through their unique reaching definition"""
            if isinstance(e, ast.Name) and where is not None and depth < 5:
                ds = reaching_def_nodes(where, e.id)
                if ds and len(ds) == 1:
                    return res(ds[0].ast.value, ds[0], depth + 1)
            return e, where
        src, at1 = res(src, at)
        ok = False
        if isinstance(src, ast.Call) and norm(src.func).endswith("_is_last") and len(src.args) == 1:
            inner, at2 = res(src.args[0], at1)
            if isinstance(inner, ast.Call) and norm(inner.func) == "%s.childiter" % selfn and len(inner.args) == 1:
                kids, _ = res(inner.args[0], at2)
                if isinstance(kids, ast.Attribute) and kids.attr == "children" and norm(kids.value) == nodevar:
                    ok = True
        if ok and isinstance(lp.target, ast.Tuple) and len(lp.target.elts) == 2 and all(isinstance(x, ast.Name) for x in lp.target.elts):
            child_var, last_var = lp.target.elts[0].id, lp.target.elts[1].id
            ctx.inst("V1", nxt, lp.iter, "children walked as _is_last(self.childiter(node.children))")
        elif isinstance(src, ast.Call) and isinstance(src.func, ast.Name) and src.func.id == "enumerate" and len(src.args) == 1 \
                and isinstance(lp.target, ast.Tuple) and len(lp.target.elts) == 2 and all(isinstance(x, ast.Name) for x in lp.target.elts):
            # the last child recognised by position: `for i, child in enumerate(S)` with S = self.childiter(node.children) and the
            # flag `i != len(S) - 1` - S has to be the very sequence that is iterated (what childiter returned), see below
            inner, at2 = res(src.args[0], at1)
            okp = False
            if isinstance(inner, ast.Call) and norm(inner.func) == "%s.childiter" % selfn and len(inner.args) == 1:
                kids, _ = res(inner.args[0], at2)
                okp = isinstance(kids, ast.Attribute) and kids.attr == "children" and norm(kids.value) == nodevar
            if okp:
                positional[id(lp)] = (lp.target.elts[0].id, lp.target.elts[1].id, src.args[0], at1, inner)
                ctx.inst("V1", nxt, lp.iter, "children walked as enumerate(self.childiter(node.children))")
            else:
                ctx.viol("V1", nxt, lp.iter, "the children are not walked in the order of self.childiter(node.children), applied once: `%s`" % norm(src)[:80],
                         construct="__next: children source")
        elif isinstance(src, ast.Call) and isinstance(src.func, ast.Name) and src.func.id in ("zip", "range"):
            undecided.append("the children are walked by position (`%s`): how the last one is recognised is not followed" % norm(src)[:60])
            child_var = None
        else:
            ctx.viol("V1", nxt, lp.iter, "the children are not walked as the (child, is_last) pairs of self.childiter(node.children), applied "
                     "once, in that order: `%s`" % norm(src)[:80], construct="__next: children source")
    # recursion arguments
    for c in rec_calls:
        b = {}
        params = [x for x in nxt.posparams if x != selfn]
        args = list(c.args)
        if norm(c.func).startswith("RenderTree.") and args:
            args = args[1:]
        for prm, a in zip(params, args):
            b[prm] = a
        for k in c.keywords:
            b[k.arg] = k.value
        a_node, a_conts = b.get(nodevar), b.get(contsvar)
        ploop = next((lp_ for lp_ in loops if id(lp_) in positional and any(z is c for s_ in lp_.body for z in ast.walk(s_))), None)
        if ploop is not None:
            idx_v, ch_v, seq_e, seq_at, childiter_call = positional[id(ploop)]
            if isinstance(a_node, ast.Name) and a_node.id == ch_v:
                ctx.inst("V1", nxt, c, "recursion on the child")
            else:
                ctx.viol("V1", nxt, c, "the recursion renders `%s`, not the child taken from the children" % (norm(a_node) if a_node is not None else "?"))
            verdict = _positional_flag(cfg, nxt, c, a_conts, contsvar, idx_v, seq_e, seq_at, childiter_call, res, p)
            if verdict is True:
                ctx.inst("V1", nxt, a_conts, "position tuple extended by `index != len(<the iterated children>) - 1`")
            elif verdict is None:
                undecided.append("how `%s` marks the last child by position is not followed" % (norm(a_conts)[:60] if a_conts is not None else "?"))
            else:
                ctx.viol("V1", nxt, a_conts, verdict, construct="__next: positional last-child flag")
            continue
        if child_var is not None:
            if isinstance(a_node, ast.Name) and a_node.id == child_var:
                ctx.inst("V1", nxt, c, "recursion on the child")
            else:
                ctx.viol("V1", nxt, c, "the recursion renders `%s`, not the child taken from the children" % (norm(a_node) if a_node is not None else "?"))
            hs_c = cfg_nodes_containing(cfg, c)
            try:
                alts = _conts_alts(cfg, a_conts, hs_c[0] if hs_c else None, contsvar, last_var)
            except _Undecided as exc:
                alts = None
                undecided.append("position tuple passed to the recursion: %s" % exc)
            if alts is not None:
                bad = [(el, cond) for el, cond in alts if not (el == "notlast" or (isinstance(el, bool) and cond is not None and el == (not cond)))]
                if not alts:
                    ctx.viol("V1", nxt, c, "the position tuple passed down is `%s`, not the node's own tuple extended by one element for the child" % (
                        norm(a_conts) if a_conts is not None else "?"), construct="__next: continues argument")
                elif bad and isinstance(bad[0][0], str) and bad[0][0] not in ("islast", "notlast"):
                    undecided.append("the position tuple is extended by `%s`: not one of the look-ahead flags, not followed" % bad[0][0])
                elif bad:
                    el, cond = bad[0]
                    ctx.viol("V1", nxt, a_conts, "the position tuple is extended by %s%s; specified: true exactly when the child has a following "
                             "sibling (`not is_last`)" % ({"islast": "`is_last`", "notlast": "`not is_last`"}.get(el, repr(el)),
                                                         "" if cond is None else " when is_last is %s" % cond),
                             construct="__next: continues element %s" % (el,))
                else:
                    ctx.inst("V1", nxt, a_conts, "position tuple extended by `not is_last`")
    # depth guard by offset dataflow
    if levelvar is not None:
        _depth_rule(ctx, typer, nxt, cfg, levelvar, selfn, rec_calls, it, undecided)
    else:
        # no level parameter: whatever limits the descent is not counted from the start node
        lim = [x for x in walk_own(nxt.node) if isinstance(x, ast.Compare) and any(norm(y) == "%s.maxlevel" % selfn for y in [x.left] + list(x.comparators))
               and not isinstance(x.ops[0], (ast.Is, ast.IsNot))]
        if lim:
            ctx.viol("V1", nxt, lim[0], "the depth limit is compared with `%s`, which is not a level counted from the start node (the row "
                     "generator carries no level): for a start node below the root maxlevel cuts at the wrong depth" % norm(lim[0]),
                     construct="__next: depth limit not relative to the start node")
        else:
            ctx.viol("V1", nxt, nxt.node, "the row generator has no level parameter and no depth limit: maxlevel is ignored",
                     construct="__next: no depth limit")
    # __iter__ starts at the start node with an empty tuple
    starts = [c for c in walk_own(it.node) if isinstance(c, ast.Call) and norm(c.func) == "%s.__next" % it.selfname]
    if len(starts) == 1 and len(starts[0].args) >= 2 and norm(starts[0].args[0]) == "%s.node" % it.selfname \
            and norm(starts[0].args[1]) in ("tuple()", "()"):
        ctx.inst("V1", it, starts[0], "iteration starts at self.node with an empty position tuple")
    else:
        ctx.viol("V1", it, it.node, "RenderTree.__iter__ does not start the row generator at self.node with an empty position tuple",
                 construct="__iter__: start")
    # ------------------------------------------------------------------ V2
    n_rows = 0
    for f in [g for g in p.all_funcs if g.module.relpath == RENDER and not g.is_lambda]:
        rows = [c for c in walk_own(f.node) if isinstance(c, ast.Call) and norm(c.func) == "Row"]
        if not rows:
            continue
        ctx.touch(f)
        fcfg = typer.cfg_of(f)
        if f is nxt:
            cv, styles, nv = contsvar, {"%s.style" % selfn}, nodevar
        else:
            # bound from the call in the row generator
            site = [c for c in walk_own(nxt.node) if isinstance(c, ast.Call) and _callee(typer, nxt, c) is f]
            if not site:
                continue
            fparams = [x for x in f.posparams if x != f.selfname]
            cv, nv, styles = None, None, set()
            for prm, a in zip(fparams, site[0].args):
                if norm(a) == contsvar:
                    cv = prm
                elif norm(a) == nodevar:
                    nv = prm
                elif norm(a) == "%s.style" % selfn:
                    styles.add(prm)
            if cv is None or not styles:
                undecided.append("cannot relate the parameters of %s to the row generator's" % f.qual)
                continue
        pe = PrefixEval(typer, f, cv, styles, nv)
        for rc in rows:
            hs = cfg_nodes_containing(fcfg, rc)
            if not hs:
                continue
            at = hs[0]
            b = {}
            for name, a in zip(("pre", "fill", "node"), rc.args):
                b[name] = a
            for k in rc.keywords:
                b[k.arg] = k.value
            try:
                pre, fill = pe.ev(b["pre"], at), pe.ev(b["fill"], at)
                third = pe.ev(b["node"], at)
            except (_Undecided, KeyError) as exc:
                undecided.append("%s: %s" % (f.qual, exc))
                continue
            n_rows += 1
            guards = fcfg.guards_of(at)
            empty_known = any(_says_empty(c, o, cv) is True for c, o, _ in guards)
            nonempty_known = any(_says_empty(c, o, cv) is False for c, o, _ in guards)
            if third != ("node",):
                ctx.viol("V2", f, rc, "the row's third field is %s, not the node the row is for" % show(third))
            if pre == ("str", "") and fill == ("str", ""):
                if empty_known:
                    ctx.inst("V2", f, rc, "root row: empty prefixes for an empty position tuple")
                else:
                    ctx.viol("V2", f, rc, "a row with empty prefixes is built on a path that did not establish that the position tuple is "
                             "empty: nodes below the root lose their prefix", construct="Row('', '') without emptiness guard")
                continue
            okp, okf = pre == WANT_PRE, fill == WANT_FILL
            if okp and okf:
                if nonempty_known:
                    ctx.inst("V2", f, rc, "pre = %s; fill = %s" % (show(pre), show(fill)))
                else:
                    ctx.viol("V2", f, rc, "the general prefix formula indexes the last position although the tuple may be empty here (the "
                             "root has no position)", construct="Row formula without non-emptiness guard")
            if not okp:
                ctx.viol("V2", f, rc, _explain("pre", pre), construct="Row pre = %s" % show(pre))
            if not okf:
                ctx.viol("V2", f, rc, _explain("fill", fill), construct="Row fill = %s" % show(fill))
    if n_rows == 0 and not undecided:
        raise AnalysisError("anchor: no Row(...) construction found in anytree/render.py")
    # ------------------------------------------------------------------ V3
    _text_rule(ctx, typer, p, undecided)
    _by_attr_value_rule(ctx, p, undecided)
    # ------------------------------------------------------------------ V4 (reprs: name tables are sequences)
    from .common import rule_mixed_membership
    scope = [g for g in p.all_funcs if g.module.relpath in ("anytree/node/util.py", "anytree/node/node.py", "anytree/node/anynode.py",
                                                            "anytree/node/symlinknode.py", RENDER)]
    rule_mixed_membership(ctx, typer, scope, "V4")
    _sorted_by_name_rule(ctx, p)
    if undecided and not ctx.new_findings():
        raise AnalysisError("C09 cannot follow this implementation of RenderTree: %s" % "; ".join(undecided[:3]))
    ctx.floor("V1", 6)
    ctx.floor("V2", 2)
    ctx.floor("V3", 2)


def _sorted_by_name_rule(ctx, p):
    """V4: the public attributes of a repr are sorted by NAME - what is handed to sorted()/.sort() in `_repr` are the (name,
    value) items or the names, never the formatted `name=value` strings: text order differs from name order as soon as one
    name is a prefix of another ('x=' > 'x1=' because '=' > '1')"""
    from .common import resolve_local
    fs = [g for g in p.all_funcs if g.module.relpath == "anytree/node/util.py" and g.srcname == "_repr"]
    for f in fs:
        ctx.touch(f)

        def formatted(e, depth=0):
            e = resolve_local(f, e) if isinstance(e, ast.Name) else e
            if isinstance(e, (ast.ListComp, ast.GeneratorExp, ast.SetComp)):
                el = e.elt
                return (isinstance(el, ast.BinOp) and isinstance(el.op, ast.Mod) and isinstance(el.left, ast.Constant) and isinstance(el.left.value, str)) \
                    or isinstance(el, ast.JoinedStr) or (isinstance(el, ast.Call) and isinstance(el.func, ast.Attribute) and el.func.attr == "format")
            if isinstance(e, ast.BinOp) and isinstance(e.op, ast.Add) and depth < 3:
                return formatted(e.left, depth + 1) or formatted(e.right, depth + 1)
            return False
        for c in ast.walk(f.node):
            if isinstance(c, ast.Call) and isinstance(c.func, ast.Name) and c.func.id == "sorted" and c.args:
                if formatted(c.args[0]) and not any(k.arg == "key" for k in c.keywords):
                    ctx.viol("V4", f, c, "`%s` sorts the formatted `name=value` strings: the attributes come out in text order, not sorted by "
                             "name (a name that is a prefix of another one sorts after it: 'x=' > 'x1=')" % norm(c)[:70],
                             construct="_repr: formatted strings sorted")
                else:
                    ctx.inst("V4", f, c, "attributes sorted before formatting")
            if isinstance(c, ast.Call) and isinstance(c.func, ast.Attribute) and c.func.attr == "sort" and formatted(c.func.value) \
                    and not any(k.arg == "key" for k in c.keywords):
                ctx.viol("V4", f, c, "`%s` sorts the formatted `name=value` strings: text order, not name order" % norm(c)[:70],
                         construct="_repr: formatted strings sorted")


def _by_attr_value_rule(ctx, p, undecided):
    """V3 (value): by_attr prints the node's attribute value as it is - `attrname(node)` for a callable selector, else
    `getattr(node, attrname, <fallback for a missing attribute>)`; a value that is merely falsy (0, False, None, {}) is a value"""
    f = p.func("RenderTree", "by_attr")
    ctx.touch(f)
    attrp = f.posparams[1] if len(f.posparams) > 1 else "attrname"
    # by_attr may only join the lines of another method of the class that is handed the selector unchanged
    for c_ in ast.walk(f.node):
        if isinstance(c_, ast.Call) and isinstance(c_.func, ast.Attribute) and norm(c_.func.value) == f.selfname and f.cls is not None \
                and [norm(a_) for a_ in c_.args] == [attrp] and not c_.keywords:
            from ..model import Func
            mem_ = f.cls.members.get(c_.func.attr)
            if isinstance(mem_, Func) and len(mem_.posparams) > 1 and not any(
                    isinstance(lp_, (ast.For, ast.comprehension)) and norm(lp_.iter) == f.selfname for lp_ in ast.walk(f.node)):
                f = mem_
                ctx.touch(f)
                attrp = f.posparams[1]
                break
    local_defs = {}
    for n in ast.walk(f.node):
        if isinstance(n, ast.FunctionDef) and n is not f.node:
            local_defs.setdefault(n.name, []).append(n)
    assigns = {}
    for n in ast.walk(f.node):
        if isinstance(n, ast.Assign) and len(n.targets) == 1 and isinstance(n.targets[0], ast.Name):
            assigns.setdefault(n.targets[0].id, []).append(n.value)
    # the formatting calls: a call inside by_attr whose arguments are (row, value) with `row` a loop variable over self
    sinks = []
    for lp in ast.walk(f.node):
        if isinstance(lp, (ast.For, ast.comprehension)) and isinstance(lp.target, ast.Name) and norm(lp.iter) == f.selfname:
            row = lp.target.id
            scope = lp.body if isinstance(lp, ast.For) else []
            holder = lp if isinstance(lp, ast.For) else None
            nodes = [x for st in scope for x in ast.walk(st)] if holder is not None else [x for x in ast.walk(f.node)]
            for c in nodes:
                if isinstance(c, ast.Call) and len(c.args) == 2 and norm(c.args[0]) == row and not c.keywords and isinstance(c.func, ast.Name) \
                        and c.func.id not in ("getattr", "hasattr", "isinstance"):
                    sinks.append((c, row))
    if not sinks:
        undecided.append("V3: where RenderTree.by_attr hands (row, value) to the line formatter is not found")
        return

    class _Sub(ast.NodeTransformer):
        def __init__(self, env):
            self.env = env

        def visit_Name(self, n):
            return self.env.get(n.id, n) if isinstance(n.ctx, ast.Load) else n

    import copy

    def leaves(e, depth=0):
        """[(kind, expr)]: kind in ok / falsy / unknown"""
        if depth > 6:
            return [("unknown", e)]
        if isinstance(e, ast.Name):
            if e.id in assigns and e.id not in local_defs:
                return [x for v in assigns[e.id] for x in leaves(v, depth + 1)]
            return [("unknown", e)]
        if isinstance(e, ast.Call) and isinstance(e.func, ast.Name):
            fn = e.func.id
            if fn == "getattr" and len(e.args) in (2, 3) and norm(e.args[1]) == attrp and _is_node_expr(e.args[0]) and not e.keywords:
                return [("ok", e)]
            if fn == attrp and len(e.args) == 1 and _is_node_expr(e.args[0]) and not e.keywords:
                return [("ok", e)]
            out = []
            targets = list(local_defs.get(fn, []))
            aliases = assigns.get(fn, [])
            for a in aliases:
                if isinstance(a, ast.Name) and a.id == attrp and len(e.args) == 1 and _is_node_expr(e.args[0]):
                    out.append(("ok", e))
                elif isinstance(a, ast.Lambda):
                    env = {q.arg: v for q, v in zip(a.args.args, e.args)}
                    out += leaves(_Sub(env).visit(copy.deepcopy(a.body)), depth + 1)
                else:
                    out.append(("unknown", e))
            for d in targets:
                rets = [r for r in ast.walk(d) if isinstance(r, ast.Return)]
                simple = all(isinstance(st, (ast.Return, ast.Expr, ast.Assign)) for st in d.body)
                if not rets or not simple:
                    out.append(("unknown", e))
                    continue
                env = {q.arg: v for q, v in zip(d.args.args, e.args)}
                for st in d.body:
                    if isinstance(st, ast.Assign) and len(st.targets) == 1 and isinstance(st.targets[0], ast.Name):
                        env[st.targets[0].id] = _Sub(dict(env)).visit(copy.deepcopy(st.value))
                for r in rets:
                    out += leaves(_Sub(env).visit(copy.deepcopy(r.value)), depth + 1) if r.value is not None else [("unknown", e)]
            if targets or aliases:
                return out
            return [("unknown", e)]
        if isinstance(e, ast.BoolOp) and isinstance(e.op, ast.Or):
            first = leaves(e.values[0], depth + 1)
            if all(k == "ok" for k, _ in first):
                return [("falsy", e)]
            return [("unknown", e)]
        if isinstance(e, ast.IfExp):
            t = e.test.operand if isinstance(e.test, ast.UnaryOp) and isinstance(e.test.op, ast.Not) else e.test
            tl = leaves(t, depth + 1)
            if tl and all(k == "ok" for k, _ in tl):
                return [("falsy", e)]
            if isinstance(e.test, ast.Call) and norm(e.test.func) == "callable" and norm(e.test.args[0]) == attrp:
                return leaves(e.body, depth + 1) + leaves(e.orelse, depth + 1)
            return [("unknown", e)]
        return [("unknown", e)]

    def _is_node_expr(x):
        return (isinstance(x, ast.Attribute) and x.attr == "node") or isinstance(x, ast.Name)
    for c, row in sinks:
        ls = leaves(c.args[1])
        if any(k == "falsy" for k, _ in ls):
            bad = next(x for k, x in ls if k == "falsy")
            ctx.viol("V3", f, c, "the value printed by by_attr is `%s`: an attribute value that is falsy (0, 0.0, False, None, {}) is replaced "
                     "instead of printed, so the row no longer shows pre + first line of the node's attribute" % norm(bad)[:80],
                     construct="RenderTree.by_attr: falsy value replaced")
        elif any(k == "unknown" for k, _ in ls):
            undecided.append("V3: how RenderTree.by_attr obtains the printed value (`%s`) is not followed" % norm(next(x for k, x in ls if k == "unknown"))[:70])
        else:
            ctx.inst("V3", f, c, "printed value is attrname(node) / getattr(node, attrname, <fallback>) unchanged")


def _conts_alts(cfg, e, at, contsvar, last_var, depth=0):
    """[(element, condition)]: what the position tuple passed to a child is extended by; element is 'notlast', 'islast' or
    a constant bool, condition None or the value of is_last under which this alternative is passed"""
    from .common import reaching_def_nodes
    if e is None or depth > 6:
        raise _Undecided("not followed")
    if isinstance(e, ast.BinOp) and isinstance(e.op, ast.Add) and isinstance(e.left, ast.Name) and e.left.id == contsvar \
            and isinstance(e.right, ast.Tuple):
        if len(e.right.elts) != 1:
            return []
        el = e.right.elts[0]
        if isinstance(el, ast.UnaryOp) and isinstance(el.op, ast.Not) and isinstance(el.operand, ast.Name) and el.operand.id == last_var:
            return [("notlast", None)]
        if isinstance(el, ast.Name) and el.id == last_var:
            return [("islast", None)]
        if isinstance(el, ast.Constant) and isinstance(el.value, bool):
            return [(el.value, None)]
        return [(norm(el), None)]
    if isinstance(e, ast.IfExp):
        t, neg = e.test, False
        if isinstance(t, ast.UnaryOp) and isinstance(t.op, ast.Not):
            t, neg = t.operand, True
        if isinstance(t, ast.Name) and t.id == last_var:
            a = [(el, (not neg)) for el, _ in _conts_alts(cfg, e.body, at, contsvar, last_var, depth + 1)]
            b = [(el, neg) for el, _ in _conts_alts(cfg, e.orelse, at, contsvar, last_var, depth + 1)]
            return a + b
        raise _Undecided("choice on `%s`" % norm(e.test))
    if isinstance(e, ast.Name) and at is not None:
        ds = reaching_def_nodes(at, e.id)
        if ds and len(ds) == 1:
            return _conts_alts(cfg, ds[0].ast.value, ds[0], contsvar, last_var, depth + 1)
        if ds and len(ds) == 2:
            g1 = {id(c): (c, o) for c, o, _ in cfg.guards_of(ds[0])}
            g2 = {id(c): (c, o) for c, o, _ in cfg.guards_of(ds[1])}
            split = [k for k in g1 if k in g2 and g1[k][1] != g2[k][1]]
            if len(split) == 1:
                cond, o1 = g1[split[0]]
                neg = False
                if isinstance(cond, ast.UnaryOp) and isinstance(cond.op, ast.Not):
                    cond, neg = cond.operand, True
                if isinstance(cond, ast.Name) and cond.id == last_var:
                    v1 = bool(o1) != neg
                    a = [(el, v1) for el, _ in _conts_alts(cfg, ds[0].ast.value, ds[0], contsvar, last_var, depth + 1)]
                    b = [(el, not v1) for el, _ in _conts_alts(cfg, ds[1].ast.value, ds[1], contsvar, last_var, depth + 1)]
                    return a + b
        raise _Undecided("definition of `%s`" % e.id)
    if isinstance(e, ast.Name) and e.id == contsvar:
        return []
    return []


def _callee(typer, func, call):
    ft = typer.results.get(func) or typer.analyze(func)
    res = ft.calls.get(id(call))
    if res is not None and res.kind == "func" and isinstance(res.target, Func):
        return res.target
    return None


def _says_empty(cond, outcome, var):
    """True: the guard establishes that `var` is empty; False: non-empty; None: says nothing"""
    c, o = cond, outcome
    if isinstance(c, ast.UnaryOp) and isinstance(c.op, ast.Not):
        c, o = c.operand, not o
    if isinstance(c, ast.Name) and c.id == var:
        return not o
    if isinstance(c, ast.Compare) and len(c.ops) == 1 and isinstance(c.left, ast.Call) and norm(c.left.func) == "len" \
            and c.left.args and norm(c.left.args[0]) == var and isinstance(c.comparators[0], ast.Constant) and c.comparators[0].value == 0:
        if isinstance(c.ops[0], ast.Eq):
            return bool(o)
        if isinstance(c.ops[0], (ast.Gt, ast.NotEq)):
            return not o
    return None


def _depth_rule(ctx, typer, nxt, cfg, levelvar, selfn, rec_calls, it, undecided=None):
    """offset of the level variable relative to its entry value, by forward dataflow"""
    TOPO = "?"
    state = {cfg.entry.id: 0}
    work = [cfg.entry]
    steps = 0
    while work:
        n = work.pop(0)
        steps += 1
        if steps > 2000:
            raise AnalysisError("C09 level dataflow did not converge")
        off = state[n.id]
        a = n.ast
        if n.kind == "stmt" and off != TOPO:
            if isinstance(a, ast.AugAssign) and isinstance(a.target, ast.Name) and a.target.id == levelvar:
                if isinstance(a.op, (ast.Add, ast.Sub)) and isinstance(a.value, ast.Constant) and isinstance(a.value.value, int):
                    off = off + (a.value.value if isinstance(a.op, ast.Add) else -a.value.value)
                else:
                    off = TOPO
            elif isinstance(a, ast.Assign) and any(isinstance(t, ast.Name) and t.id == levelvar for t in a.targets):
                v = a.value
                if isinstance(v, ast.BinOp) and isinstance(v.op, (ast.Add, ast.Sub)) and isinstance(v.left, ast.Name) and v.left.id == levelvar \
                        and isinstance(v.right, ast.Constant) and isinstance(v.right.value, int):
                    off = off + (v.right.value if isinstance(v.op, ast.Add) else -v.right.value)
                else:
                    off = TOPO
        for s, lab in n.succ:
            if lab == "exc":
                continue
            if s.id not in state:
                state[s.id] = off
                work.append(s)
            elif state[s.id] != off and state[s.id] != TOPO:
                state[s.id] = TOPO
                work.append(s)

    def value(e, at):
        """offset denoted by an int expression over the level variable at a node, else None"""
        off = state.get(at.id)
        if off in (None, TOPO):
            return None
        if isinstance(e, ast.Name) and e.id == levelvar:
            return off
        if isinstance(e, ast.Name):
            from .common import reaching_def_nodes
            ds = reaching_def_nodes(at, e.id)
            if ds and len(ds) == 1:
                return value(ds[0].ast.value, ds[0])
            return None
        if isinstance(e, ast.BinOp) and isinstance(e.op, (ast.Add, ast.Sub)) and isinstance(e.left, ast.Name) and e.left.id == levelvar \
                and isinstance(e.right, ast.Constant) and isinstance(e.right.value, int):
            return off + (e.right.value if isinstance(e.op, ast.Add) else -e.right.value)
        return None
    d = nxt.defaults.get(levelvar)
    start = d.value if isinstance(d, ast.Constant) and isinstance(d.value, int) else None
    for c in [x for x in walk_own(it.node) if isinstance(x, ast.Call) and norm(x.func) == "%s.__next" % it.selfname]:
        for k in c.keywords:
            if k.arg == levelvar and isinstance(k.value, ast.Constant):
                start = k.value.value
        if len(c.args) >= 3 and isinstance(c.args[2], ast.Constant):
            start = c.args[2].value
    if start is None:
        starts_ = [c.args[2] for c in walk_own(it.node) if isinstance(c, ast.Call) and norm(c.func) == "%s.__next" % it.selfname and len(c.args) >= 3]
        if undecided is not None and starts_ and not isinstance(starts_[0], ast.Constant):
            # a budget derived from maxlevel and counted down instead of a level counted up
            undecided.append("the depth bookkeeping of RenderTree.__next starts from `%s` (not a constant level): not followed" % norm(starts_[0])[:50])
            return
        ctx.viol("V1", nxt, nxt.node, "the start level of the row generator is not a constant", construct="__next: start level")
        return
    for c in rec_calls:
        hs = cfg_nodes_containing(cfg, c)
        if not hs:
            continue
        h = hs[0]
        arg = None
        for k in c.keywords:
            if k.arg == levelvar:
                arg = k.value
        params = [x for x in nxt.posparams if x != selfn]
        args = list(c.args)
        if norm(c.func).startswith("RenderTree.") and args:
            args = args[1:]
        if arg is None and levelvar in params and params.index(levelvar) < len(args):
            arg = args[params.index(levelvar)]
        passed = value(arg, h) if arg is not None else None
        if passed == 1:
            ctx.inst("V1", nxt, c, "children are rendered one level deeper")
        else:
            ctx.viol("V1", nxt, c, "the recursion passes level %s; children are exactly one level below their parent" % (
                "entry%+d" % passed if passed is not None else "`%s`" % (norm(arg) if arg is not None else "default")),
                construct="__next: level passed %s" % passed)
        # guard: maxlevel None or (node level + 1) < maxlevel
        ok_none = ok_cmp = False
        seen = None
        for cnd, o, g in cfg.guards_of(h):
            nt = none_test(cnd)
            if nt is not None and nt[0] == "%s.maxlevel" % selfn and (nt[1] is True) != (o is True):
                ok_none = True  # maxlevel is not None on this path ... handled with the comparison below
            if isinstance(cnd, ast.Compare) and len(cnd.ops) == 1 and isinstance(cnd.ops[0], (ast.Lt, ast.LtE, ast.Gt, ast.GtE)):
                l, r, op = cnd.left, cnd.comparators[0], type(cnd.ops[0])
                if norm(l) == "%s.maxlevel" % selfn:
                    l, r = r, l
                    op = {ast.Lt: ast.Gt, ast.LtE: ast.GtE, ast.Gt: ast.Lt, ast.GtE: ast.LtE}[op]
                if norm(r) == "%s.maxlevel" % selfn:
                    lv = value(l, g)
                    if not o:
                        op = {ast.Lt: ast.GtE, ast.LtE: ast.Gt, ast.Gt: ast.LtE, ast.GtE: ast.Lt}[op]
                    seen = (lv, op.__name__)
                    if lv is not None:
                        # node level = start + (entry offset 0); children level index = node depth + 1 where root depth 0
                        eff = start + lv
                        if (op is ast.Lt and eff == 1) or (op is ast.LtE and eff == 2):
                            ok_cmp = True
        # the guard is a disjunction `maxlevel is None or level < maxlevel`: on the path into the loop neither disjunct
        # dominates; accept the syntactic If test that encloses the call
        if not ok_cmp:
            for iff in [x for x in walk_own(nxt.node) if isinstance(x, ast.If) and any(c is z for s_ in x.body for z in ast.walk(s_))]:
                t = iff.test
                if isinstance(t, ast.BoolOp) and isinstance(t.op, ast.Or) and len(t.values) == 2:
                    nt = none_test(t.values[0])
                    cmpn = t.values[1]
                    hs2 = cfg_nodes_containing(cfg, cmpn) or [n_ for n_ in cfg.nodes if n_.kind == "test" and n_.cond is cmpn]
                    if nt is not None and nt[0] == "%s.maxlevel" % selfn and nt[1] is True and isinstance(cmpn, ast.Compare) and len(cmpn.ops) == 1 and hs2:
                        l, r, op = cmpn.left, cmpn.comparators[0], type(cmpn.ops[0])
                        if norm(l) == "%s.maxlevel" % selfn:
                            l, r = r, l
                            op = {ast.Lt: ast.Gt, ast.LtE: ast.GtE, ast.Gt: ast.Lt, ast.GtE: ast.LtE}.get(op, op)
                        lv = value(l, hs2[0])
                        seen = (lv, op.__name__)
                        if norm(r) == "%s.maxlevel" % selfn and lv is not None:
                            eff = start + lv
                            if (op is ast.Lt and eff == 1) or (op is ast.LtE and eff == 2):
                                ok_cmp = True
        if ok_cmp:
            ctx.inst("V1", nxt, c, "descent guarded by maxlevel is None or (depth of the children) < maxlevel")
        else:
            ctx.viol("V1", nxt, c, "the descent is not guarded by `maxlevel is None or level < maxlevel` with level = depth of the children "
                     "(root's children = 1): guard seen %s with start level %s - rows are cut one level early/late or None/0 is "
                     "mishandled" % (seen, start), construct="__next: depth guard %s start %s" % (seen, start))


def _text_rule(ctx, typer, p, undecided):
    """V3: first line with row.pre, further lines with row.fill, at least one line"""
    n = 0
    for f in [g for g in p.all_funcs if g.module.relpath == RENDER and not g.is_lambda]:
        uses_pre = [a for a in walk_own(f.node) if isinstance(a, ast.Attribute) and a.attr == "pre" and isinstance(a.ctx, ast.Load)]
        uses_fill = [a for a in walk_own(f.node) if isinstance(a, ast.Attribute) and a.attr == "fill" and isinstance(a.ctx, ast.Load)]
        if not uses_pre and not uses_fill:
            continue
        if f.srcname in ("__item", "__next"):
            continue
        ctx.touch(f)
        n += 1

        def fmt_partner(attr):
            """the other operand of the two-slot formatting/concatenation that contains this attribute"""
            for e in walk_own(f.node):
                if isinstance(e, ast.BinOp) and isinstance(e.op, ast.Mod) and isinstance(e.right, ast.Tuple) and len(e.right.elts) == 2 \
                        and e.right.elts[0] is attr:
                    return e.left, e.right.elts[1]
                if isinstance(e, ast.BinOp) and isinstance(e.op, ast.Add) and e.left is attr:
                    return ast.Constant(value="%s%s"), e.right
                if isinstance(e, ast.JoinedStr) and len(e.values) == 2 and all(isinstance(v, ast.FormattedValue) for v in e.values) \
                        and e.values[0].value is attr:
                    return ast.Constant(value="%s%s"), e.values[1].value
            return None
        loops = [lp for lp in walk_own(f.node) if isinstance(lp, ast.For)]
        ok = bool(uses_pre) and bool(uses_fill)
        why = []
        lines_names = set()
        for a in uses_pre:
            pr = fmt_partner(a)
            if pr is None or not (isinstance(pr[0], ast.Constant) and pr[0].value == "%s%s"):
                undecided.append("%s: cannot follow how row.pre is combined with the text" % f.qual)
                ok = None
                break
            other = pr[1]
            if isinstance(other, ast.Subscript) and isinstance(other.slice, ast.Constant) and other.slice.value == 0:
                lines_names.add(norm(other.value))
            else:
                ok = False
                why.append("row.pre is put before `%s`, not before the first line" % norm(other))
        if ok is None:
            continue
        for a in uses_fill:
            pr = fmt_partner(a)
            if pr is None or not (isinstance(pr[0], ast.Constant) and pr[0].value == "%s%s"):
                undecided.append("%s: cannot follow how row.fill is combined with the text" % f.qual)
                ok = None
                break
            other = pr[1]
            lp = [l_ for l_ in loops if isinstance(l_.target, ast.Name) and isinstance(other, ast.Name) and l_.target.id == other.id]
            good = False
            for l_ in lp:
                it_ = l_.iter
                if isinstance(it_, ast.Subscript) and isinstance(it_.slice, ast.Slice) and it_.slice.upper is None and it_.slice.step is None \
                        and isinstance(it_.slice.lower, ast.Constant) and it_.slice.lower.value == 1:
                    good = True
                    lines_names.add(norm(it_.value))
            if not good:
                ok = False
                why.append("row.fill is not put before exactly the lines after the first (`%s`)" % norm(other))
        if ok is None:
            continue
        # an empty value still yields one line: `<lines> or [""]`
        fallback = False
        for a in walk_own(f.node):
            if isinstance(a, ast.BoolOp) and isinstance(a.op, ast.Or) and isinstance(a.values[-1], ast.List) and len(a.values[-1].elts) == 1 \
                    and isinstance(a.values[-1].elts[0], ast.Constant) and a.values[-1].elts[0].value == "":
                fallback = True
        if ok and len(lines_names) == 1 and fallback:
            ctx.inst("V3", f, f.qual, "first line after row.pre, further lines after row.fill, at least one line")
        elif ok and not fallback:
            ctx.viol("V3", f, f.node, "an empty value yields no line at all (no `or ['']` fallback): the node's row disappears from the text",
                     construct="%s: no line for an empty value" % f.qual)
        elif ok:
            ctx.viol("V3", f, f.node, "row.pre and row.fill are applied to different line lists %s" % sorted(lines_names),
                     construct="%s: different line lists" % f.qual)
        else:
            ctx.viol("V3", f, f.node, "; ".join(why), construct="%s: %s" % (f.qual, "; ".join(why)[:80]))
    st = p.func("RenderTree", "__str__")
    ctx.touch(st)
    reprs = [c for c in ast.walk(st.node) if isinstance(c, ast.Call) and isinstance(c.func, ast.Name) and c.func.id == "repr" and c.args
             and isinstance(c.args[0], ast.Attribute) and c.args[0].attr == "node"]
    if not reprs:
        # the selector handed to the shared line generator: self.<lines>(lambda node: repr(node).splitlines())
        for c in ast.walk(st.node):
            if isinstance(c, ast.Call) and isinstance(c.func, ast.Attribute) and norm(c.func.value) == st.selfname:
                for a in list(c.args) + [k.value for k in c.keywords]:
                    if isinstance(a, ast.Lambda) and len(a.args.args) == 1:
                        prm_ = a.args.args[0].arg
                        inner = [x for x in ast.walk(a.body) if isinstance(x, ast.Call) and isinstance(x.func, ast.Name) and x.func.id == "repr"
                                 and len(x.args) == 1 and norm(x.args[0]) == prm_]
                        others = [x for x in ast.walk(a.body) if isinstance(x, ast.Name) and x.id == prm_]
                        if inner and len(others) == len(inner):
                            reprs = inner
    if reprs:
        ctx.inst("V3", st, reprs[0], "str(RenderTree) prints the lines of repr(row.node)")
    else:
        ctx.viol("V3", st, st.node, "str(RenderTree) does not take its lines from repr(row.node): the node's str()/attribute "
                 "formatter is used instead, so nodes whose __str__ differs from __repr__ (or that are sequences) print differently",
                 construct="RenderTree.__str__: no repr(row.node)")
    return n
