"""C20 — a symlink node has its own position and forwards the rest to its target."""

import ast

from .. import tables as T
from ..linkrules import link_fields
from ..model import AnalysisError, Func, Prop, mangle, norm
from .common import typer_for, walk_own

PROP = "C20"
LEVEL = "other"
TECHNIQUE = "static analysis: name-table agreement with link storage, CFG branch effects of __getattr__/__setattr__, override scan"
EXPLANATION = (
    "L1 the names SymlinkNodeMixin.__setattr__ keeps local are a superset of NodeMixin's link fields (derived from the "
    "mixin's writes), parent, children and target; the names __getattr__ refuses to forward are a superset of the link "
    "fields. L2 on the local branch __setattr__ delegates to super().__setattr__(name, value) with the same name and "
    "value, on the other branch it does setattr(self.target, name, value); __getattr__ falls through to "
    "getattr(self.target, name) without a default (AttributeError for a missing attribute). L3 SymlinkNodeMixin and "
    "SymlinkNode override no structural or navigation member of NodeMixin (so C01-C03 apply unchanged); a __delattr__, if defined, keeps the same names "
    "local as __setattr__ and forwards only the rest. L4 "
    "SymlinkNode.__init__ assigns self.target first, stores **kwargs on the target, then delegates parent/children to "
    "the setters. Independence of the link's and the target's positions then follows from C01 W1. Not decided: run-time "
    "chains of links for arbitrary names."
    " Added in rounds 17-18: L4 keyword attributes may fall back to setattr for targets without __dict__; L2 creating the link's own empty link fields with __dict__.setdefault changes no view, item stores into an instance dict count as effects."
)
ASSUMPTIONS = ["Python calls __getattr__ only after normal lookup failed", "C01 W1: link fields are per object and written only by their owner"]


def local_table(func, param, program=None):
    """string sets the function compares `param` against with in / == (constants folded)"""
    from .common import const_strings
    out = []
    for n in walk_own(func.node):
        if isinstance(n, ast.Compare) and len(n.ops) == 1 and isinstance(n.left, ast.Name) and n.left.id == param:
            if isinstance(n.ops[0], (ast.In, ast.NotIn)):
                if isinstance(n.comparators[0], ast.Constant):
                    continue  # `name in "text"` is a substring test, not a table
                vals = const_strings(program, func, n.comparators[0]) if program is not None else None
                if vals is None and isinstance(n.comparators[0], (ast.Tuple, ast.List, ast.Set)):
                    vals = {e.value for e in n.comparators[0].elts if isinstance(e, ast.Constant)}
                if vals is not None:
                    out.append(Tab(n, vals, isinstance(n.ops[0], ast.In)))
            elif isinstance(n.ops[0], (ast.Eq, ast.NotEq)) and isinstance(n.comparators[0], ast.Constant):
                out.append(Tab(n, {n.comparators[0].value}, isinstance(n.ops[0], ast.Eq)))
    return out


class Tab(tuple):
    """(compare node, names) of a membership test; .pos: the outcome of the test that means "name is in the set"
    (True for `in`/`==`, False for `not in`/`!=`)"""

    def __new__(cls, node, vals, pos):
        t = tuple.__new__(cls, (node, vals))
        t.pos = pos
        return t


def run(ctx):
    p = ctx.p
    typer = typer_for(ctx)
    links = {k for k, (m, _) in link_fields(p).items() if m == "NodeMixin"}
    # private state of a NodeMixin node: the link fields and whatever is cached from them (memo fields): all of it belongs
    # to the link node itself, none of it may be read from / written to the target
    from ..memo import memo_fields
    links = links | {k for k, mm in memo_fields(p).items() if mm.cls == "NodeMixin"}
    ga = p.func("SymlinkNodeMixin", "__getattr__")
    sa = p.func("SymlinkNodeMixin", "__setattr__")
    ctx.touch(ga)
    ctx.touch(sa)
    # ---- L1 (a name table written as a bare string is a substring test)
    for f_ in (ga, sa):
        for n_ in walk_own(f_.node):
            if isinstance(n_, ast.Compare) and len(n_.ops) == 1 and isinstance(n_.ops[0], (ast.In, ast.NotIn)) \
                    and isinstance(n_.comparators[0], ast.Constant) and isinstance(n_.comparators[0].value, str) \
                    and len(n_.comparators[0].value) > 1 and isinstance(n_.left, ast.Name) and n_.left.id == f_.posparams[1]:
                ctx.viol("L1", f_, n_, "`%s` tests the attribute name against a plain string (a one-element tuple written without its "
                         "comma?): every name that is a substring of it takes this branch" % norm(n_),
                         construct="%s: substring test on the attribute name" % f_.qual)
    namep = sa.posparams[1]
    tabs = local_table(sa, namep, p)
    keep = set().union(*[t for _, t in tabs]) if tabs else set()
    need = links | {"parent", "children", "target"}
    if need <= keep:
        ctx.inst("L1", sa, tabs[0][0], "local names %s ⊇ link fields ∪ {parent, children, target}" % sorted(keep))
    else:
        ctx.viol("L1", sa, tabs[0][0] if tabs else sa.node, "names kept local by __setattr__ %s miss %s: such an assignment on the link is "
                 "written onto the target instead" % (sorted(keep), sorted(need - keep)), construct="__setattr__ local names miss %s" % sorted(need - keep))
    gtabs = local_table(ga, ga.posparams[1], p)
    refuse = set().union(*[t for _, t in gtabs]) if gtabs else set()
    if links <= refuse:
        ctx.inst("L1", ga, gtabs[0][0], "names never forwarded %s ⊇ link fields" % sorted(refuse))
    else:
        ctx.viol("L1", ga, gtabs[0][0] if gtabs else ga.node, "names __getattr__ refuses to forward %s miss link fields %s: an unattached "
                 "link reports the target's parent/children as its own" % (sorted(refuse), sorted(links - refuse)),
                 construct="__getattr__ refused names miss %s" % sorted(links - refuse))
    # ---- L2 __setattr__ branches
    cfg = typer.cfg_of(sa)
    valp = sa.posparams[2]
    sup = [c for c in walk_own(sa.node) if isinstance(c, ast.Call) and isinstance(c.func, ast.Attribute) and c.func.attr == "__setattr__"
           and "super" in norm(c.func.value)]
    fwd = [c for c in walk_own(sa.node) if isinstance(c, ast.Call) and norm(c.func) == "setattr"]
    tabnode = tabs[0][0] if tabs else None
    tabpos = tabs[0].pos if tabs else True

    posof = {id(t[0]): t.pos for t in tabs}
    in_guards = [g for g in cfg.nodes if g.kind == "guard" and id(g.cond) in posof and g.outcome is posof[id(g.cond)]]

    def holders(call):
        return [cn for cn in cfg.nodes if cn.kind == "stmt" and any(x is call for x in ast.walk(cn.ast))]

    def only_for_local(call):
        """not reachable on a path on which every membership test came out 'not in'"""
        reach = cfg.reach_from(cfg.entry, avoid=in_guards, labels_excluded=("exc",))
        hs = holders(call)
        return bool(hs) and not any(h.id in reach for h in hs)

    def only_for_foreign(call):
        """every membership test dominates the call with outcome 'not in'"""
        hs = holders(call)
        if not hs:
            return False
        for h in hs:
            gs = {id(c): o for c, o, _ in cfg.guards_of(h)}
            neg = [t for t in tabs if gs.get(id(t[0])) is (not t.pos)]
            covered = set().union(*[set(t[1]) for t in neg]) if neg else set()
            if not neg:
                return False
            for t in tabs:
                # a further test of the name inside the local branch (`if name == "target":`) concerns names already excluded
                if t not in neg and not set(t[1]) <= covered:
                    return False
        return True
    if len(sup) == 1 and [norm(a) for a in sup[0].args] == [namep, valp] and only_for_local(sup[0]):
        ctx.inst("L2", sa, sup[0], "local names: stored on the link itself, same name and value")
    else:
        ctx.viol("L2", sa, sa.node, "for local names __setattr__ does not do super().__setattr__(name, value)", construct="__setattr__ local branch")
    from .common import resolve_local as _rl

    def _fwd_args(c_):
        a_ = list(c_.args)
        if a_ and isinstance(a_[0], ast.Name):
            r_ = _rl(sa, a_[0])  # `target = self.target` read once into a local
            if r_ is not None:
                return [norm(r_)] + [norm(x) for x in a_[1:]]
        return [norm(x) for x in a_]
    if len(fwd) == 1 and _fwd_args(fwd[0]) == ["%s.target" % sa.selfname, namep, valp] and only_for_foreign(fwd[0]):
        ctx.inst("L2", sa, fwd[0], "other names: setattr(self.target, name, value)")
    else:
        ctx.viol("L2", sa, sa.node, "for other names __setattr__ does not do setattr(self.target, name, value)", construct="__setattr__ forwarding branch")
    stores = [n for n in walk_own(sa.node) if isinstance(n, ast.Attribute) and isinstance(n.ctx, (ast.Store, ast.Del))]
    # item stores into an instance dict (self.__dict__[k] = v, vars(self)[k] = v, also through a local alias) are attribute stores
    stores += [n for n in walk_own(sa.node) if isinstance(n, ast.Subscript) and isinstance(n.ctx, (ast.Store, ast.Del))]
    extra = [c for c in walk_own(sa.node) if isinstance(c, ast.Call) and c not in sup + fwd and norm(c.func) not in ("super",)
             and not (isinstance(c.func, ast.Name) and c.func.id == "super")]
    # a refusal (raise AttributeError) when the target read is None is no effect: message construction inside a raise is ignored
    in_raise = {id(x) for rz in walk_own(sa.node) if isinstance(rz, ast.Raise) and rz.exc is not None and "AttributeError" in norm(rz.exc)
                for x in ast.walk(rz)}
    extra = [c for c in extra if id(c) not in in_raise]
    # creating the link's OWN empty link fields ahead of time - self.__dict__.setdefault(<link field>, None / []) over a constant
    # table - changes no view: an absent field and an empty one read the same, and setdefault leaves an existing one alone
    for lp_ in [x for x in walk_own(sa.node) if isinstance(x, ast.For)]:
        it_ = lp_.iter
        if isinstance(it_, (ast.Tuple, ast.List)) and it_.elts and all(
                isinstance(e_, ast.Tuple) and len(e_.elts) == 2 and isinstance(e_.elts[0], ast.Constant) and e_.elts[0].value in links
                and ((isinstance(e_.elts[1], ast.Constant) and e_.elts[1].value is None) or (isinstance(e_.elts[1], (ast.List, ast.Tuple)) and not e_.elts[1].elts))
                for e_ in it_.elts) and isinstance(lp_.target, ast.Tuple) and len(lp_.target.elts) == 2 and len(lp_.body) == 1 \
                and " ".join(norm(lp_.body[0]).split()) == "%s.__dict__.setdefault(%s, %s)" % (sa.selfname, norm(lp_.target.elts[0]), norm(lp_.target.elts[1])):
            extra = [c for c in extra if not any(c is x for x in ast.walk(lp_))]
            ctx.notes.append("L2: the link's own empty link fields are created with setdefault when the target is assigned (no view changes)")
    if stores or extra:
        ctx.viol("L2", sa, (stores + extra)[0], "__setattr__ does something besides the two delegations", construct="__setattr__ extra effect")
    # ---- L2 __getattr__ fall-through
    gname = ga.posparams[1]
    gcfg = typer.cfg_of(ga)
    rets = gcfg.stmt_nodes(("return",))
    ok = False
    # the forwarding written with an explicit "missing" marker: v = getattr(<target>, name, M); if v is M: raise AttributeError; return v
    sentinel_form = None
    for c_ in walk_own(ga.node):
        if isinstance(c_, ast.Call) and norm(c_.func) == "getattr" and len(c_.args) == 3 and norm(c_.args[1]) == gname:
            from .common import resolve_local
            tgt_ = resolve_local(ga, c_.args[0])
            if norm(tgt_) == "%s.target" % ga.selfname:
                sentinel_form = c_
    if sentinel_form is not None:
        d_ = sentinel_form.args[2]
        modv = (ga.module.assigns or {}).get(d_.id) if isinstance(d_, ast.Name) else None
        is_marker = isinstance(modv, ast.Call) and norm(modv.func) == "object" and not modv.args
        holder = [a_ for a_ in walk_own(ga.node) if isinstance(a_, ast.Assign) and a_.value is sentinel_form and len(a_.targets) == 1
                  and isinstance(a_.targets[0], ast.Name)]
        var_ = holder[0].targets[0].id if holder else None
        raises_ = [rn for rn in gcfg.stmt_nodes(("raisestmt",)) if any(
            isinstance(c, ast.Compare) and len(c.ops) == 1 and isinstance(c.ops[0], ast.Is) and o is True and var_ is not None
            and sorted([norm(c.left), norm(c.comparators[0])]) == sorted([var_, norm(d_)]) for c, o, _ in gcfg.guards_of(rn))]
        returns_ = [r for r in rets if var_ is not None and isinstance(r.ast.value, ast.Name) and r.ast.value.id == var_]
        if not is_marker and raises_:
            ctx.viol("L2", ga, sentinel_form, "a forwarded attribute whose current value is `%s` is reported as missing (AttributeError): the default of "
                     "getattr() is a value an attribute can legitimately have, not a private marker object" % norm(d_),
                     construct="__getattr__: missing-marker %s" % norm(d_))
        elif not raises_ and (any(r.ast.value is sentinel_form for r in rets) or returns_):
            ctx.viol("L2", ga, sentinel_form, "the forwarded read has a default (`%s`) and no AttributeError follows: an attribute the target does "
                     "not have reads as that default instead of raising" % norm(d_), construct="__getattr__: default %s returned" % norm(d_))
        elif is_marker and raises_ and returns_ and all("AttributeError" in norm(rn.ast.exc) for rn in raises_ if rn.ast.exc is not None):
            ctx.inst("L2", ga, sentinel_form, "forwarded with a private marker object; AttributeError when the target lacks the attribute")
            ok = "sentinel"
        else:
            ctx.extra.setdefault("undecided", []).append("L2: how __getattr__ forwards with a getattr default is not followed")
            ok = "sentinel"
    for r in rets:
        v = r.ast.value
        if isinstance(v, ast.Call) and norm(v.func) == "getattr" and [norm(a) for a in v.args] == ["%s.target" % ga.selfname, gname] and not v.keywords:
            gs = gcfg.guards_of(r)
            posof = {id(t[0]): t.pos for t in gtabs}
            if all(o is (not posof.get(id(c), True)) for c, o, _ in gs):
                ok = True
    extra = []
    tabnodes = [t for t, _ in gtabs]

    def _is_marker_test(t):
        return ok == "sentinel" and isinstance(t, ast.Compare) and len(t.ops) == 1 and isinstance(t.ops[0], (ast.Is, ast.IsNot)) \
            and sentinel_form is not None and norm(sentinel_form.args[2]) in (norm(t.left), norm(t.comparators[0]))
    for r in rets:
        v = r.ast.value
        if isinstance(v, ast.Call) and norm(v.func) == "getattr" and [norm(a) for a in v.args] == ["%s.target" % ga.selfname, gname]:
            for c, o, _ in gcfg.guards_of(r):
                if not any(c is t for t in tabnodes):
                    extra.append(c)
    for node in walk_own(ga.node):
        if isinstance(node, (ast.If, ast.IfExp, ast.While)):
            stack = [node.test]
            while stack:
                t = stack.pop()
                if isinstance(t, ast.BoolOp):
                    stack.extend(t.values)
                elif isinstance(t, ast.UnaryOp) and isinstance(t.op, ast.Not):
                    stack.append(t.operand)
                elif not any(t is tn for tn in tabnodes) and not _is_marker_test(t):
                    extra.append(t)
    if ok == "sentinel":
        extra = [t for t in extra if not _is_marker_test(t)]
    if extra:
        ok = False
        ctx.viol("L2", ga, extra[0], "__getattr__ refuses to forward names under the additional condition `%s`: reads of such "
                 "attributes no longer reach the target" % norm(extra[0]), construct="__getattr__ extra refusal %s" % norm(extra[0]))
    elif gtabs and set().union(*[t for _, t in gtabs]) - links - {"__setstate__", "target"}:
        more = sorted(set().union(*[t for _, t in gtabs]) - links - {"__setstate__", "target"})
        ok = False
        ctx.viol("L2", ga, gtabs[0][0], "__getattr__ refuses to forward %s: only the link fields and __setstate__ are the link's own" % more,
                 construct="__getattr__ refuses %s" % more)
    if ok:
        ctx.inst("L2", ga, ga.node, "every other name: getattr(self.target, name), no default")
    elif not extra:
        ctx.viol("L2", ga, ga.node, "__getattr__ does not fall through to getattr(self.target, name) without a default",
                 construct="__getattr__ forwarding")
    # ---- L3 no structural member overridden
    nm = p.cls("NodeMixin")
    protected = {k for k in nm.members}
    for cname in ("SymlinkNodeMixin", "SymlinkNode"):
        cls = p.cls(cname)
        over = sorted(k for k in cls.members if k in protected or k in T.HOOKS or k in T.READONLY_MEMBERS)
        if over:
            f = next(iter(cls.funcs()))
            ctx.viol("L3", f, f.node, "%s overrides %s of NodeMixin: the link's position is no longer handled by the mixin" % (cname, over),
                     construct="%s overrides %s" % (cname, over))
        else:
            ctx.inst("L3", "%s %s" % (cls.module.relpath, cname), "members %s" % sorted(cls.members), "no NodeMixin member overridden")
        if "__getattribute__" in cls.members:
            f = next(iter(cls.funcs()))
            ctx.viol("L3", f, f.node, "%s intercepts attribute access beyond __getattr__/__setattr__" % cname, construct="%s defines __getattribute__/__delattr__" % cname)
        if "__delattr__" in cls.members and isinstance(cls.members["__delattr__"], Func):
            # deletion is the third way to touch an attribute: like __setattr__ it must keep the link's own names (link fields,
            # parent, children, target) on the link and may forward only the rest to the target
            da = cls.members["__delattr__"]
            dtabs = local_table(da, da.posparams[1], p)
            dkeep = set().union(*[t for _, t in dtabs]) if dtabs else set()
            need_d = links | {"parent", "children", "target"}
            fwd_d = [c_ for c_ in walk_own(da.node) if isinstance(c_, ast.Call) and norm(c_.func) == "delattr"
                     and c_.args and norm(c_.args[0]) == "%s.target" % da.selfname]
            if fwd_d and not need_d <= dkeep:
                ctx.viol("L3", da, dtabs[0][0] if dtabs else da.node, "names kept local by __delattr__ %s miss %s: `del link.%s` is carried out on "
                         "the target instead of the link" % (sorted(dkeep), sorted(need_d - dkeep), sorted(need_d - dkeep)[0]),
                         construct="__delattr__ local names miss %s" % sorted(need_d - dkeep))
            elif fwd_d:
                ctx.inst("L3", da, dtabs[0][0], "__delattr__ keeps %s local and forwards the rest" % sorted(dkeep))
            else:
                ctx.inst("L3", da, da.node, "__delattr__ never touches the target")
    if [b.name for b in p.cls("SymlinkNodeMixin").bases] != ["NodeMixin"] or [b.name for b in p.cls("SymlinkNode").bases] != ["SymlinkNodeMixin"]:
        c = p.cls("SymlinkNode")
        ctx.viol("L3", None, c.node, "symlink classes no longer derive NodeMixin ← SymlinkNodeMixin ← SymlinkNode", construct="symlink class bases",
                 file=c.module.relpath, qual="SymlinkNode", line=c.node.lineno)
    # ---- L4 constructor
    init = p.func("SymlinkNode", "__init__")
    ctx.touch(init)
    body = [s for s in init.body]
    texts = [" ".join(norm(s).split()) for s in body]
    kw = init.node.args.kwarg.arg if init.node.args.kwarg else None
    if texts and texts[0] == "self.target = target":
        ctx.inst("L4", init, body[0], "target assigned first")
    else:
        ctx.viol("L4", init, init.node, "SymlinkNode.__init__ does not assign self.target = target before anything else (forwarding needs it)",
                 construct="SymlinkNode.__init__: first statement")
    upd = [s for s, t in zip(body, texts) if kw and t in ("self.target.__dict__.update(%s)" % kw, "target.__dict__.update(%s)" % kw)]
    alt = [s for s in body if isinstance(s, ast.For) and kw and "setattr(self.target" in norm(s)]
    if not (upd or alt) and kw:
        # anywhere in the body, possibly behind `if kwargs:` and with a fall-back for targets without an instance dict:
        # try: d = target.__dict__ / except AttributeError: for k, v in kwargs.items(): setattr(target, k, v) / else: d.update(kwargs)
        tnames = ("self.target", "target")
        for t_ in [x for x in ast.walk(init.node) if isinstance(x, ast.Try)]:
            # (the alias normalisation may have moved the `__dict__` read from the try body to its else branch)
            reads = [a for st_ in t_.body + t_.orelse for a in ast.walk(st_) if isinstance(a, ast.Attribute) and a.attr == "__dict__" and norm(a.value) in tnames]
            hs = [h for h in t_.handlers if h.type is not None and norm(h.type) == "AttributeError"]
            slow = [lp for h in hs for lp in ast.walk(h) if isinstance(lp, ast.For) and norm(lp.iter) == "%s.items()" % kw
                    and isinstance(lp.target, ast.Tuple) and len(lp.target.elts) == 2 and len(lp.body) == 1
                    and " ".join(norm(lp.body[0]).split()) in tuple("setattr(%s, %s, %s)" % (tn, norm(lp.target.elts[0]), norm(lp.target.elts[1])) for tn in tnames)]
            fast = [c for st_ in (t_.orelse + t_.body) for c in ast.walk(st_) if isinstance(c, ast.Call) and isinstance(c.func, ast.Attribute)
                    and c.func.attr == "update" and [norm(a) for a in c.args] == [kw] and not c.keywords]
            outer_ok = all(isinstance(c_, ast.Name) and c_.id == kw for c_, o_, _g in typer_for(ctx).cfg_of(init).guards_of(
                next(cn_ for cn_ in typer_for(ctx).cfg_of(init).nodes if cn_.ast is not None and any(cn_.ast is b_ for b_ in t_.body + t_.orelse))))
            if reads and len(hs) == len(t_.handlers) == 1 and slow and fast and outer_ok:
                upd = [t_]
    if upd or alt:
        ctx.inst("L4", init, (upd + alt)[0], "keyword attributes stored on the target")
    else:
        ctx.viol("L4", init, init.node, "keyword attributes are not stored on the target", construct="SymlinkNode.__init__: kwargs")
    for s, t in zip(body, texts):
        if kw and ("self.__dict__.update(%s)" % kw) in t:
            ctx.viol("L4", init, s, "keyword attributes are stored on the link instead of the target")
    if ctx.extra.get("undecided") and not ctx.new_findings():
        raise AnalysisError("C20 " + "; ".join(ctx.extra["undecided"][:2]))
    ctx.floor("L1", 2)
    ctx.floor("L2", 3)
    ctx.floor("L3", 2)
    ctx.floor("L4", 2)
