"""C18 — LightNodeMixin is the same program as NodeMixin modulo a declared
renaming and a frozen, verified difference table (translation validation)."""

import ast
import copy

from ..model import AnalysisError, Func, Prop, mangle, norm, strip_doc
from .common import walk_own

PROP = "C18"
LEVEL = "translation_validation"
EXPLANATION_M8 = (
    " M9 no identity-only lint hit (==, in, truth value, hash of a node) occurs in one mixin only. M8 the read-only consumers (iterators, Walker, Resolver, RenderTree, search, util) never store attributes on foreign "
    "objects, never inspect __dict__/__slots__/vars() and never use weakref - the capabilities in which the two storage "
    "models differ."
)
EXPLANATION = (
    "Every member of LightNodeMixin is compared with its NodeMixin namesake after normalisation (docstrings removed, "
    "the class's own name and its name-mangling prefix mapped to a placeholder, parameters and locals alpha-renamed, "
    "a few syntactic canonicalisations). All pairs must be equal except the frozen difference table: __slots__ "
    "(must list exactly the link fields written), the node-type checks of NodeMixin (must name both mixins, hence "
    "dead for tree-node arguments), the deprecated alias 'anchestors', imports. Free names used by both classes must "
    "resolve to the same definitions. Because the remaining code is the same program over a renamed pair of storage "
    "slots, every history of tree-node calls behaves identically in both." + EXPLANATION_M8
)
ASSUMPTIONS = [
    "CPython name mangling and slot/dict attribute semantics",
    "arguments are tree nodes (the property's own restriction), so isinstance(x, (NodeMixin, LightNodeMixin)) is true",
]

PLACE = "SELFCLS"
STRUCT_MEMBERS = ("parent", "children", "__check_loop", "__detach", "__attach", "__children_or_empty", "__check_children")


def _trace_signatures(p, clsname):
    from ..events import label, traces_for
    out, _ = traces_for(p, clsname, 2)
    sigs = {}
    for name, (func, res, it) in out.items():
        ss = set()
        for trace, outcome, st in res:
            if any(ev.kind == "RAISE" and ev.exc == "TreeError" and ev.node is not None and _is_typecheck_raise(ev) for ev in trace):
                continue  # NodeMixin-only node-type refusal (frozen difference, dead for tree nodes)
            if outcome[0] == "raise" and getattr(outcome[1], "origin", None) == "nonnode":
                continue  # an argument that is not a node at all: refused by whichever access comes first, not a tree-node history
            sig = []
            for ev in trace:
                if ev.kind == "HOOK":
                    sig.append(("H", ev.name, label(ev.recv), tuple(label(a) for a in ev.args)))
                elif ev.kind == "WRITE":
                    sig.append(("W", label(ev.recv), ev.field, label(ev.value)))
                elif ev.kind == "RAISE":
                    sig.append(("R", ev.exc))
                elif ev.kind == "REENTER":
                    sig.append(("REENTER", label(ev.recv), tuple(label(a) for a in (ev.args or ()))))
                elif ev.kind in ("LISTREAD", "LAZYINIT"):
                    sig.append((ev.kind, label(ev.recv)))
                elif ev.kind in ("USERITER", "RERAISE", "HANDLER", "SETATTR", "DELATTR", "SETITEM"):
                    sig.append((ev.kind,))
                elif ev.kind == "UNKNOWNCALL":
                    sig.append(("U", (ev.text or "").replace(clsname, PLACE)))
                elif ev.kind == "GUARD" and _inside_typecheck(ev):
                    continue
                elif ev.kind == "GUARD" and ev.name in ("is", "ancestor-scan"):
                    ab = (label(ev.a), label(ev.b))
                    sig.append(("G", ev.name) + (tuple(sorted(ab)) if ev.name == "is" else ab) + (ev.outcome,))
                elif ev.kind == "GUARD" and ev.name == "opaque" and "isinstance" not in (ev.text or ""):
                    sig.append(("G", "opaque", (ev.text or "").replace(clsname, PLACE), ev.outcome))
            oc = outcome[0] if outcome[0] == "return" else "raise:%s" % outcome[1].cls
            ss.add((tuple(sig), oc))
        sigs[name] = ss
    return sigs


def _is_typecheck_raise(ev):
    n = ev.node
    return isinstance(n, ast.Raise) and "not of type" in norm(n) or "non-node object" in norm(n) or _inside_typecheck(ev)


def _inside_typecheck(ev):
    f = ev.func
    for t in typecheck_statements(f.node, own=f.cls.name if f.cls is not None else None):
        if any(x is ev.node for x in ast.walk(t)):
            return True
    return False


def _same_traces(p):
    a = _trace_signatures(p, "NodeMixin")
    b = _trace_signatures(p, "LightNodeMixin")
    for name in sorted(a):
        only_a = a[name] - b.get(name, set())
        only_b = b.get(name, set()) - a[name]
        if only_a or only_b:
            ex = sorted(only_a or only_b, key=lambda t: len(t[0]))[0]
            return False, "%s has %d trace(s) only in NodeMixin and %d only in LightNodeMixin, e.g. %s → %s" % (
                name, len(only_a), len(only_b), " ; ".join(str(x) for x in ex[0][-6:]), ex[1])
    return True, ""


class _Canon(ast.NodeTransformer):
    """Syntactic canonicalisations that do not change behaviour."""

    def visit_UnaryOp(self, node):
        self.generic_visit(node)
        # not (a is b) -> a is not b ; not (a is not b) -> a is b
        if isinstance(node.op, ast.Not) and isinstance(node.operand, ast.Compare) and len(node.operand.ops) == 1:
            op = node.operand.ops[0]
            flip = {ast.Is: ast.IsNot, ast.IsNot: ast.Is, ast.In: ast.NotIn, ast.NotIn: ast.In}
            for k, v in flip.items():
                if type(op) is k:
                    return ast.Compare(left=node.operand.left, ops=[v()], comparators=node.operand.comparators)
        return node

    def visit_Compare(self, node):
        self.generic_visit(node)
        # None is x -> x is None
        if len(node.ops) == 1 and isinstance(node.ops[0], (ast.Is, ast.IsNot)) and isinstance(node.left, ast.Constant) \
                and node.left.value is None:
            return ast.Compare(left=node.comparators[0], ops=node.ops, comparators=[node.left])
        return node

    def visit_Call(self, node):
        self.generic_visit(node)
        # tuple() -> () ; super(C, self) -> super()
        if isinstance(node.func, ast.Name) and node.func.id == "tuple" and not node.args and not node.keywords:
            return ast.Tuple(elts=[], ctx=ast.Load())
        if isinstance(node.func, ast.Name) and node.func.id == "super" and len(node.args) == 2:
            return ast.Call(func=node.func, args=[], keywords=[])
        return node

    def visit_Pass(self, node):
        return node


class _Rename(ast.NodeTransformer):
    def __init__(self, clsname, local_map):
        self.cls = clsname
        self.pre = "_%s__" % clsname.lstrip("_")
        self.local = local_map

    def visit_Name(self, node):
        if node.id == self.cls:
            return ast.copy_location(ast.Name(id=PLACE, ctx=node.ctx), node)
        if node.id in self.local:
            return ast.copy_location(ast.Name(id=self.local[node.id], ctx=node.ctx), node)
        return node

    def visit_arg(self, node):
        if node.arg in self.local:
            node = copy.copy(node)
            node.arg = self.local[node.arg]
        node.annotation = None
        return node

    def visit_Constant(self, node):
        if isinstance(node.value, str) and self.pre in node.value:
            return ast.copy_location(ast.Constant(value=node.value.replace(self.pre, "_%s__" % PLACE)), node)
        return node

    def visit_Attribute(self, node):
        self.generic_visit(node)
        if node.attr.startswith(self.pre):
            node = copy.copy(node)
            node.attr = "_%s__%s" % (PLACE, node.attr[len(self.pre):])
        return node


def _locals_of(fnode):
    """parameters and assigned local names in order of first appearance"""
    order = []

    def add(n):
        if n not in order:
            order.append(n)
    a = fnode.args
    for x in a.posonlyargs + a.args:
        add(x.arg)
    if a.vararg:
        add(a.vararg.arg)
    for x in a.kwonlyargs:
        add(x.arg)
    if a.kwarg:
        add(a.kwarg.arg)
    for n in ast.walk(fnode):
        if isinstance(n, ast.Name) and isinstance(n.ctx, (ast.Store, ast.Del)):
            add(n.id)
        elif isinstance(n, ast.arg):
            add(n.arg)
        elif isinstance(n, ast.ExceptHandler) and n.name:
            add(n.name)
    return order


def normalise_func(f, clsname, drop=()):
    node = copy.deepcopy(f.node)
    node.body = [s for s in strip_doc(node.body)] or [ast.Pass()]
    # drop table statements (identified by position in the *original* body)
    if drop:
        node = _drop(node, drop)
    node = _fold_typechecks(node, clsname)
    names = _locals_of(node)
    lmap = {n: "v%d" % i for i, n in enumerate(names)}
    node = _Rename(clsname, lmap).visit(node)
    node = _Canon().visit(node)
    node.name = "F"
    node.returns = None
    decos = sorted(norm(_Rename(clsname, {}).visit(copy.deepcopy(d))) for d in f.node.decorator_list)
    node.decorator_list = []
    ast.fix_missing_locations(node)
    return decos, ast.dump(node, annotate_fields=True, include_attributes=False), node


def _fold_typechecks(node, own):
    """partial evaluation for tree-node arguments of a tree built from `own`: `isinstance(x, <classes naming own>)` is True,
    `all(True for ...)` is True, `not True` is False, `A and True` is A, `if True: B` is B, `if False: B else C` is C.  Only
    tests whose class tuple names the mixin itself are folded: on a homogeneous tree they cannot fail."""
    class F(ast.NodeTransformer):
        def visit_Call(self, n):
            self.generic_visit(n)
            if isinstance(n.func, ast.Name) and n.func.id == "isinstance" and len(n.args) == 2:
                t = n.args[1]
                names = {norm(e) for e in (t.elts if isinstance(t, ast.Tuple) else [t])}
                if own in names:
                    return ast.copy_location(ast.Constant(value=True), n)
            if isinstance(n.func, ast.Name) and n.func.id == "all" and len(n.args) == 1 and isinstance(n.args[0], (ast.GeneratorExp, ast.ListComp)) \
                    and isinstance(n.args[0].elt, ast.Constant) and n.args[0].elt.value is True and not any(g.ifs for g in n.args[0].generators):
                return ast.copy_location(ast.Constant(value=True), n)
            return n

        def visit_UnaryOp(self, n):
            self.generic_visit(n)
            if isinstance(n.op, ast.Not) and isinstance(n.operand, ast.Constant) and isinstance(n.operand.value, bool):
                return ast.copy_location(ast.Constant(value=not n.operand.value), n)
            return n

        def visit_BoolOp(self, n):
            self.generic_visit(n)
            is_and = isinstance(n.op, ast.And)
            vals = []
            for v in n.values:
                if isinstance(v, ast.Constant) and isinstance(v.value, bool):
                    if v.value is is_and:
                        continue  # neutral element
                    return ast.copy_location(ast.Constant(value=v.value), n)  # absorbing element (operands before it have no effect here)
                vals.append(v)
            if not vals:
                return ast.copy_location(ast.Constant(value=is_and), n)
            if len(vals) == 1:
                return vals[0]
            n.values = vals
            return n

        def visit_If(self, n):
            self.generic_visit(n)
            if isinstance(n.test, ast.Constant) and isinstance(n.test.value, bool):
                return (n.body if n.test.value else n.orelse) or None
            return n
    out = F().visit(node)
    for x in ast.walk(out):
        for field in ("body", "orelse"):
            blk = getattr(x, field, None)
            if isinstance(blk, list) and not blk and field == "body":
                x.body = [ast.Pass()]
    return out


def _drop(node, drop_nodes):
    ids = set(id(x) for x in drop_nodes)

    class D(ast.NodeTransformer):
        def generic_visit(self, n):
            for field, old in ast.iter_fields(n):
                if isinstance(old, list):
                    new = []
                    for v in old:
                        if isinstance(v, ast.AST):
                            if getattr(v, "_orig_id", None) in ids:
                                continue
                            v = self.visit(v)
                        new.append(v)
                    old[:] = new
                elif isinstance(old, ast.AST):
                    setattr(n, field, self.visit(old))
            return n
    return D().visit(node)


def _mark_orig(fnode):
    for n in ast.walk(fnode):
        n._orig_id = id(n)


def _isinstance_both(test, own=None):
    """`[x is not None and] not isinstance(x, (NodeMixin, LightNodeMixin))`; returns x text or None.  With `own` given the
    class tuple only has to contain that class: on a tree built from one mixin such a check never fires either."""
    conj = test.values if isinstance(test, ast.BoolOp) and isinstance(test.op, ast.And) else [test]
    last = conj[-1]
    if not (isinstance(last, ast.UnaryOp) and isinstance(last.op, ast.Not) and isinstance(last.operand, ast.Call)):
        return None
    call = last.operand
    if not (isinstance(call.func, ast.Name) and call.func.id == "isinstance" and len(call.args) == 2):
        return None
    subj = norm(call.args[0])
    t = call.args[1]
    names = {norm(e) for e in (t.elts if isinstance(t, ast.Tuple) else [t])}
    if not ({"NodeMixin", "LightNodeMixin"} <= names or (own is not None and own in names)):
        return None
    for c in conj[:-1]:
        ok = isinstance(c, ast.Compare) and len(c.ops) == 1 and isinstance(c.ops[0], ast.IsNot) \
            and norm(c.left) == subj and isinstance(c.comparators[0], ast.Constant) and c.comparators[0].value is None
        if not ok:
            return None
    return subj


def typecheck_statements(fnode, own=None):
    """Statements of the frozen shape `if <not a tree node>: <locals>; raise TreeError(...)`."""
    out = []
    for n in ast.walk(fnode):
        if isinstance(n, ast.If) and not n.orelse and _isinstance_both(n.test, own) is not None:
            body = n.body
            ok = bool(body) and isinstance(body[-1], ast.Raise) and body[-1].exc is not None \
                and "TreeError" in norm(body[-1].exc)
            for s in body[:-1]:
                if not (isinstance(s, ast.Assign) and all(isinstance(t, ast.Name) for t in s.targets)):
                    ok = False
                for c in ast.walk(s):
                    if isinstance(c, ast.Call):
                        ok = False
            if ok:
                out.append(n)
    return out


def members_of(cls):
    out = {}
    for name, m in cls.members.items():
        src = None
        if isinstance(m, Prop):
            for k in ("getter", "setter", "deleter"):
                f = getattr(m, k)
                if f is not None:
                    out[(f.srcname, k)] = f
        else:
            out[(m.srcname, m.kind)] = m
    return out


def first_diff(a, b, path="body"):
    """Human-readable location of the first differing sub-tree of two ASTs."""
    if type(a) is not type(b):
        return "%s: %s vs %s" % (path, _s(a), _s(b))
    if isinstance(a, ast.AST):
        for (fa, va), (fb, vb) in zip(ast.iter_fields(a), ast.iter_fields(b)):
            d = first_diff(va, vb, "%s.%s" % (type(a).__name__, fa))
            if d:
                return d
        return None
    if isinstance(a, list):
        if len(a) != len(b):
            for i, (x, y) in enumerate(zip(a, b)):
                d = first_diff(x, y, "%s[%d]" % (path, i))
                if d:
                    return d
            longer, tag = (a, "NodeMixin") if len(a) > len(b) else (b, "LightNodeMixin")
            return "%s: extra element only in %s: %s" % (path, tag, _s(longer[min(len(a), len(b))]))
        for i, (x, y) in enumerate(zip(a, b)):
            d = first_diff(x, y, "%s[%d]" % (path, i))
            if d:
                return d
        return None
    if a != b:
        return "%s: %r vs %r" % (path, a, b)
    return None


def _s(x):
    if isinstance(x, ast.AST):
        try:
            return " ".join(ast.unparse(x).split())[:100]
        except Exception:
            return type(x).__name__
    return repr(x)[:100]


def free_names(cls):
    out = set()
    for f in cls.funcs():
        loc = set(_locals_of(f.node))
        for n in walk_own(f.node):
            if isinstance(n, ast.Name) and n.id not in loc:
                out.add(n.id)
    return out


def run(ctx):
    p = ctx.p
    nm, lm = p.cls("NodeMixin"), p.cls("LightNodeMixin")
    for c in (nm, lm):
        if c.bases or c.ext_bases:
            if not (c.ext_bases == ["object"] and not c.bases):
                ctx.viol("M0", None, c.node, "mixin has base classes: behaviour no longer defined by its own body",
                         construct="class %s(%s)" % (c.name, ", ".join(norm(b) for b in c.base_exprs)),
                         file=c.module.relpath, qual=c.name, line=c.node.lineno)
        if c.decorators:
            ctx.viol("M0", None, c.node, "mixin is decorated", construct="decorators of " + c.name,
                     file=c.module.relpath, qual=c.name, line=c.node.lineno)
    a, b = members_of(nm), members_of(lm)
    table_hits = 0
    programs = 0
    # --- table line 3: deprecated alias only in NodeMixin
    only_n = sorted(set(a) - set(b))
    only_l = sorted(set(b) - set(a))
    for key in only_n:
        f = a[key]
        if key == ("anchestors", "getter") and _is_alias(f):
            table_hits += 1
            ctx.inst("M3-table-alias", f, "anchestors", "only in NodeMixin: warn + return self.ancestors (frozen difference)")
            continue
        ctx.viol("M1", f, f.node, "member exists only in NodeMixin: the two mixins no longer offer the same interface",
                 construct="def %s (%s)" % key)
    for key in only_l:
        f = b[key]
        ctx.viol("M1", f, f.node, "member exists only in LightNodeMixin: the two mixins no longer offer the same interface",
                 construct="def %s (%s)" % key)
    # --- member pairs
    struct_diffs = []
    for key in sorted(set(a) & set(b)):
        fa, fb = a[key], b[key]
        programs += 1
        _mark_orig(fa.node)
        drops = typecheck_statements(fa.node)
        if drops:
            for d in drops:
                table_hits += 1
                ctx.inst("M2-table-typecheck", fa, d.test, "NodeMixin-only node-type check naming both mixins: dead for tree nodes")
        da, sa, na = normalise_func(fa, "NodeMixin", drops)
        _mark_orig(fb.node)
        drops_b = typecheck_statements(fb.node, own="LightNodeMixin")
        for d in drops_b:
            table_hits += 1
            ctx.inst("M2-table-typecheck", fb, d.test, "node-type check naming the mixin itself: dead for trees built from it")
        db, sb, nb = normalise_func(fb, "LightNodeMixin", drops_b)
        if da != db:
            ctx.viol("M4", fb, fb.node, "decorators differ from NodeMixin.%s: %s vs %s" % (key[0], da, db),
                     construct="decorators of %s (%s)" % key)
        elif sa != sb:
            d = first_diff(na, nb) or "?"
            if key[0] in STRUCT_MEMBERS:
                struct_diffs.append((key, fa, fb, d))
            else:
                ctx.viol("M4", fb, fb.node,
                         "body differs from its NodeMixin namesake after normalisation — an edit applied to one copy only; "
                         "first difference at %s" % d, construct="%s (%s): %s" % (key[0], key[1], d))
        else:
            ctx.inst("M4", fb, "%s (%s)" % key, "equal to NodeMixin.%s modulo renaming" % key[0])
    # --- M9 a node compared/hashed/tested by value in ONE of the mixins only: for node classes defining __eq__/__bool__/
    # __hash__ the two mixins then behave differently (whatever the trace comparison above could establish)
    from ..lint_identity import lint_program
    from .common import typer_for
    hits, _st = lint_program(p, typer_for(ctx), files={nm.module.relpath, lm.module.relpath})
    per = {}
    for h in hits:
        top = h.func
        while getattr(top, "outer", None) is not None:
            top = top.outer
        if top.cls is None or top.cls.name not in (nm.name, lm.name):
            continue
        import re as _re
        txt = _re.sub(r"__(inl|gen|call)\d+", "", norm(h.node).replace("_%s__" % top.cls.name, "_@__"))
        # (keyed by rule and construct, not by function: a helper may be inlined in one copy and not in the other)
        per.setdefault(("*", "*", h.rule, txt), {})[top.cls.name] = h
    for key, d in sorted(per.items()):
        if len(d) == 1:
            cname, h = next(iter(d.items()))
            ctx.viol("M9", h.func, h.node, "identity-only rule %s is violated in %s only (%s): for node classes defining the special method "
                     "the two mixins diverge" % (h.rule, cname, h.why), construct="%s.%s: %s one-sided" % (cname, h.func.srcname, key[3]))
    ctx.instances["M9"] += 1
    if struct_diffs:
        # members of the mutators that differ syntactically: equal programs in the sense that matters if the
        # two mixins have the same set of abstract event traces for the three structural entry points
        same, detail = _same_traces(p)
        for key, fa, fb, d in struct_diffs:
            if same:
                ctx.inst("M4", fb, "%s (%s)" % key, "differs syntactically from NodeMixin.%s but both mixins have identical abstract "
                         "event traces (hooks, link writes, guards, raises) for parent/children assignment and deletion" % key[0])
            else:
                ctx.viol("M4", fb, fb.node,
                         "body differs from its NodeMixin namesake (first difference at %s) and the abstract event traces of the two "
                         "mixins differ: %s" % (d, detail), construct="%s (%s): %s" % (key[0], key[1], d))
    ctx.floor("M4", 28)
    # --- class-level assignments
    ca = {k: v for k, v in nm.assigns.items()}
    cb = {k: v for k, v in lm.assigns.items()}
    slots_key = "__slots__"
    for k in sorted(set(ca) | set(cb)):
        if k == slots_key:
            continue
        programs += 1
        if k not in ca or k not in cb:
            holder = nm if k in ca else lm
            ctx.viol("M5", None, (ca.get(k) or cb.get(k)), "class attribute only in %s" % holder.name,
                     construct="%s = ..." % k, file=holder.module.relpath, qual=holder.name,
                     line=(ca.get(k) or cb.get(k)).lineno)
        elif ast.dump(ca[k]) != ast.dump(cb[k]):
            ctx.viol("M5", None, cb[k], "class attribute %s differs: %s vs %s" % (k, norm(ca[k]), norm(cb[k])),
                     construct="%s = %s" % (k, norm(cb[k])), file=lm.module.relpath, qual=lm.name, line=cb[k].lineno)
        else:
            ctx.inst("M5", "%s LightNodeMixin" % lm.module.relpath, "%s = %s" % (k, norm(cb[k])), "equal")
    # --- table line 1: __slots__ lists exactly the link fields written
    written = set()
    pre = "_LightNodeMixin__"
    for f in lm.funcs():
        for n in ast.walk(f.node):
            if isinstance(n, ast.Attribute) and isinstance(n.ctx, (ast.Store, ast.Del)):
                m = mangle("LightNodeMixin", n.attr)
                if m.startswith(pre):
                    written.add("__" + m[len(pre):])
    if slots_key in ca:
        ctx.viol("M6", None, ca[slots_key], "NodeMixin defines __slots__: storage model changed", construct="__slots__",
                 file=nm.module.relpath, qual=nm.name, line=ca[slots_key].lineno)
    if slots_key not in cb:
        raise AnalysisError("anchor LightNodeMixin.__slots__ not found")
    sl = cb[slots_key]
    try:
        slots = set(ast.literal_eval(sl))
    except Exception:
        raise AnalysisError("LightNodeMixin.__slots__ is not a literal")
    table_hits += 1
    if slots != written:
        ctx.viol("M6", None, sl, "__slots__ %s does not list exactly the link fields the class writes %s" % (
            sorted(slots), sorted(written)), construct="__slots__ = %s" % norm(sl), file=lm.module.relpath, qual=lm.name,
            line=sl.lineno)
    else:
        ctx.inst("M6-table-slots", "%s LightNodeMixin" % lm.module.relpath, "__slots__ = %s" % norm(sl),
                 "equals written link fields %s" % sorted(written))
    # --- free names resolve identically in both modules
    shared = free_names(nm) & free_names(lm)
    for name in sorted(shared):
        if name in ("NodeMixin", "LightNodeMixin"):
            continue
        ra, rb = p.resolve_name(nm.module, name), p.resolve_name(lm.module, name)
        if ra is None and rb is None:
            continue  # builtin in both
        programs += 1
        if ra is not None and rb is not None and ra[0] == rb[0] == "func" and ra[1] is not rb[1] \
                and ast.dump(_strip(ra[1].node)) == ast.dump(_strip(rb[1].node)):
            ctx.inst("M7", "%s LightNodeMixin" % lm.module.relpath, name, "identical private helper in both modules")
            continue
        same = (ra is not None and rb is not None and ra[0] == rb[0] and
                (ra[1] is rb[1] or (ra[0] in ("module", "ext") and ra[1] == rb[1]) or
                 (ra[0] == "const" and ast.dump(ra[1]) == ast.dump(rb[1]))))
        if not same:
            ctx.viol("M7", None, None, "free name %s resolves differently in the two modules: %s vs %s" % (
                name, _r(ra), _r(rb)), construct="name %s" % name, file=lm.module.relpath, qual="LightNodeMixin", line=1)
        else:
            ctx.inst("M7", "%s LightNodeMixin" % lm.module.relpath, name, "same definition in both modules (%s)" % _r(ra))
    ctx.floor("M7", 4)
    rule_M8_consumers(ctx)
    ctx.extra["programs"] = programs
    ctx.extra["disagreements_checked"] = table_hits + len(ctx.findings)
    ctx.extra["trusted_base"] = ["CPython name mangling", "slot vs dict attribute storage semantics", "python ast module"]


def _strip(fnode):
    n = copy.deepcopy(fnode)
    n.body = strip_doc(n.body) or [ast.Pass()]
    return n


def _r(r):
    if r is None:
        return "builtin/unbound"
    k, t = r
    return "%s %s" % (k, getattr(t, "name", None) or (t if isinstance(t, str) else "…"))


def _is_alias(f):
    body = strip_doc(f.node.body)
    if not body or not isinstance(body[-1], ast.Return):
        return False
    if norm(body[-1].value) != "%s.ancestors" % (f.selfname or "self"):
        return False
    for s in body[:-1]:
        if not (isinstance(s, ast.Expr) and isinstance(s.value, ast.Call) and norm(s.value.func) == "warnings.warn"):
            return False
    return True


CONSUMERS = ("anytree/resolver.py", "anytree/walker.py", "anytree/render.py", "anytree/search.py", "anytree/cachedsearch.py",
             "anytree/util/__init__.py", "anytree/iterators/")


def rule_M8_consumers(ctx):
    """M8: the read-only consumers named by the property (iterators, Walker, Resolver, RenderTree, search, util) treat a
    node as opaque: they never store an attribute on an object that is not `self`, never look at __dict__/__slots__/
    vars(), never take weak references and never test for ONE of the two mixin classes (isinstance with NodeMixin but not
    LightNodeMixin or vice versa).  These are exactly the capabilities in which a dict-based (NodeMixin) and a
    slot-based (LightNodeMixin) node differ, so any use makes a query answer depend on the mixin."""
    from .common import walk_own
    p = ctx.p
    n = 0
    for rel, mod in sorted(p.modules.items()):
        if not any(rel == c or (c.endswith("/") and rel.startswith(c)) for c in CONSUMERS):
            continue
        for name, (dotted, member) in mod.imports.items():
            if dotted.split(".")[0] == "weakref":
                ctx.viol("M8", None, mod.tree, "%s imports weakref: slot-based nodes without __weakref__ cannot be weakly referenced, "
                         "so results differ between the two mixins" % rel, construct="import weakref", file=rel, qual="<module>", line=1)
        funcs = [f for f in p.all_funcs if f.module is mod]
        for f in funcs:
            n += 1
            own = {f.selfname} if f.selfname else set()
            if f.kind == "class" and f.posparams:
                own.add(f.posparams[0])
            o = f.outer
            while o is not None:
                if o.selfname:
                    own.add(o.selfname)
                o = o.outer
            bad = None
            for node in walk_own(f.node):
                if isinstance(node, ast.Attribute) and isinstance(node.ctx, (ast.Store, ast.Del)):
                    root = node.value
                    while isinstance(root, ast.Attribute):
                        root = root.value
                    if not (isinstance(root, ast.Name) and root.id in own and node.value is root):
                        bad = (node, "stores the attribute `%s` on an object that is not its own instance" % norm(node))
                elif isinstance(node, ast.Attribute) and node.attr in ("__dict__", "__slots__", "__weakref__"):
                    bad = (node, "inspects `%s`" % norm(node))
                elif isinstance(node, ast.Call) and isinstance(node.func, ast.Name) and node.func.id in ("setattr", "delattr", "vars"):
                    a0 = node.args[0] if node.args else None
                    if not (isinstance(a0, ast.Name) and a0.id in own and node.func.id != "vars"):
                        bad = (node, "calls %s on an object that is not its own instance" % node.func.id)
                elif isinstance(node, ast.Call) and "weakref" in norm(node.func):
                    bad = (node, "takes a weak reference (%s)" % norm(node.func))
                elif isinstance(node, ast.Call) and isinstance(node.func, ast.Name) and node.func.id in ("isinstance", "issubclass") \
                        and len(node.args) == 2:
                    t_ = node.args[1]
                    names_ = {norm(e) for e in (t_.elts if isinstance(t_, ast.Tuple) else [t_])}
                    mix = names_ & {"NodeMixin", "LightNodeMixin"}
                    if len(mix) == 1:
                        bad = (node, "tests `%s` for %s only" % (norm(node.args[0]), next(iter(mix))))
                if bad is not None:
                    ctx.viol("M8", f, bad[0], "%s %s: dict-based and slot-based nodes differ in exactly this capability, so the "
                             "result depends on the mixin" % (f.qual, bad[1]))
                    bad = None
            ctx.inst("M8", f, f.node.name if hasattr(f.node, "name") else "<lambda>", "treats nodes as opaque")
    ctx.floor("M8", 40)
    return n
