"""Helpers shared by the per-property rule modules."""

import ast
import os

from ..model import AnalysisError, Program, norm
from ..nodetype import Typer

FIXTURES = os.path.join(os.path.dirname(os.path.dirname(os.path.abspath(__file__))), "fixtures")

_typer_cache = {}


def typer_for(ctx, assume=None):
    key = (id(ctx.p), tuple(sorted((assume or {}).items())))
    if key not in _typer_cache:
        _typer_cache[key] = Typer(ctx.p, assume=assume).run_interprocedural()
    return _typer_cache[key]


def fixture_program(name):
    path = os.path.join(FIXTURES, name)
    if not os.path.isdir(path):
        raise AnalysisError("fixture %s missing" % name)
    return Program(path)


def resolution_stats(typer):
    import collections
    kinds = collections.Counter()
    unknown = []
    for f, ft in typer.results.items():
        for r in ft.calls.values():
            kinds[r.kind] += 1
            if r.kind == "unknown":
                unknown.append("%s: %s" % (f.where, r.name))
    return {"call_sites_by_resolution": dict(sorted(kinds.items())), "unknown_callees": sorted(unknown)}


def is_none(e):
    return isinstance(e, ast.Constant) and e.value is None


def none_test(cond):
    """(name-or-expr text, polarity) if cond is `X is None` (True) / `X is not None` (False)."""
    if isinstance(cond, ast.Compare) and len(cond.ops) == 1 and isinstance(cond.ops[0], (ast.Is, ast.IsNot)):
        l, r = cond.left, cond.comparators[0]
        if is_none(r):
            return norm(l), isinstance(cond.ops[0], ast.Is)
        if is_none(l):
            return norm(r), isinstance(cond.ops[0], ast.Is)
    return None


def identity_test(cond):
    """(text a, text b, is_same) for `a is b` / `a is not b` (either orientation)."""
    if isinstance(cond, ast.Compare) and len(cond.ops) == 1 and isinstance(cond.ops[0], (ast.Is, ast.IsNot)):
        return norm(cond.left), norm(cond.comparators[0]), isinstance(cond.ops[0], ast.Is)
    return None


def walk_own(node):
    """ast.walk that does not descend into nested function/class definitions."""
    stack = [node]
    first = True
    while stack:
        n = stack.pop()
        if not first and isinstance(n, (ast.FunctionDef, ast.AsyncFunctionDef, ast.Lambda, ast.ClassDef)):
            continue
        first = False
        yield n
        stack.extend(ast.iter_child_nodes(n))


def names_in(node):
    return {n.id for n in ast.walk(node) if isinstance(n, ast.Name)}


def call_binding(call, callee):
    """callee parameter name -> argument expression for one call site
    (positional and keyword; *args/**kwargs reported under '*' / '**')."""
    ps = list(callee.posparams)
    if callee.selfname is not None:
        ps = ps[1:]
    out = {}
    i = 0
    for a in call.args:
        if isinstance(a, ast.Starred):
            out["*"] = a.value
            continue
        if i < len(ps):
            out[ps[i]] = a
        else:
            out["#%d" % i] = a
        i += 1
    for k in call.keywords:
        if k.arg is None:
            out["**"] = k.value
        else:
            out[k.arg] = k.value
    return out


def check_forwarding(ctx, rule, caller, call, callee, expect, what=""):
    """expect: callee param -> Name id that must be passed unchanged, or a
    predicate(expr) -> bool.  Parameters not mentioned must be absent."""
    b = call_binding(call, callee)
    ok = True
    for prm, want in expect.items():
        got = b.get(prm)
        if callable(want):
            good = got is not None and (want(got) or want(resolve_local(caller, got)))
        elif want is None:
            good = got is None
        else:
            good = isinstance(got, ast.Name) and got.id == want
            if not good and got is not None:
                r = resolve_local(caller, got)
                good = isinstance(r, ast.Name) and r.id == want
        if good:
            ctx.inst(rule, caller, call, "%s ← %s%s" % (prm, norm(got) if got is not None else "(default)", what))
        else:
            ok = False
            ctx.viol(rule, caller, call, "argument for `%s` of %s is `%s`; the value %s must be passed on unchanged — the option is "
                     "dropped, swapped or altered on the way" % (prm, callee.qual, norm(got) if got is not None else "missing",
                                                                  want if isinstance(want, str) else "required"),
                     construct="%s → %s: %s=%s" % (caller.qual, callee.qual, prm, norm(got) if got is not None else "missing"))
    for prm in b:
        if prm not in expect and not prm.startswith(("*", "#")):
            d_ = getattr(callee, "defaults", {}).get(prm) if hasattr(callee, "defaults") else None
            if d_ is not None and isinstance(b[prm], ast.Constant) and isinstance(d_, ast.Constant) and b[prm].value == d_.value \
                    and type(b[prm].value) is type(d_.value):
                continue  # the callee's own default written out: the same call
            ok = False
            ctx.viol(rule, caller, call, "unexpected argument `%s=%s` for %s" % (prm, norm(b[prm]), callee.qual),
                     construct="%s → %s: extra %s" % (caller.qual, callee.qual, prm))
    return ok


def find_calls(func, pred):
    return [n for n in walk_own(func.node) if isinstance(n, ast.Call) and pred(n)]


def cfg_nodes_containing(cfg, expr):
    out = []
    for cn in cfg.nodes:
        if cn.kind not in ("stmt", "return", "test", "raisestmt", "assert", "foriter"):
            continue
        root = cn.cond if cn.kind == "test" else (cn.ast.iter if cn.kind == "foriter" else cn.ast)
        for c in ast.walk(root):
            if c is expr:
                out.append(cn)
                break
    return out


def _const_fold_str(e, env):
    """value of a string-valued constant expression over the loop variables in env (no calls, no attribute access)"""
    if isinstance(e, ast.Constant) and isinstance(e.value, str):
        return e.value
    if isinstance(e, ast.Name) and e.id in env:
        return env[e.id]
    if isinstance(e, ast.BinOp) and isinstance(e.op, ast.Add):
        a, b = _const_fold_str(e.left, env), _const_fold_str(e.right, env)
        return None if a is None or b is None else a + b
    if isinstance(e, ast.BinOp) and isinstance(e.op, ast.Mod) and isinstance(e.left, ast.Constant) and isinstance(e.left.value, str):
        args = e.right.elts if isinstance(e.right, ast.Tuple) else [e.right]
        vals = [_const_fold_str(a, env) for a in args]
        if any(v is None for v in vals) or e.left.value.count("%s") != len(vals) or e.left.value.count("%") != len(vals):
            return None
        out = e.left.value
        for v in vals:
            out = out.replace("%s", v, 1)
        return out
    if isinstance(e, ast.JoinedStr):
        parts = []
        for v in e.values:
            if isinstance(v, ast.Constant):
                parts.append(str(v.value))
            elif isinstance(v, ast.FormattedValue) and v.conversion == -1 and v.format_spec is None:
                x = _const_fold_str(v.value, env)
                if x is None:
                    return None
                parts.append(x)
            else:
                return None
        return "".join(parts)
    return None


def const_strings(program, func, expr, _depth=0):
    """The set of string constants an expression denotes, folding literal
    tuples/lists/sets, concatenation/union, tuple()/set()/frozenset() wrappers
    and names bound once to such a value (locally or at module level).
    None if it is not such a constant."""
    if _depth > 6 or expr is None:
        return None
    if isinstance(expr, ast.Constant) and isinstance(expr.value, str):
        return {expr.value}
    if isinstance(expr, (ast.Tuple, ast.List, ast.Set)):
        out = set()
        for e in expr.elts:
            if isinstance(e, ast.Starred):
                sub = const_strings(program, func, e.value, _depth + 1)
            else:
                sub = const_strings(program, func, e, _depth + 1) if not isinstance(e, ast.Constant) else ({e.value} if isinstance(e.value, str) else None)
            if sub is None:
                return None
            out |= sub
        return out
    if isinstance(expr, ast.BinOp) and isinstance(expr.op, (ast.Add, ast.BitOr)):
        a = const_strings(program, func, expr.left, _depth + 1)
        b = const_strings(program, func, expr.right, _depth + 1)
        return None if a is None or b is None else a | b
    if isinstance(expr, ast.Call) and isinstance(expr.func, ast.Name) and expr.func.id in ("tuple", "list", "set", "frozenset") and len(expr.args) == 1:
        return const_strings(program, func, expr.args[0], _depth + 1)
    if isinstance(expr, (ast.GeneratorExp, ast.ListComp, ast.SetComp)) and not any(g.ifs or g.is_async for g in expr.generators):
        # a comprehension over literal string collections with a constant element template: `"_%s__%s" % (c, n) for c in (...) for n in (...)`
        envs = [{}]
        for g in expr.generators:
            if not isinstance(g.target, ast.Name):
                return None
            vals = const_strings(program, func, g.iter, _depth + 1)
            if vals is None or len(vals) > 12:
                return None
            envs = [dict(e_, **{g.target.id: v}) for e_ in envs for v in sorted(vals)]
            if len(envs) > 64:
                return None
        out = set()
        for e_ in envs:
            v = _const_fold_str(expr.elt, e_)
            if v is None:
                return None
            out.add(v)
        return out
    if isinstance(expr, ast.Name):
        local = [n for n in walk_own(func.node) if isinstance(n, ast.Assign) and any(isinstance(t, ast.Name) and t.id == expr.id for t in n.targets)]
        if len(local) == 1:
            return const_strings(program, func, local[0].value, _depth + 1)
        if local:
            return None
        r = program.resolve_name(func.module, expr.id)
        if r is not None and r[0] == "const":
            modfunc = func
            return const_strings(program, _ModuleScope(func.module), r[1], _depth + 1)
        return None
    if isinstance(expr, ast.Attribute) and isinstance(expr.value, ast.Name):
        # Class.CONST or self.CONST (class-level constant)
        cls = program.classes.get(expr.value.id) or (func.cls if getattr(func, "selfname", None) == expr.value.id else None)
        if cls is not None:
            from ..model import mangle
            for c in cls.mro():
                v = c.assigns.get(mangle(c.name, expr.attr))
                if v is not None:
                    return const_strings(program, _ModuleScope(c.module), v, _depth + 1)
    return None


class _ModuleScope:
    """stand-in for a function when folding module-level constants"""
    def __init__(self, module):
        self.module = module
        self.node = ast.Module(body=[], type_ignores=[])
        self.cls = None
        self.selfname = None


def resolve_local(func, expr, depth=0):
    """follow a local name bound exactly once (by plain assignment) to its value"""
    while isinstance(expr, ast.Name) and depth < 6:
        asg = [n for n in walk_own(func.node) if isinstance(n, ast.Assign) and len(n.targets) == 1
               and isinstance(n.targets[0], ast.Name) and n.targets[0].id == expr.id]
        others = [n for n in walk_own(func.node) if isinstance(n, (ast.AugAssign, ast.For, ast.comprehension)) and any(
            isinstance(x, ast.Name) and x.id == expr.id and isinstance(x.ctx, ast.Store) for x in ast.walk(n.target))]
        # chained / unpacking assignments and walrus bind the name too
        others += [n for n in walk_own(func.node) if isinstance(n, ast.Assign) and n not in asg and any(
            isinstance(x, ast.Name) and x.id == expr.id and isinstance(x.ctx, ast.Store) for t in n.targets for x in ast.walk(t))]
        others += [n for n in walk_own(func.node) if isinstance(n, ast.NamedExpr) and n.target.id == expr.id]
        if len(asg) != 1 or others or expr.id in func.params:
            return expr
        expr = asg[0].value
        depth += 1
    return expr


def local_def(func, name):
    """nested function / lambda bound to ``name`` inside func"""
    for n in walk_own(func.node):
        pass
    for n in ast.walk(func.node):
        if isinstance(n, ast.FunctionDef) and n.name == name and n is not func.node:
            return n
    v = resolve_local(func, ast.Name(id=name, ctx=ast.Load()))
    return v if isinstance(v, ast.Lambda) else None


def resolve_elem(func, expr):
    """`k[0]` where k is bound once to a tuple literal -> that element; otherwise the (locally resolved) expression"""
    expr = resolve_local(func, expr)
    if isinstance(expr, ast.Subscript) and isinstance(expr.slice, ast.Constant) and isinstance(expr.slice.value, int):
        base = resolve_local(func, expr.value)
        if isinstance(base, (ast.Tuple, ast.List)) and -len(base.elts) <= expr.slice.value < len(base.elts):
            return resolve_local(func, base.elts[expr.slice.value])
    return expr


def straightline_value(cfgnode, name, limit=400):
    """value of the unique binding of ``name`` that reaches a CFG node (backward search over all non-exceptional
    predecessors; the search stops at bindings of the name); None when there is none, more than one, or a path from
    the entry without a binding"""
    found = []
    seen = set()
    stack = [p for p, lab in cfgnode.pred if lab != "exc"]
    steps = 0
    while stack:
        n = stack.pop()
        if n.id in seen:
            continue
        seen.add(n.id)
        steps += 1
        if steps > limit:
            return None
        a = n.ast
        if n.kind == "stmt" and isinstance(a, ast.Assign) and len(a.targets) == 1 and isinstance(a.targets[0], ast.Name) \
                and a.targets[0].id == name:
            if not any(a is f for f in found):
                found.append(a)
            continue
        if n.kind in ("stmt", "fornext", "with") and a is not None and any(
                isinstance(x, ast.Name) and x.id == name and isinstance(x.ctx, ast.Store)
                for x in ast.walk(a.target if isinstance(a, ast.For) else a) if not isinstance(a, (ast.If, ast.While, ast.Try))):
            return None  # some other binding form
        preds = [p for p, lab in n.pred if lab != "exc"]
        if not preds:
            return None  # reached the entry: unbound (or a parameter) on that path
        stack.extend(preds)
    if len(found) == 1:
        return found[0].value
    return None


def expand_straightline(cfgnode, expr, depth=3):
    """names of ``expr`` replaced by the values bound to them on the straight-line code before the node (for reading
    what a message / argument is made of; analysis only)"""
    import copy
    if depth <= 0:
        return expr

    class R(ast.NodeTransformer):
        def visit_Name(self, node):
            if isinstance(node.ctx, ast.Load):
                v = straightline_value(cfgnode, node.id)
                if v is not None and not any(isinstance(x, ast.Call) for x in ast.walk(v)):
                    return expand_straightline(cfgnode, copy.deepcopy(v), depth - 1)
            return node
    return R().visit(copy.deepcopy(expr))


# ---------------------------------------------------------------------------
# format strings: text derived from runtime data must not be used as a %-/format template
# ---------------------------------------------------------------------------
def _bindings_reaching(cfgnode, name, limit=600):
    """(Assign / AugAssign statements) whose binding of ``name`` may reach the node, and whether the entry (parameter /
    global) may reach it as well"""
    found, seen, from_entry = [], set(), False
    stack = [p for p, lab in cfgnode.pred if lab != "exc"]
    steps = 0
    while stack:
        n = stack.pop()
        if n.id in seen:
            continue
        seen.add(n.id)
        steps += 1
        if steps > limit:
            return found, True
        a = n.ast
        if n.kind == "stmt" and isinstance(a, ast.Assign) and any(isinstance(t, ast.Name) and t.id == name for t in a.targets):
            found.append((a, n))
            continue
        if n.kind == "stmt" and isinstance(a, ast.AugAssign) and isinstance(a.target, ast.Name) and a.target.id == name:
            found.append((a, n))
            continue
        preds = [p for p, lab in n.pred if lab != "exc"]
        if not preds:
            from_entry = True
        stack.extend(preds)
    return found, from_entry


def classify_template(program, func, cfg, expr, at, depth=0):
    """'const' (a compile-time constant string), 'tainted' (a string that contains text computed at run time) or
    'unknown' for an expression used as a format template"""
    if depth > 8:
        return "unknown"

    def join(a, b):
        if "tainted" in (a, b):
            return "tainted"
        if a == b:
            return a
        return "unknown"
    e = expr
    if isinstance(e, ast.Constant):
        return "const" if isinstance(e.value, str) else "unknown"
    if isinstance(e, ast.JoinedStr):
        return "tainted" if any(isinstance(v, ast.FormattedValue) for v in e.values) else "const"
    if isinstance(e, ast.IfExp):
        return join(classify_template(program, func, cfg, e.body, at, depth + 1), classify_template(program, func, cfg, e.orelse, at, depth + 1))
    if isinstance(e, ast.BinOp) and isinstance(e.op, ast.Mod):
        l = classify_template(program, func, cfg, e.left, at, depth + 1)
        if l == "unknown":
            return "unknown"
        operands = e.right.elts if isinstance(e.right, ast.Tuple) else [e.right]
        if l == "tainted" or any(not isinstance(o, ast.Constant) for o in operands):
            return "tainted"
        return "const"
    if isinstance(e, ast.BinOp) and isinstance(e.op, ast.Add):
        l = classify_template(program, func, cfg, e.left, at, depth + 1)
        r = classify_template(program, func, cfg, e.right, at, depth + 1)
        if "tainted" in (l, r):
            return "tainted"
        if l == "const" and r == "const":
            return "const"
        if "const" in (l, r):
            return "tainted"  # a literal joined with something that is not a literal
        return "unknown"
    if isinstance(e, ast.BinOp) and isinstance(e.op, ast.Mult):
        return classify_template(program, func, cfg, e.left, at, depth + 1)
    if isinstance(e, ast.Call):
        f = e.func
        if isinstance(f, ast.Attribute) and f.attr in ("format", "join", "format_map"):
            return "tainted"
        if isinstance(f, ast.Name) and f.id in ("str", "repr", "ascii"):
            return "tainted"
        return "unknown"
    if isinstance(e, ast.Name):
        binds, from_entry = _bindings_reaching(at, e.id)
        if not binds:
            r = program.resolve_name(func.module, e.id) if e.id not in func.params else None
            if r is not None and r[0] == "const":
                return classify_template(program, func, cfg, r[1], at, depth + 1)
            return "unknown"
        out = None
        for a, n in binds:
            if isinstance(a, ast.AugAssign):
                if not isinstance(a.op, ast.Add):
                    v = "unknown"
                else:
                    prev = classify_template(program, func, cfg, ast.Name(id=e.id, ctx=ast.Load()), n, depth + 1)
                    add = classify_template(program, func, cfg, a.value, n, depth + 1)
                    if "tainted" in (prev, add):
                        v = "tainted"
                    elif prev == "const" and add == "const":
                        v = "const"
                    elif add in ("const",) or prev in ("const",):
                        v = "tainted"
                    else:
                        # unknown += <something>: a string literal inside the addend makes it text by construction
                        v = "tainted" if any(isinstance(c, ast.Constant) and isinstance(c.value, str) for c in ast.walk(a.value)) else "unknown"
            else:
                v = classify_template(program, func, cfg, a.value, n, depth + 1) if len(a.targets) == 1 else "unknown"
            out = v if out is None else join(out, v)
        if from_entry:
            out = join(out, "unknown") if out != "tainted" else out
        return out
    return "unknown"


def rule_format_templates(ctx, typer, funcs, rule):
    """every `%`-formatting / str.format template is a constant: text that contains run-time data (a name, a pattern, an
    attribute value, an already formatted message) is never used as a template, where a '%' or '{' inside it would be
    interpreted (wrong output, or TypeError/ValueError instead of the specified behaviour)"""
    n = 0
    for f in funcs:
        if f.is_lambda:
            continue
        cfg = typer.cfg_of(f)
        for node in walk_own(f.node):
            tmpl = None
            if isinstance(node, ast.BinOp) and isinstance(node.op, ast.Mod):
                tmpl = node.left
            elif isinstance(node, ast.Call) and isinstance(node.func, ast.Attribute) and node.func.attr in ("format", "format_map"):
                tmpl = node.func.value
            if tmpl is None:
                continue
            holders = cfg_nodes_containing(cfg, node)
            if not holders:
                continue
            kinds = {classify_template(ctx.p, f, cfg, tmpl, h) for h in holders}
            if "tainted" in kinds:
                n += 1
                ctx.viol(rule, f, node, "the format template `%s` is built from run-time text (not a constant): a '%%' or '{' in a "
                         "name/pattern/value is interpreted as a directive - wrong text, or TypeError/ValueError instead of the "
                         "specified result" % norm(tmpl)[:80])
            elif "const" in kinds:
                n += 1
                ctx.inst(rule, f, node, "constant format template")
    return n


def reaching_def_nodes(cfgnode, name, limit=600):
    """assignment CFG nodes (`name = ...`) whose binding reaches the node; None if another binding form or the entry
    (unbound / parameter) can reach it as well"""
    found, seen = [], set()
    stack = [p for p, lab in cfgnode.pred if lab != "exc"]
    steps = 0
    while stack:
        n = stack.pop()
        if n.id in seen:
            continue
        seen.add(n.id)
        steps += 1
        if steps > limit:
            return None
        a = n.ast
        if n.kind == "stmt" and isinstance(a, ast.Assign) and len(a.targets) == 1 and isinstance(a.targets[0], ast.Name) \
                and a.targets[0].id == name:
            found.append(n)
            continue
        if n.kind in ("stmt", "fornext", "with") and a is not None and not isinstance(a, (ast.If, ast.While, ast.Try)):
            tgt = a.target if isinstance(a, ast.For) else a
            if any(isinstance(x, ast.Name) and x.id == name and isinstance(x.ctx, ast.Store) for x in ast.walk(tgt)):
                return None
        preds = [p for p, lab in n.pred if lab != "exc"]
        if not preds:
            # the entry of an exception handler is reached through exception edges only
            preds = [p for p, lab in n.pred]
        if not preds:
            return None
        stack.extend(preds)
    return found


def rule_mixed_membership(ctx, typer, funcs, rule):
    """`x in c` where c is a sequence of names at some call sites and a plain string at others (typically `("name")`
    written for `("name",)`): there the test silently becomes a substring test"""
    n = 0
    for f in funcs:
        if f.is_lambda:
            continue
        ft = typer.results.get(f) or typer.analyze(f)
        for node in ast.walk(f.node):
            if not (isinstance(node, ast.Compare) and len(node.ops) == 1 and isinstance(node.ops[0], (ast.In, ast.NotIn))):
                continue
            c = node.comparators[0]
            t = ft.type_of(c) if ft is not None else None
            if (t is None or not t) and isinstance(c, ast.Name) and c.id in f.params:
                t = typer.param_override.get((f.where, c.id))
                stores = [x for x in ast.walk(f.node) if isinstance(x, ast.Name) and x.id == c.id and isinstance(x.ctx, ast.Store)]
                if stores:
                    t = None
            if t is None or "top" in t:
                continue
            n += 1
            has_seq = any(isinstance(a, tuple) and a[0] in ("seq", "tup", "set") for a in t)
            if "str" in t and has_seq:
                ctx.viol(rule, f, node, "`%s`: the container is a sequence at some call sites and a plain string at others (a one-element "
                         "tuple written without its comma?) - there the test is a substring test, so unrelated names match" % norm(node))
            else:
                ctx.inst(rule, f, node, "membership in a container of one kind")
    return n


def rule_word_membership(ctx, typer, funcs, rule):
    """`name in <a word>`: membership of an attribute/key name in a plain string that looks like a name itself
    (`("children")` written for `("children",)`) is a substring test - every name that is a part of the word matches"""
    import re
    n = 0
    for f in funcs:
        if f.is_lambda:
            continue
        for node in ast.walk(f.node):
            if not (isinstance(node, ast.Compare) and len(node.ops) == 1 and isinstance(node.ops[0], (ast.In, ast.NotIn))):
                continue
            c = node.comparators[0]
            val = None
            if isinstance(c, ast.Constant):
                val = c
            elif isinstance(c, ast.Name):
                v = resolve_local(f, c)
                if isinstance(v, ast.Constant):
                    val = v
                elif v is c:
                    r = ctx.p.resolve_name(f.module, c.id)
                    if r is not None and r[0] == "const" and isinstance(r[1], ast.Constant):
                        val = r[1]
            elif isinstance(c, ast.Attribute) and isinstance(c.value, ast.Name) and f.cls is not None and c.value.id in (f.selfname, f.cls.name, "cls"):
                from ..model import mangle
                v = f.cls.assigns.get(mangle(f.cls.name, c.attr)) or f.cls.assigns.get(c.attr)
                if isinstance(v, ast.Constant):
                    val = v
            if val is None or not isinstance(val.value, str):
                continue
            n += 1
            if len(val.value) >= 3 and re.match(r"^[A-Za-z_][A-Za-z0-9_]*$", val.value) and not isinstance(node.left, ast.Constant):
                ctx.viol(rule, f, node, "`%s` tests membership in the plain string %r (a one-element tuple written without its comma?): "
                         "a substring test - every name that is a part of that word matches" % (norm(node), val.value))
            else:
                ctx.inst(rule, f, node, "membership in a character set")
    return n


# ---------------------------------------------------------------------- identity-only lint in a property's own files
_MIX = ("anytree/node/nodemixin.py", "anytree/node/lightnodemixin.py")
_ITER = tuple("anytree/iterators/%s.py" % n for n in ("abstractiter", "levelordergroupiter", "levelorderiter", "postorderiter",
                                                       "preorderiter", "zigzaggroupiter"))
IDENTITY_SCOPE = {
    # property: (files, which functions of them: "structural" / "navigation" / None = all)
    "C01": (_MIX + ("anytree/node/util.py",), "structural"),
    "C02": (_MIX + ("anytree/node/util.py",), "structural"),
    "C16": (_MIX + ("anytree/node/util.py",), "structural"),
    "C03": (_MIX + ("anytree/node/util.py",), "structural"),
    "C04": (_MIX + ("anytree/util/__init__.py",), "navigation"),
    "C05": (_ITER, None),
    "C06": (_ITER, None),
    "C07": (("anytree/resolver.py",), None),
    "C09": (("anytree/render.py",), None),
    "C10": (("anytree/exporter/dictexporter.py", "anytree/importer/dictimporter.py"), None),
    "C11": (("anytree/exporter/jsonexporter.py", "anytree/importer/jsonimporter.py", "anytree/exporter/dictexporter.py",
             "anytree/importer/dictimporter.py"), None),
    "C14": (("anytree/search.py", "anytree/cachedsearch.py"), None),
    "C15": (("anytree/walker.py",), None),
    "C19": (_MIX + ("anytree/node/symlinknodemixin.py", "anytree/node/symlinknode.py", "anytree/node/node.py", "anytree/node/anynode.py"), "pickle"),
    "C20": (("anytree/node/symlinknodemixin.py", "anytree/node/symlinknode.py"), None),
}


ID_SENTENCE = (" ID the identity-only lint of C17 (no ==, in/index/remove, truth value, hashing or container protocol on an "
               "expression typed as a tree node) over the functions this property rests on.")


def explanation_of(mod, prop):
    return mod.EXPLANATION + (ID_SENTENCE if prop in IDENTITY_SCOPE else "")


def _structural_members(p):
    """(class, name, kind) of the functions of the two mixins that the structural entry points (parent setter, children
    setter/deleter) can reach through calls / property reads on private members of the class"""
    from .. import tables as T
    from ..model import Func, Prop, mangle
    out = set()
    for m in T.MIXINS:
        cls = p.classes.get(m)
        if cls is None:
            continue
        work = []
        for name in ("parent", "children"):
            mem = cls.members.get(name)
            if isinstance(mem, Prop):
                for k in ("setter", "deleter"):
                    f = getattr(mem, k)
                    if f is not None:
                        work.append(f)
        seen = set()
        while work:
            f = work.pop()
            if f in seen:
                continue
            seen.add(f)
            out.add((m, f.srcname, f.kind))
            for n in walk_own(f.node):
                if isinstance(n, ast.Attribute) and n.attr.startswith("__") and not n.attr.endswith("__"):
                    mem = cls.members.get(mangle(m, n.attr))
                    if isinstance(mem, Func):
                        work.append(mem)
                    elif isinstance(mem, Prop):
                        for k in ("getter", "setter", "deleter"):
                            g = getattr(mem, k)
                            if g is not None:
                                work.append(g)
                elif isinstance(n, ast.Attribute) and isinstance(n.ctx, ast.Load) and not n.attr.startswith("_"):
                    # public members of the mixin used by the structural code (node.is_descendant_of(self), node.iter_path_reverse(), ...)
                    mem = cls.members.get(n.attr)
                    if isinstance(mem, Func):
                        work.append(mem)
                    elif isinstance(mem, Prop) and mem.getter is not None:
                        work.append(mem.getter)
    return out


def rule_identity_scope(ctx):
    """rule ID: the identity-only lint of C17 (T1-T5: no ==, in/index/remove, truth value, hashing or container protocol
    on an expression typed as a tree node) over the functions this property is anchored in - each of the properties is
    stated for every node class, including those that define __eq__/__bool__/__hash__/__len__, so a node compared by
    value inside its own machinery breaks it for such classes"""
    scope = IDENTITY_SCOPE.get(ctx.prop)
    if scope is None:
        return
    from ..lint_identity import lint_program
    from .. import tables as T
    files, which = scope
    typer = typer_for(ctx)
    struct_names = _structural_members(ctx.p) if which == "structural" else None
    hits, stats = lint_program(ctx.p, typer, files=set(files))
    ctx.instances["ID"] = stats["typed_node"] + stats["typed_node_seq"]
    for h in hits:
        f = h.func
        top = f
        while getattr(top, "outer", None) is not None:
            top = top.outer
        if which == "pickle":
            if top.srcname not in ("__reduce_ex__", "__reduce__", "__getstate__", "__setstate__", "__deepcopy__", "__copy__"):
                continue
        elif which is not None and top.cls is not None and top.cls.name in T.MIXINS:
            nav = top.srcname in T.READONLY_MEMBERS and top.kind not in ("setter", "deleter")
            structural = (top.cls.name, top.srcname, top.kind) in struct_names if struct_names is not None else False
            if which == "navigation" and not nav:
                continue
            if which == "structural" and not structural:
                continue
        elif which == "navigation" and top.module.relpath in _MIX:
            continue
        ctx.viol("ID", f, h.node, "identity-only rule %s in the code this property rests on: %s" % (h.rule, h.why))
