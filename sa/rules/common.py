"""Helpers shared by the per-property rule modules."""

import ast
import os

from ..model import AnalysisError, Program, norm
from ..nodetype import Typer

FIXTURES = os.path.join(os.path.dirname(os.path.dirname(os.path.abspath(__file__))), "fixtures")

_typer_cache = {}


def typer_for(ctx, assume=None):
    key = (id(ctx.p), tuple(sorted((assume or {}).items())))
    if key not in _typer_cache:
        _typer_cache[key] = Typer(ctx.p, assume=assume).run()
    return _typer_cache[key]


def fixture_program(name):
    path = os.path.join(FIXTURES, name)
    if not os.path.isdir(path):
        raise AnalysisError("fixture %s missing" % name)
    return Program(path)


def resolution_stats(typer):
    import collections
    kinds = collections.Counter()
    unknown = []
    for f, ft in typer.results.items():
        for r in ft.calls.values():
            kinds[r.kind] += 1
            if r.kind == "unknown":
                unknown.append("%s: %s" % (f.where, r.name))
    return {"call_sites_by_resolution": dict(sorted(kinds.items())), "unknown_callees": sorted(unknown)}


def is_none(e):
    return isinstance(e, ast.Constant) and e.value is None


def none_test(cond):
    """(name-or-expr text, polarity) if cond is `X is None` (True) / `X is not None` (False)."""
    if isinstance(cond, ast.Compare) and len(cond.ops) == 1 and isinstance(cond.ops[0], (ast.Is, ast.IsNot)):
        l, r = cond.left, cond.comparators[0]
        if is_none(r):
            return norm(l), isinstance(cond.ops[0], ast.Is)
        if is_none(l):
            return norm(r), isinstance(cond.ops[0], ast.Is)
    return None


def identity_test(cond):
    """(text a, text b, is_same) for `a is b` / `a is not b` (either orientation)."""
    if isinstance(cond, ast.Compare) and len(cond.ops) == 1 and isinstance(cond.ops[0], (ast.Is, ast.IsNot)):
        return norm(cond.left), norm(cond.comparators[0]), isinstance(cond.ops[0], ast.Is)
    return None


def walk_own(node):
    """ast.walk that does not descend into nested function/class definitions."""
    stack = [node]
    first = True
    while stack:
        n = stack.pop()
        if not first and isinstance(n, (ast.FunctionDef, ast.AsyncFunctionDef, ast.Lambda, ast.ClassDef)):
            continue
        first = False
        yield n
        stack.extend(ast.iter_child_nodes(n))


def names_in(node):
    return {n.id for n in ast.walk(node) if isinstance(n, ast.Name)}
