"""Helpers shared by the per-property rule modules."""

import ast
import os

from ..model import AnalysisError, Program, norm
from ..nodetype import Typer

FIXTURES = os.path.join(os.path.dirname(os.path.dirname(os.path.abspath(__file__))), "fixtures")

_typer_cache = {}


def typer_for(ctx, assume=None):
    key = (id(ctx.p), tuple(sorted((assume or {}).items())))
    if key not in _typer_cache:
        _typer_cache[key] = Typer(ctx.p, assume=assume).run_interprocedural()
    return _typer_cache[key]


def fixture_program(name):
    path = os.path.join(FIXTURES, name)
    if not os.path.isdir(path):
        raise AnalysisError("fixture %s missing" % name)
    return Program(path)


def resolution_stats(typer):
    import collections
    kinds = collections.Counter()
    unknown = []
    for f, ft in typer.results.items():
        for r in ft.calls.values():
            kinds[r.kind] += 1
            if r.kind == "unknown":
                unknown.append("%s: %s" % (f.where, r.name))
    return {"call_sites_by_resolution": dict(sorted(kinds.items())), "unknown_callees": sorted(unknown)}


def is_none(e):
    return isinstance(e, ast.Constant) and e.value is None


def none_test(cond):
    """(name-or-expr text, polarity) if cond is `X is None` (True) / `X is not None` (False)."""
    if isinstance(cond, ast.Compare) and len(cond.ops) == 1 and isinstance(cond.ops[0], (ast.Is, ast.IsNot)):
        l, r = cond.left, cond.comparators[0]
        if is_none(r):
            return norm(l), isinstance(cond.ops[0], ast.Is)
        if is_none(l):
            return norm(r), isinstance(cond.ops[0], ast.Is)
    return None


def identity_test(cond):
    """(text a, text b, is_same) for `a is b` / `a is not b` (either orientation)."""
    if isinstance(cond, ast.Compare) and len(cond.ops) == 1 and isinstance(cond.ops[0], (ast.Is, ast.IsNot)):
        return norm(cond.left), norm(cond.comparators[0]), isinstance(cond.ops[0], ast.Is)
    return None


def walk_own(node):
    """ast.walk that does not descend into nested function/class definitions."""
    stack = [node]
    first = True
    while stack:
        n = stack.pop()
        if not first and isinstance(n, (ast.FunctionDef, ast.AsyncFunctionDef, ast.Lambda, ast.ClassDef)):
            continue
        first = False
        yield n
        stack.extend(ast.iter_child_nodes(n))


def names_in(node):
    return {n.id for n in ast.walk(node) if isinstance(n, ast.Name)}


def call_binding(call, callee):
    """callee parameter name -> argument expression for one call site
    (positional and keyword; *args/**kwargs reported under '*' / '**')."""
    ps = list(callee.posparams)
    if callee.selfname is not None:
        ps = ps[1:]
    out = {}
    i = 0
    for a in call.args:
        if isinstance(a, ast.Starred):
            out["*"] = a.value
            continue
        if i < len(ps):
            out[ps[i]] = a
        else:
            out["#%d" % i] = a
        i += 1
    for k in call.keywords:
        if k.arg is None:
            out["**"] = k.value
        else:
            out[k.arg] = k.value
    return out


def check_forwarding(ctx, rule, caller, call, callee, expect, what=""):
    """expect: callee param -> Name id that must be passed unchanged, or a
    predicate(expr) -> bool.  Parameters not mentioned must be absent."""
    b = call_binding(call, callee)
    ok = True
    for prm, want in expect.items():
        got = b.get(prm)
        if callable(want):
            good = got is not None and (want(got) or want(resolve_local(caller, got)))
        elif want is None:
            good = got is None
        else:
            good = isinstance(got, ast.Name) and got.id == want
            if not good and got is not None:
                r = resolve_local(caller, got)
                good = isinstance(r, ast.Name) and r.id == want
        if good:
            ctx.inst(rule, caller, call, "%s ← %s%s" % (prm, norm(got) if got is not None else "(default)", what))
        else:
            ok = False
            ctx.viol(rule, caller, call, "argument for `%s` of %s is `%s`; the value %s must be passed on unchanged — the option is "
                     "dropped, swapped or altered on the way" % (prm, callee.qual, norm(got) if got is not None else "missing",
                                                                  want if isinstance(want, str) else "required"),
                     construct="%s → %s: %s=%s" % (caller.qual, callee.qual, prm, norm(got) if got is not None else "missing"))
    for prm in b:
        if prm not in expect and not prm.startswith(("*", "#")):
            ok = False
            ctx.viol(rule, caller, call, "unexpected argument `%s=%s` for %s" % (prm, norm(b[prm]), callee.qual),
                     construct="%s → %s: extra %s" % (caller.qual, callee.qual, prm))
    return ok


def find_calls(func, pred):
    return [n for n in walk_own(func.node) if isinstance(n, ast.Call) and pred(n)]


def cfg_nodes_containing(cfg, expr):
    out = []
    for cn in cfg.nodes:
        if cn.kind not in ("stmt", "return", "test", "raisestmt", "assert", "foriter"):
            continue
        root = cn.cond if cn.kind == "test" else (cn.ast.iter if cn.kind == "foriter" else cn.ast)
        for c in ast.walk(root):
            if c is expr:
                out.append(cn)
                break
    return out


def const_strings(program, func, expr, _depth=0):
    """The set of string constants an expression denotes, folding literal
    tuples/lists/sets, concatenation/union, tuple()/set()/frozenset() wrappers
    and names bound once to such a value (locally or at module level).
    None if it is not such a constant."""
    if _depth > 6 or expr is None:
        return None
    if isinstance(expr, ast.Constant) and isinstance(expr.value, str):
        return {expr.value}
    if isinstance(expr, (ast.Tuple, ast.List, ast.Set)):
        out = set()
        for e in expr.elts:
            if isinstance(e, ast.Starred):
                sub = const_strings(program, func, e.value, _depth + 1)
            else:
                sub = const_strings(program, func, e, _depth + 1) if not isinstance(e, ast.Constant) else ({e.value} if isinstance(e.value, str) else None)
            if sub is None:
                return None
            out |= sub
        return out
    if isinstance(expr, ast.BinOp) and isinstance(expr.op, (ast.Add, ast.BitOr)):
        a = const_strings(program, func, expr.left, _depth + 1)
        b = const_strings(program, func, expr.right, _depth + 1)
        return None if a is None or b is None else a | b
    if isinstance(expr, ast.Call) and isinstance(expr.func, ast.Name) and expr.func.id in ("tuple", "list", "set", "frozenset") and len(expr.args) == 1:
        return const_strings(program, func, expr.args[0], _depth + 1)
    if isinstance(expr, ast.Name):
        local = [n for n in walk_own(func.node) if isinstance(n, ast.Assign) and any(isinstance(t, ast.Name) and t.id == expr.id for t in n.targets)]
        if len(local) == 1:
            return const_strings(program, func, local[0].value, _depth + 1)
        if local:
            return None
        r = program.resolve_name(func.module, expr.id)
        if r is not None and r[0] == "const":
            modfunc = func
            return const_strings(program, _ModuleScope(func.module), r[1], _depth + 1)
        return None
    if isinstance(expr, ast.Attribute) and isinstance(expr.value, ast.Name):
        # Class.CONST or self.CONST (class-level constant)
        cls = program.classes.get(expr.value.id) or (func.cls if getattr(func, "selfname", None) == expr.value.id else None)
        if cls is not None:
            from ..model import mangle
            for c in cls.mro():
                v = c.assigns.get(mangle(c.name, expr.attr))
                if v is not None:
                    return const_strings(program, _ModuleScope(c.module), v, _depth + 1)
    return None


class _ModuleScope:
    """stand-in for a function when folding module-level constants"""
    def __init__(self, module):
        self.module = module
        self.node = ast.Module(body=[], type_ignores=[])
        self.cls = None
        self.selfname = None


def resolve_local(func, expr, depth=0):
    """follow a local name bound exactly once (by plain assignment) to its value"""
    while isinstance(expr, ast.Name) and depth < 6:
        asg = [n for n in walk_own(func.node) if isinstance(n, ast.Assign) and len(n.targets) == 1
               and isinstance(n.targets[0], ast.Name) and n.targets[0].id == expr.id]
        others = [n for n in walk_own(func.node) if isinstance(n, (ast.AugAssign, ast.For, ast.comprehension)) and any(
            isinstance(x, ast.Name) and x.id == expr.id and isinstance(x.ctx, ast.Store) for x in ast.walk(n.target))]
        if len(asg) != 1 or others or expr.id in func.params:
            return expr
        expr = asg[0].value
        depth += 1
    return expr


def local_def(func, name):
    """nested function / lambda bound to ``name`` inside func"""
    for n in walk_own(func.node):
        pass
    for n in ast.walk(func.node):
        if isinstance(n, ast.FunctionDef) and n.name == name and n is not func.node:
            return n
    v = resolve_local(func, ast.Name(id=name, ctx=ast.Load()))
    return v if isinstance(v, ast.Lambda) else None


def resolve_elem(func, expr):
    """`k[0]` where k is bound once to a tuple literal -> that element; otherwise the (locally resolved) expression"""
    expr = resolve_local(func, expr)
    if isinstance(expr, ast.Subscript) and isinstance(expr.slice, ast.Constant) and isinstance(expr.slice.value, int):
        base = resolve_local(func, expr.value)
        if isinstance(base, (ast.Tuple, ast.List)) and -len(base.elts) <= expr.slice.value < len(base.elts):
            return resolve_local(func, base.elts[expr.slice.value])
    return expr


def straightline_value(cfgnode, name, limit=400):
    """value of the unique binding of ``name`` that reaches a CFG node (backward search over all non-exceptional
    predecessors; the search stops at bindings of the name); None when there is none, more than one, or a path from
    the entry without a binding"""
    found = []
    seen = set()
    stack = [p for p, lab in cfgnode.pred if lab != "exc"]
    steps = 0
    while stack:
        n = stack.pop()
        if n.id in seen:
            continue
        seen.add(n.id)
        steps += 1
        if steps > limit:
            return None
        a = n.ast
        if n.kind == "stmt" and isinstance(a, ast.Assign) and len(a.targets) == 1 and isinstance(a.targets[0], ast.Name) \
                and a.targets[0].id == name:
            if not any(a is f for f in found):
                found.append(a)
            continue
        if n.kind in ("stmt", "fornext", "with") and a is not None and any(
                isinstance(x, ast.Name) and x.id == name and isinstance(x.ctx, ast.Store)
                for x in ast.walk(a.target if isinstance(a, ast.For) else a) if not isinstance(a, (ast.If, ast.While, ast.Try))):
            return None  # some other binding form
        preds = [p for p, lab in n.pred if lab != "exc"]
        if not preds:
            return None  # reached the entry: unbound (or a parameter) on that path
        stack.extend(preds)
    if len(found) == 1:
        return found[0].value
    return None


def expand_straightline(cfgnode, expr, depth=3):
    """names of ``expr`` replaced by the values bound to them on the straight-line code before the node (for reading
    what a message / argument is made of; analysis only)"""
    import copy
    if depth <= 0:
        return expr

    class R(ast.NodeTransformer):
        def visit_Name(self, node):
            if isinstance(node.ctx, ast.Load):
                v = straightline_value(cfgnode, node.id)
                if v is not None and not any(isinstance(x, ast.Call) for x in ast.walk(v)):
                    return expand_straightline(cfgnode, copy.deepcopy(v), depth - 1)
            return node
    return R().visit(copy.deepcopy(expr))
