"""C19 — pickling/deep-copying: the recursion guard of SymlinkNodeMixin.__getattr__ and plain link storage."""

import ast

from .. import tables as T
from ..linkrules import link_fields
from ..model import AnalysisError, Func, Prop, mangle, norm
from .c20 import local_table
from .common import typer_for, walk_own

PROP = "C19"
LEVEL = "other"
TECHNIQUE = "static analysis: CFG dominance of the guards over every evaluation of self.target; descriptor/slot scan of the link fields"
EXPLANATION = (
    "Decides one structural, necessary clause: P1 in SymlinkNodeMixin.__getattr__ every path that evaluates self.target is "
    "dominated by guards excluding name == '__setstate__' and name ∈ NodeMixin's link fields (derived from the mixin's "
    "writes), and the excluded paths end in AttributeError (raise, or super().__getattr__, which object lacks) — without "
    "this, unpickling or deep-copying any tree containing a symlink node recurses without bound on the not yet "
    "initialised instance. P2 the link fields are ordinary instance attributes/slots: no property, descriptor, "
    "__getattribute__, __getstate__/__reduce__/__deepcopy__ in the node classes intercepts them, and "
    "LightNodeMixin.__slots__ lists them and the dict-based node classes declare no __slots__, so default "
    "pickling/copying (and a __getstate__ copying self.__dict__) captures exactly the links; a __setstate__ is accepted only "
    "when it puts the dict part of the state into self.__dict__ with update() (setattr would go through properties and "
    "__setattr__); fields cached from the links (memo fields) count as link fields throughout. P3 no id() value is stored in "
    "state that outlives a call of a node class (only in containers created by that call): ids name the original "
    "objects after a copy. P4 no module-level mutable object is stored in a link field. Isomorphism, "
    "independence and protocol coverage of the copy are NOT decided (behaviour of pickle/copy's C code)."
    " Added in round 18: P1 refusing name == 'target' first cuts the __getattr__ re-entry for every name; P2 accepts a __setstate__ that stores each entry with object.__setattr__."
)
ASSUMPTIONS = ["pickle/copy probe __setstate__/__reduce_ex__/__deepcopy__ via getattr on an instance whose __dict__ is still empty",
               "object has no __getattr__, so super().__getattr__(name) raises AttributeError"]
PICKLE_HOOKS = ("__getstate__", "__setstate__", "__reduce__", "__reduce_ex__", "__deepcopy__", "__copy__", "__getnewargs__",
                "__getnewargs_ex__", "__getattribute__")


def _setstate_form(f):
    """True: the dict part of the state goes into self.__dict__ via update() and only a slot part is set attribute by
    attribute; an ast node: a setattr loop over the dict part; None: not followed"""
    ps = [x for x in f.posparams if x != f.selfname]
    if len(ps) != 1:
        return None
    state = ps[0]
    dict_names, slot_names = {state}, set()
    for n in walk_own(f.node):
        if isinstance(n, ast.Assign) and len(n.targets) == 1 and isinstance(n.targets[0], ast.Tuple) and len(n.targets[0].elts) == 2 \
                and all(isinstance(e, ast.Name) for e in n.targets[0].elts) and isinstance(n.value, ast.Name) and n.value.id == state:
            dict_names.add(n.targets[0].elts[0].id)
            slot_names.add(n.targets[0].elts[1].id)
    updates = [c for c in walk_own(f.node) if isinstance(c, ast.Call) and norm(c.func) == "%s.__dict__.update" % f.selfname
               and len(c.args) == 1 and isinstance(c.args[0], ast.Name) and c.args[0].id in dict_names]
    bad = None
    # `for items in (state, slotstate):` - a name that stands for both parts
    for lp in [n for n in walk_own(f.node) if isinstance(n, ast.For)]:
        if isinstance(lp.target, ast.Name) and isinstance(lp.iter, (ast.Tuple, ast.List)) and all(isinstance(e, ast.Name) for e in lp.iter.elts):
            if any(e.id in dict_names for e in lp.iter.elts):
                dict_names.add(lp.target.id)
            if any(e.id in slot_names for e in lp.iter.elts):
                slot_names.add(lp.target.id)
    raw_loops = 0
    for lp in [n for n in walk_own(f.node) if isinstance(n, ast.For)]:
        it = lp.iter
        src = it.func.value if isinstance(it, ast.Call) and isinstance(it.func, ast.Attribute) and it.func.attr == "items" else None
        sets = [c for c in ast.walk(lp) if isinstance(c, ast.Call) and isinstance(c.func, ast.Name) and c.func.id == "setattr"
                and c.args and norm(c.args[0]) == f.selfname]
        raw = [c for c in lp.body if isinstance(c, ast.Expr) and isinstance(c.value, ast.Call) and norm(c.value.func) == "object.__setattr__"
               and len(c.value.args) == 3 and norm(c.value.args[0]) == f.selfname]
        if raw and not sets and isinstance(src, ast.Name) and (src.id in dict_names or src.id in slot_names) and isinstance(lp.target, ast.Tuple) \
                and len(lp.target.elts) == 2 and [norm(a) for a in raw[0].value.args[1:]] == [norm(e) for e in lp.target.elts] and len(lp.body) == 1:
            raw_loops += 1  # every entry stored under its own key with object.__setattr__: no __setattr__ of the class on the way
            continue
        if not sets:
            continue
        if isinstance(lp.iter, (ast.Tuple, ast.List)) and all(isinstance(e, ast.Name) for e in lp.iter.elts):
            continue  # the outer `for items in (state, slotstate)`: judged at the inner loop
        if isinstance(src, ast.Name) and src.id in slot_names and src.id not in dict_names:
            continue
        if isinstance(src, ast.Name) and src.id in dict_names:
            bad = lp
            continue
        return None
    if bad is not None:
        return bad
    # anything else that writes state
    for n in walk_own(f.node):
        if isinstance(n, ast.Attribute) and isinstance(n.ctx, ast.Store) and not (isinstance(n.value, ast.Name) and n.value.id != f.selfname):
            return None
    return True if (updates or raw_loops) else None


def run(ctx):
    p = ctx.p
    typer = typer_for(ctx)
    links = {k for k, (m, _) in link_fields(p).items() if m == "NodeMixin"}
    from ..memo import memo_fields
    links = links | {k for k, mm in memo_fields(p).items() if mm.cls == "NodeMixin"}  # cached link data: private state as well
    ga = p.func("SymlinkNodeMixin", "__getattr__")
    ctx.touch(ga)
    namep = ga.posparams[1]
    cfg = typer.cfg_of(ga)
    tabs = local_table(ga, namep, p)
    # every CFG node that evaluates self.target
    users = []
    for cn in cfg.nodes:
        root = cn.cond if cn.kind == "test" else cn.ast
        if root is None or cn.kind in ("guard", "entry", "exit", "raise", "join"):
            continue
        if isinstance(root, (ast.If, ast.For, ast.While, ast.Try)):
            continue
        if any(isinstance(x, ast.Attribute) and x.attr == "target" and norm(x.value) == ga.selfname for x in ast.walk(root)):
            users.append(cn)
    if not users:
        raise AnalysisError("anchor: no use of self.target in SymlinkNodeMixin.__getattr__")
    for cn in users:
        excluded = set()
        for c, o, _ in cfg.guards_of(cn):
            for tab in tabs:
                tn, vals = tab
                if c is tn and o is (not tab.pos):
                    excluded |= vals
        # `name == "target"` refused first cuts the re-entry at its root: a missing target then ends in AttributeError for every
        # name, `__setstate__` included
        missing = (links | ({"__setstate__"} if "target" not in excluded else set())) - excluded
        if missing:
            ctx.viol("P1", ga, cn.ast if cn.kind != "test" else cn.cond, "self.target is evaluated on a path where name may be %s: on an "
                     "instance without target (unpickling, deepcopy) __getattr__ re-enters itself without bound" % sorted(missing),
                     construct="self.target reachable for name in %s" % sorted(missing))
        else:
            ctx.inst("P1", ga, cn.ast if cn.kind != "test" else cn.cond, "self.target evaluated only when name ∉ %s" % sorted(excluded))
    # excluded paths end in AttributeError
    for tab in tabs:
        tn, vals = tab
        ends = []
        for cn in cfg.nodes:
            if cn.kind in ("return", "raisestmt") and any(c is tn and o is tab.pos for c, o, _ in cfg.guards_of(cn)):
                ends.append(cn)
        good = bool(ends)
        for cn in ends:
            if cn.kind == "raisestmt":
                if "AttributeError" not in norm(cn.ast.exc):
                    good = False
            else:
                v = cn.ast.value
                if not (isinstance(v, ast.Call) and isinstance(v.func, ast.Attribute) and v.func.attr in ("__getattr__", "__getattribute__")
                        and "super" in norm(v.func.value)):
                    good = False
        if good:
            ctx.inst("P1", ga, tn, "names %s end in AttributeError" % sorted(vals))
        else:
            ctx.viol("P1", ga, tn, "lookup of %s does not end in AttributeError" % sorted(vals), construct="refused names %s: no AttributeError" % sorted(vals))
    # ---- P2 plain storage
    n = 0
    for m in T.MIXINS + ("SymlinkNodeMixin", "SymlinkNode", "Node", "AnyNode"):
        cls = p.cls(m)
        for name, mem in cls.members.items():
            n += 1
            if name == "__setstate__" and isinstance(mem, Func):
                verdict = _setstate_form(mem)
                if verdict is True:
                    ctx.inst("P2", mem, mem.node, "__setstate__ restores the dict part with self.__dict__.update() / object.__setattr__ per entry "
                             "(plain storage, no __setattr__ of the class on the way)")
                    continue
                if verdict is None:
                    ctx.extra.setdefault("undecided", []).append("P2: how %s.__setstate__ restores the state is not followed" % m)
                    continue
                ctx.viol("P2", mem, verdict, "%s.__setstate__ restores the instance-dict part of the state with setattr(): that goes through "
                         "class-level properties and __setattr__ (a key that coincides with a read-only navigation property cannot be "
                         "restored, SymlinkNode forwards it to the target), while the saved state is the raw __dict__" % m,
                         construct="%s.__setstate__: dict state restored through setattr" % m)
                continue
            if name == "__getstate__" and isinstance(mem, Func) and any(
                    isinstance(c_, (ast.DictComp, ast.ListComp, ast.GeneratorExp)) and any(g_.ifs for g_ in c_.generators)
                    and "__dict__" in norm(c_) for c_ in walk_own(mem.node)):
                ctx.viol("P2", mem, mem.node, "%s.__getstate__ hands pickle/copy a filtered selection of the instance dict: entries (the link "
                         "fields among them) are dropped from the saved state" % m, construct="%s.__getstate__ filters __dict__" % m)
                continue
            if name in ("__reduce_ex__", "__reduce__", "__getstate__", "__deepcopy__", "__copy__") and isinstance(mem, Func):
                # a hand-written pickle/copy protocol: whether it still captures exactly the links is not decided here
                ctx.extra.setdefault("undecided", []).append("P2: %s defines %s; what state it hands to pickle/copy is not followed" % (m, name))
                continue
            if name in PICKLE_HOOKS and not (m == "SymlinkNodeMixin" and name in ("__getattr__", "__setattr__")):
                f = mem if isinstance(mem, Func) else mem.getter
                ctx.viol("P2", f, f.node, "%s defines %s: default pickling/copying no longer sees exactly the link fields" % (m, name),
                         construct="%s.%s" % (m, name))
            for fld in link_fields(p):
                if name == fld and isinstance(mem, Prop):
                    ctx.viol("P2", mem.getter, mem.getter.node, "link field %s is a property, not plain storage" % fld, construct="%s is a property" % fld)
        for aname, val in cls.assigns.items():
            if aname in link_fields(p):
                ctx.viol("P2", None, val, "link field %s is a class-level attribute/descriptor" % aname, construct="%s.%s class attribute" % (m, aname),
                         file=cls.module.relpath, qual=m, line=val.lineno)
        ctx.inst("P2", "%s %s" % (cls.module.relpath, m), "members scanned: %d" % len(cls.members), "no pickle/copy hook, link fields are plain storage")
    # the dict-based node classes keep their links in the instance __dict__: a __slots__ declaration there moves the
    # links out of reach of the documented `__getstate__` idiom (a copy of self.__dict__) and of pickle protocols 0/1
    for m in ("NodeMixin", "SymlinkNodeMixin", "SymlinkNode", "Node", "AnyNode"):
        cls = p.cls(m)
        if "__slots__" in cls.assigns:
            val = cls.assigns["__slots__"]
            ctx.viol("P2", None, val, "%s declares __slots__: its link fields leave the instance __dict__, so a subclass __getstate__ "
                     "that copies self.__dict__ loses parent/children and pickle protocols 0/1 refuse the instance" % m,
                     construct="%s.__slots__" % m, file=cls.module.relpath, qual=m, line=val.lineno)
        else:
            ctx.inst("P2", "%s %s" % (cls.module.relpath, m), "no __slots__", "links live in the instance __dict__")
    # ---- P3 nothing derived from object identity is kept in a node's persistent state: an id() stored in (or used as
    # a key of) a container that outlives the call refers to the ORIGINAL objects after a copy
    from .common import resolve_local
    for m in T.MIXINS + ("SymlinkNodeMixin", "SymlinkNode", "Node", "AnyNode"):
        cls = p.cls(m)
        for f in cls.funcs():
            ft = typer.results.get(f) or typer.analyze(f)
            for node in walk_own(f.node):
                cont, vals = None, []
                if isinstance(node, ast.Subscript) and isinstance(node.ctx, (ast.Store, ast.Del)):
                    cont, vals = node.value, [node.slice]
                    if isinstance(node.ctx, ast.Store):
                        par = [a for a in walk_own(f.node) if isinstance(a, ast.Assign) and any(t is node for t in a.targets)]
                        vals += [a.value for a in par]
                elif isinstance(node, ast.Call) and isinstance(node.func, ast.Attribute) and node.func.attr in (
                        "append", "add", "insert", "setdefault", "extend", "update"):
                    cont, vals = node.func.value, list(node.args)
                elif isinstance(node, ast.Assign) and any(isinstance(t, ast.Attribute) for t in node.targets):
                    cont, vals = None, [node.value]
                    if not _has_id(ft, node.value):
                        continue
                    ctx.viol("P3", f, node, "an id() value is stored in an instance attribute: after pickling/deep-copying it names "
                             "the original object, not the copy")
                    continue
                if cont is None:
                    continue
                if not any(_has_id(ft, v) for v in vals):
                    continue
                base = resolve_local(f, cont) if isinstance(cont, ast.Name) else cont
                local = isinstance(base, (ast.Set, ast.Dict, ast.List)) or (
                    isinstance(base, ast.Call) and isinstance(base.func, ast.Name) and base.func.id in ("set", "dict", "list"))
                if local:
                    ctx.inst("P3", f, node, "id() value kept in a container local to the call")
                else:
                    ctx.viol("P3", f, node, "an id() value is stored in `%s`, which is not a container created by this call: if it "
                             "outlives the call (link field, instance attribute) a pickled/deep-copied tree carries the ids of the "
                             "original nodes and breaks on the first change" % norm(cont))
    # ---- P4 a node's state holds only objects of its own: no module- or class-level mutable object is stored in (or
    # compared by identity with) a link field - after a copy the field holds a COPY of that object, so `is` tests against
    # the shared original fail and the copies of several nodes share one list
    for m in T.MIXINS:
        cls = p.cls(m)
        for f in cls.funcs():
            for node in walk_own(f.node):
                shared = None
                if isinstance(node, ast.Assign) and any(isinstance(t, ast.Attribute) and mangle(m, t.attr) in link_fields(p) for t in node.targets):
                    for x in ast.walk(node.value):
                        if isinstance(x, ast.Name) and isinstance(x.ctx, ast.Load) and x.id not in f.params:
                            r = p.resolve_name(f.module, x.id)
                            if r is not None and r[0] == "const" and isinstance(r[1], (ast.List, ast.Dict, ast.Set, ast.Call, ast.Tuple)):
                                shared = x
                if shared is not None:
                    ctx.viol("P4", f, node, "the module-level object `%s` is stored in a link field: it becomes part of every such node's "
                             "state; a pickled/deep-copied tree gets its own copy, so identity tests against `%s` fail there and the "
                             "copied nodes share one list" % (shared.id, shared.id))
        ctx.inst("P4", "%s %s" % (cls.module.relpath, m), "link writes scanned", "no shared module-level object stored in a link field")
    lm = p.cls("LightNodeMixin")
    sl = lm.assigns.get("__slots__")
    try:
        slots = set(ast.literal_eval(sl)) if sl is not None else set()
    except Exception:
        slots = set()
    if {"__parent", "__children"} <= slots:
        ctx.inst("P2", "%s LightNodeMixin" % lm.module.relpath, "__slots__ = %s" % norm(sl), "slots cover both link fields")
    else:
        ctx.viol("P2", None, sl, "LightNodeMixin.__slots__ does not list both link fields", construct="LightNodeMixin.__slots__",
                 file=lm.module.relpath, qual="LightNodeMixin", line=getattr(sl, "lineno", lm.node.lineno))
    if ctx.extra.get("undecided") and not ctx.new_findings():
        raise AnalysisError("C19 " + "; ".join(ctx.extra["undecided"][:2]))
    ctx.floor("P1", 3)
    ctx.floor("P2", 12)
    ctx.floor("P3", 2)


def _has_id(ft, e):
    """the expression is (or directly contains) an id() value"""
    t = ft.type_of(e)
    if t is not None and "id" in t:
        return True
    if isinstance(e, (ast.Tuple, ast.List, ast.Set)):
        return any(_has_id(ft, x) for x in e.elts)
    if isinstance(e, ast.Dict):
        return any(k is not None and _has_id(ft, k) for k in e.keys) or any(_has_id(ft, v) for v in e.values)
    return False
