"""C05 — iterating does not modify the tree; ZigZag is built from LevelOrderGroup."""

import ast

from .. import tables as T
from ..linkrules import link_write_sites
from ..model import AnalysisError, Func, norm
from ..nodetype import has_node
from ..purity import Purity
from .common import find_calls, typer_for, walk_own

PROP = "C05"
LEVEL = "other"
TECHNIQUE = "static analysis: effect analysis of the iterator package over the resolved call graph; yield-sequence typestate for ZigZag"
EXPLANATION = (
    "Decides the clause 'iterating does not modify the tree' and the structural definition of ZigZag: I1 no function in "
    "anytree/iterators/ contains a link write, an attribute store on anything but the iterator object itself, a mutation of "
    "a non-fresh container, a hook, an opaque callee other than the user's filter_/stop, or a call reaching a structural "
    "entry point (transitive effect analysis); the only node attribute they load is `children`. I2 ZigZagGroupIter._iter "
    "obtains its groups only from a LevelOrderGroupIter over the start node and yields them in strict alternation "
    "unchanged / reversed, starting unchanged; the five iterator classes define only _iter (plus private helpers) on top of "
    "AbstractIter, which yields exactly what _iter yields. Not decided: visiting order and exactly-once (a queue/stack "
    "discipline on runtime shapes)."
)
ASSUMPTIONS = ["filter_/stop are user code and may do anything (their effects are the user's)", "children getter is pure (C04 N1)"]
ITERS = ("PreOrderIter", "PostOrderIter", "LevelOrderIter", "LevelOrderGroupIter", "ZigZagGroupIter")


def run(ctx):
    p = ctx.p
    typer = typer_for(ctx)
    pur = Purity(p, typer)
    funcs = [f for f in p.all_funcs if f.module.relpath.startswith("anytree/iterators/")]
    if len(funcs) < 12:
        raise AnalysisError("only %d functions found under anytree/iterators/" % len(funcs))
    write_funcs = {s[0] for s in link_write_sites(p)}
    for f in funcs:
        ctx.touch(f)
        bad = []
        for e in pur.effects(f):
            if e.kind == "lazyinit":
                continue
            if e.kind == "selfstore" and e.func.cls is not None and e.func.cls.name.endswith("Iter") and e.func.module.relpath.startswith("anytree/iterators/"):
                continue
            if e.kind == "callback" and e.text.split()[-1] in ("filter_", "stop"):
                continue
            bad.append(e)
        if f in write_funcs:
            ctx.viol("I1", f, f.node, "iterator function writes a link field", construct="%s writes a link" % f.qual)
        if not bad:
            ctx.inst("I1", f, f.qual, "no effect on the tree (transitively)")
        for e in bad:
            via = " (through %s)" % e.via[1].qual if e.via else ""
            ctx.viol("I1", f, e.node, "iterating has an effect: %s in %s%s — iteration must not modify the tree or any shared state" % (
                e.text, e.func.qual, via), construct="%s: %s in %s" % (f.qual, e.text, e.func.qual))
        ft = typer.results.get(f)
        if ft is not None:
            for n in walk_own(f.node):
                if isinstance(n, ast.Attribute) and isinstance(n.ctx, ast.Load) and has_node(ft.type_of(n.value)):
                    if n.attr == "children":
                        ctx.inst("I1", f, n, "node API used: children")
                    else:
                        ctx.viol("I1", f, n, "iterator reads node attribute `%s`; the traversal is defined over `children` only" % n.attr)
    # class structure
    base = p.cls("AbstractIter")
    for name in ITERS:
        cls = p.cls(name)
        if [b.name for b in cls.bases] != ["AbstractIter"]:
            ctx.viol("I2", None, cls.node, "%s is not a direct AbstractIter subclass" % name, construct="class %s bases" % name,
                     file=cls.module.relpath, qual=name, line=cls.node.lineno)
        public = [m for m in cls.members if not m.startswith("_%s__" % name) and m not in ("_iter", "_get_grandchildren")]
        if public or "_iter" not in cls.members:
            ctx.viol("I2", None, cls.node, "%s overrides %s / lacks _iter: it no longer is the shared start-up plus its own strategy" % (name, public),
                     construct="class %s members %s" % (name, sorted(cls.members)), file=cls.module.relpath, qual=name, line=cls.node.lineno)
        else:
            ctx.inst("I2", "%s %s" % (cls.module.relpath, name), "members %s" % sorted(cls.members), "strategy only")
    nxt = p.func("AbstractIter", "__next__")
    rets = [r for r in walk_own(nxt.node) if isinstance(r, ast.Return)]
    if len(rets) == 1 and norm(rets[0].value) == "next(self.__iter)":
        ctx.inst("I2", nxt, rets[0], "each item of the strategy generator is passed on unchanged")
    else:
        ctx.viol("I2", nxt, nxt.node, "__next__ does not return next(self.__iter) unchanged", construct="AbstractIter.__next__ return")
    it = p.func("AbstractIter", "__iter__")
    rets = [r for r in walk_own(it.node) if isinstance(r, ast.Return)]
    if not (len(rets) == 1 and norm(rets[0].value) == it.selfname):
        ctx.viol("I2", it, it.node, "__iter__ does not return self", construct="AbstractIter.__iter__ return")
    # the strategy generator is created once (lazily) from __init
    stores = [n for n in walk_own(nxt.node) if isinstance(n, ast.Assign) and norm(n.targets[0]) == "self.__iter"]
    cfg = typer.cfg_of(nxt)
    ok = False
    for s_ in stores:
        if norm(s_.value) == "self.__init()":
            for cn in cfg.nodes_of(s_):
                gs = cfg.guards_of(cn)
                from .common import none_test
                if any(none_test(c) == ("self.__iter", True) and o is True for c, o, _ in gs):
                    ok = True
    if ok and len(stores) == 1:
        ctx.inst("I2", nxt, stores[0], "strategy generator created once, on first use")
    else:
        ctx.viol("I2", nxt, nxt.node, "the strategy generator is not created exactly once (when self.__iter is None)", construct="AbstractIter.__next__ start-up")
    # ---------------------------------------------------------------- ZigZag
    zz = p.func("ZigZagGroupIter", "_iter")
    ctx.touch(zz)
    srcs = find_calls(zz, lambda c: norm(c.func).endswith("LevelOrderGroupIter"))
    others = [c for c in walk_own(zz.node) if isinstance(c, ast.Call) and isinstance(c.func, ast.Name) and c.func.id.endswith("Iter")
              and c not in srcs]
    if len(srcs) != 1 or others:
        ctx.viol("I2", zz, zz.node, "ZigZag groups do not come from exactly one LevelOrderGroupIter", construct="ZigZag: group source")
        return
    src = srcs[0]
    start = src.args[0] if src.args else None
    chp = zz.posparams[0]
    if start is not None and norm(start) == "%s[0]" % chp:
        ctx.inst("I2", zz, src, "LevelOrderGroupIter over the start node")
    else:
        ctx.viol("I2", zz, src, "the group iterator does not start at the start node (children[0])")
    itname = None
    for n in walk_own(zz.node):
        if isinstance(n, ast.Assign) and n.value is src and isinstance(n.targets[0], ast.Name):
            itname = n.targets[0].id
    ys = []
    loop = None
    for n in walk_own(zz.node):
        if isinstance(n, (ast.While, ast.For)):
            loop = n
    if isinstance(loop, ast.For) and _parity_idiom(zz, loop, src):
        ctx.inst("I2", zz, loop, "groups reversed on odd levels by a parity counter starting at an even constant")
        ctx.floor("I1", 16)
        ctx.floor("I2", 9)
        return
    if loop is None or itname is None:
        ctx.viol("I2", zz, zz.node, "alternation loop over the group iterator not found", construct="ZigZag: loop")
        return

    def classify(e):
        """U = group unchanged, R = group reversed, ? = anything else"""
        if isinstance(e, ast.Call) and norm(e.func) == "next" and [norm(a) for a in e.args] == [itname]:
            return "U"
        if isinstance(e, ast.Call) and norm(e.func) in ("tuple", "list") and len(e.args) == 1:
            inner = e.args[0]
            if isinstance(inner, ast.Call) and norm(inner.func) == "reversed" and len(inner.args) == 1 and classify(inner.args[0]) == "U":
                return "R"
            if classify(inner) == "U":
                return "U"
        if isinstance(e, ast.Subscript) and isinstance(e.slice, ast.Slice) and norm(e.slice) == "::-1" and classify(e.value) == "U":
            return "R"
        return "?"
    body_stmts = []
    for st in loop.body:
        if isinstance(st, ast.Try):
            body_stmts.extend(st.body)
        else:
            body_stmts.append(st)
    seq = []
    for st in body_stmts:
        for y in ast.walk(st):
            if isinstance(y, ast.Yield):
                seq.append(classify(y.value) if y.value is not None else "?")
    outside = [y for y in walk_own(zz.node) if isinstance(y, (ast.Yield, ast.YieldFrom)) and not any(y is x for x in ast.walk(loop))]
    pattern = "".join(seq)
    if isinstance(loop, ast.For) and _parity_idiom(zz, loop, src, classify_with=None):
        ctx.inst("I2", zz, loop, "groups reversed on odd levels by a parity counter starting at an even constant")
        ctx.floor("I1", 16)
        ctx.floor("I2", 9)
        return
    if pattern and len(pattern) % 2 == 0 and pattern == "UR" * (len(pattern) // 2) and not outside and isinstance(loop, ast.While):
        ctx.inst("I2", zz, loop, "groups yielded in strict alternation %s starting unchanged" % pattern)
    else:
        ctx.viol("I2", zz, loop, "ZigZag does not yield the level groups in strict alternation unchanged/reversed starting with unchanged "
                 "(yield pattern %r%s)" % (pattern, ", plus yields outside the loop" if outside else ""), construct="ZigZag: yield pattern %s" % pattern)
    # the loop ends only when the group iterator is exhausted
    hs = [h for n in ast.walk(loop) if isinstance(n, ast.Try) for h in n.handlers]
    if any("StopIteration" in norm(h.type) for h in hs if h.type is not None):
        ctx.inst("I2", zz, loop, "loop ends on StopIteration of the group iterator")
    ctx.floor("I1", 16)
    ctx.floor("I2", 9)


def _parity_idiom(zz, loop, src, classify_with=None):
    """for [i,] group in [enumerate(]<source>[)]: yield reversed(group) if c % 2 else group, c from an even constant, +1 per iteration"""
    it = loop.iter
    counter = None
    gname = None
    enum = False
    if isinstance(it, ast.Call) and norm(it.func) == "enumerate" and it.args and (it.args[0] is src or _assigned_from(zz, it.args[0], src)):
        if len(it.args) > 1 or it.keywords:
            st = it.args[1] if len(it.args) > 1 else it.keywords[0].value
            if not (isinstance(st, ast.Constant) and isinstance(st.value, int) and st.value % 2 == 0):
                return False
        if isinstance(loop.target, ast.Tuple) and len(loop.target.elts) == 2 and all(isinstance(e, ast.Name) for e in loop.target.elts):
            counter, gname, enum = loop.target.elts[0].id, loop.target.elts[1].id, True
    elif (it is src or _assigned_from(zz, it, src)) and isinstance(loop.target, ast.Name):
        gname = loop.target.id
    if gname is None:
        return False
    ys = [y for st in loop.body for y in ast.walk(st) if isinstance(y, ast.Yield)]
    if len(ys) != 1 or not isinstance(ys[0].value, ast.IfExp):
        return False
    v = ys[0].value
    t = v.test
    odd_when_true = None
    if isinstance(t, ast.BinOp) and isinstance(t.op, (ast.Mod, ast.BitAnd)) and isinstance(t.left, ast.Name) and isinstance(t.right, ast.Constant) \
            and t.right.value == (2 if isinstance(t.op, ast.Mod) else 1):
        counter_used, odd_when_true = t.left.id, True
    elif isinstance(t, ast.Compare) and len(t.ops) == 1 and isinstance(t.left, ast.BinOp) and isinstance(t.left.op, ast.Mod) \
            and isinstance(t.left.left, ast.Name) and isinstance(t.left.right, ast.Constant) and t.left.right.value == 2 \
            and isinstance(t.comparators[0], ast.Constant) and t.comparators[0].value in (0, 1) and isinstance(t.ops[0], (ast.Eq, ast.NotEq)):
        counter_used = t.left.left.id
        odd_when_true = (t.comparators[0].value == 1) == isinstance(t.ops[0], ast.Eq)
    else:
        return False

    def is_rev(e):
        return (isinstance(e, ast.Call) and norm(e.func) in ("tuple", "list") and len(e.args) == 1 and isinstance(e.args[0], ast.Call)
                and norm(e.args[0].func) == "reversed" and norm(e.args[0].args[0]) == gname) or norm(e) == "%s[::-1]" % gname

    def is_plain(e):
        return norm(e) == gname or (isinstance(e, ast.Call) and norm(e.func) in ("tuple", "list") and len(e.args) == 1 and norm(e.args[0]) == gname)
    rev, plain = (v.body, v.orelse) if odd_when_true else (v.orelse, v.body)
    if not (is_rev(rev) and is_plain(plain)):
        return False
    if enum:
        return counter_used == counter
    # explicit counter: even constant before the loop, += 1 exactly once per iteration, no other assignment
    inits = [n for n in walk_own(zz.node) if isinstance(n, ast.Assign) and any(isinstance(x, ast.Name) and x.id == counter_used for x in n.targets)]
    incs = [n for n in walk_own(zz.node) if isinstance(n, ast.AugAssign) and isinstance(n.target, ast.Name) and n.target.id == counter_used]
    if len(inits) != 1 or len(incs) != 1:
        return False
    if not (isinstance(inits[0].value, ast.Constant) and isinstance(inits[0].value.value, int) and not isinstance(inits[0].value.value, bool)
            and inits[0].value.value % 2 == 0):
        return False
    inc = incs[0]
    if not (isinstance(inc.op, ast.Add) and isinstance(inc.value, ast.Constant) and inc.value.value == 1 and inc in loop.body):
        return False
    return True


def _assigned_from(func, e, src):
    if not isinstance(e, ast.Name):
        return False
    return any(isinstance(n, ast.Assign) and n.value is src and any(isinstance(t, ast.Name) and t.id == e.id for t in n.targets)
               for n in walk_own(func.node))
