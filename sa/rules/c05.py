"""C05 — iterating does not modify the tree; ZigZag is built from LevelOrderGroup."""

import ast

from .. import tables as T
from ..linkrules import link_write_sites
from ..model import AnalysisError, Func, norm
from ..nodetype import has_node
from ..purity import Purity
from .common import find_calls, typer_for, walk_own

PROP = "C05"
LEVEL = "other"
TECHNIQUE = "static analysis: effect analysis of the iterator package over the resolved call graph; yield-sequence typestate for ZigZag"
EXPLANATION = (
    "Decides the clause 'iterating does not modify the tree' and the structural definition of ZigZag: I1 no function in "
    "anytree/iterators/ contains a link write, an attribute store on anything but the iterator object itself, a mutation of "
    "a non-fresh container, a hook, an opaque callee other than the user's filter_/stop, or a call reaching a structural "
    "entry point (transitive effect analysis); the only node attribute they load is `children`. I2 ZigZagGroupIter._iter "
    "obtains its groups only from a LevelOrderGroupIter over the start node and yields them in strict alternation "
    "unchanged / reversed, starting unchanged; the five iterator classes define only _iter (plus private helpers) on top of "
    "AbstractIter, which yields exactly what _iter yields. Not decided: visiting order and exactly-once (a queue/stack "
    "discipline on runtime shapes)."
)
ASSUMPTIONS = ["filter_/stop are user code and may do anything (their effects are the user's)", "children getter is pure (C04 N1)"]
ITERS = ("PreOrderIter", "PostOrderIter", "LevelOrderIter", "LevelOrderGroupIter", "ZigZagGroupIter")


def run(ctx):
    p = ctx.p
    typer = typer_for(ctx)
    pur = Purity(p, typer)
    # entry points of iteration: every member of the iterator classes (what they call is followed transitively by the
    # effect analysis); an unrelated helper that merely lives in these modules is not part of iterating
    base_ = p.cls("AbstractIter")
    funcs = [f for f in p.all_funcs if f.module.relpath.startswith("anytree/iterators/")
             and (f.cls is not None and (f.cls is base_ or f.cls.is_subclass_of(base_)) or (f.outer is not None and f.outer.cls is not None))]
    if len(funcs) < 12:
        raise AnalysisError("only %d functions found under anytree/iterators/" % len(funcs))
    write_funcs = {s[0] for s in link_write_sites(p)}
    for f in funcs:
        ctx.touch(f)
        bad = []
        for e in pur.effects(f):
            if e.kind == "lazyinit":
                continue
            if e.kind == "selfstore" and e.func.cls is not None and e.func.module.relpath.startswith("anytree/iterators/") \
                    and (e.func.cls.name.endswith("Iter") or "__next__" in e.func.cls.members):
                continue
            if e.kind == "callback" and e.text.split()[-1] in ("filter_", "stop"):
                continue
            bad.append(e)
        if f in write_funcs:
            ctx.viol("I1", f, f.node, "iterator function writes a link field", construct="%s writes a link" % f.qual)
        if not bad:
            ctx.inst("I1", f, f.qual, "no effect on the tree (transitively)")
        for e in bad:
            via = " (through %s)" % e.via[1].qual if e.via else ""
            ctx.viol("I1", f, e.node, "iterating has an effect: %s in %s%s — iteration must not modify the tree or any shared state" % (
                e.text, e.func.qual, via), construct="%s: %s in %s" % (f.qual, e.text, e.func.qual))
        ft = typer.results.get(f)
        if ft is not None:
            for n in walk_own(f.node):
                if isinstance(n, ast.Attribute) and isinstance(n.ctx, ast.Load) and has_node(ft.type_of(n.value)):
                    if n.attr == "children":
                        ctx.inst("I1", f, n, "node API used: children")
                    else:
                        ctx.viol("I1", f, n, "iterator reads node attribute `%s`; the traversal is defined over `children` only" % n.attr)
    # class structure
    base = p.cls("AbstractIter")
    for name in ITERS:
        cls = p.cls(name)
        if [b.name for b in cls.bases] != ["AbstractIter"]:
            ctx.viol("I2", None, cls.node, "%s is not a direct AbstractIter subclass" % name, construct="class %s bases" % name,
                     file=cls.module.relpath, qual=name, line=cls.node.lineno)
        public = [m for m in cls.members if not m.startswith("_%s__" % name) and m not in ("_iter", "_get_grandchildren")]
        if public or "_iter" not in cls.members:
            ctx.viol("I2", None, cls.node, "%s overrides %s / lacks _iter: it no longer is the shared start-up plus its own strategy" % (name, public),
                     construct="class %s members %s" % (name, sorted(cls.members)), file=cls.module.relpath, qual=name, line=cls.node.lineno)
        else:
            ctx.inst("I2", "%s %s" % (cls.module.relpath, name), "members %s" % sorted(cls.members), "strategy only")
    nxt = p.func("AbstractIter", "__next__")
    from .common import none_test, resolve_local
    cfg = typer.cfg_of(nxt)
    selfn = nxt.selfname
    field = "%s.__iter" % selfn
    # the field that holds the strategy generator: whatever attribute of self receives the result of self.__init()
    for n_ in walk_own(nxt.node):
        if isinstance(n_, ast.Assign) and isinstance(n_.value, ast.Call) and norm(n_.value.func) == "%s.__init" % selfn:
            for t_ in n_.targets:
                if isinstance(t_, ast.Attribute) and norm(t_.value) == selfn:
                    field = norm(t_)
    aliases = {field}
    for n_ in walk_own(nxt.node):
        if isinstance(n_, ast.Assign) and len(n_.targets) == 1 and isinstance(n_.targets[0], ast.Name) and norm(n_.value) == field:
            aliases.add(n_.targets[0].id)
    rets = [r for r in walk_own(nxt.node) if isinstance(r, ast.Return)]
    if len(rets) == 1 and isinstance(rets[0].value, ast.Call) and norm(rets[0].value.func) == "next" and len(rets[0].value.args) == 1 \
            and norm(rets[0].value.args[0]) in aliases:
        ctx.inst("I2", nxt, rets[0], "each item of the strategy generator is passed on unchanged")
    else:
        ctx.viol("I2", nxt, nxt.node, "__next__ does not return next(<the strategy generator>) unchanged", construct="AbstractIter.__next__ return")
    it = p.func("AbstractIter", "__iter__")
    irets = [r for r in walk_own(it.node) if isinstance(r, ast.Return)]
    if not (len(irets) == 1 and norm(irets[0].value) == it.selfname):
        # alternative: iter() hands out the stored strategy generator itself - the same one __next__ advances - created under
        # the same "only when the stored one is None, and stored back" discipline
        icfg = typer.cfg_of(it)
        ialiases = {field}
        for n_ in walk_own(it.node):
            if isinstance(n_, ast.Assign) and len(n_.targets) == 1 and isinstance(n_.targets[0], ast.Name) and norm(n_.value) == field:
                ialiases.add(n_.targets[0].id)
        icreates = [c for c in walk_own(it.node) if isinstance(c, ast.Call) and norm(c.func) == "%s.__init" % it.selfname]
        good = len(irets) == 1 and norm(irets[0].value) in ialiases and len(icreates) <= 1
        if good and icreates:
            hs_ = [cn for cn in icfg.nodes if cn.kind == "stmt" and any(x is icreates[0] for x in ast.walk(cn.ast))]
            good = bool(hs_) and all(any(none_test(c) is not None and none_test(c)[0] in ialiases and none_test(c)[1] is True and o is True
                                         for c, o, _ in icfg.guards_of(cn)) for cn in hs_)
            stored_ = any(isinstance(n_, ast.Assign) and any(norm(t) == field for t in n_.targets)
                          and (n_.value is icreates[0] or (isinstance(n_.value, ast.Name) and n_.value.id in ialiases))
                          for n_ in walk_own(it.node))
            good = good and stored_
        if good:
            ctx.inst("I2", it, irets[0], "__iter__ hands out the one stored strategy generator (created once, kept)")
        else:
            ctx.viol("I2", it, it.node, "__iter__ returns neither self nor the one stored strategy generator (created when the stored one is None "
                     "and stored back): iterating the object twice, or mixing iter() and next(), starts a second traversal",
                     construct="AbstractIter.__iter__ return")
    # the strategy generator is created once (when the stored one is None) from __init and stored back
    creates = [c for c in walk_own(nxt.node) if isinstance(c, ast.Call) and norm(c.func) == "%s.__init" % selfn]
    ok = len(creates) == 1
    if ok:
        holders = [cn for cn in cfg.nodes if cn.kind == "stmt" and any(x is creates[0] for x in ast.walk(cn.ast))]
        ok = bool(holders)
        for cn in holders:
            gs = cfg.guards_of(cn)
            if not any((none_test(c) is not None and none_test(c)[0] in aliases and none_test(c)[1] is True and o is True) for c, o, _ in gs):
                ok = False
        # stored back into the field: in the same statement or through the alias
        stored = False
        for n_ in walk_own(nxt.node):
            if isinstance(n_, ast.Assign) and any(norm(t) == field for t in n_.targets):
                v = n_.value
                if v is creates[0] or (isinstance(v, ast.Name) and v.id in aliases):
                    stored = True
        ok = ok and stored
    if ok:
        ctx.inst("I2", nxt, creates[0], "strategy generator created once, on first use, and kept")
    else:
        ctx.viol("I2", nxt, nxt.node, "the strategy generator is not created exactly once (when the stored one is None) and kept", construct="AbstractIter.__next__ start-up")
    # the shared start-up hands over to the strategy on every path (a short cut that answers itself yields a flat
    # sequence where the group iterators owe tuples, or skips the strategy's order)
    ini = p.func("AbstractIter", "__init")
    ctx.touch(ini)
    irets = [r for r in walk_own(ini.node) if isinstance(r, ast.Return)]
    def _empty_iter(e):
        """iter(()) / iter([]): nothing is admitted at all (that the condition for it is the right one is C06's subject) - no item,
        hence no order and no grouping to get wrong"""
        return isinstance(e, ast.Call) and norm(e.func) == "iter" and len(e.args) == 1 and isinstance(e.args[0], (ast.Tuple, ast.List)) \
            and not e.args[0].elts and not e.keywords
    bad = [r for r in irets if not (isinstance(resolve_local(ini, r.value), ast.Call)
                                    and norm(resolve_local(ini, r.value).func) == "%s._iter" % ini.selfname)
           and not _empty_iter(r.value)]
    if not irets or bad or all(_empty_iter(r.value) for r in irets):
        ctx.viol("I2", ini, bad[0] if bad else ini.node, "AbstractIter.__init returns `%s` instead of the strategy generator "
                 "self._iter(...): on that path the items are not produced by the iterator's own strategy (order, grouping)" % (
                     norm(bad[0].value) if bad and bad[0].value is not None else "nothing"), construct="AbstractIter.__init return")
    else:
        for r in irets:
            ctx.inst("I2", ini, r, "start-up returns the strategy generator")
    # ---------------------------------------------------------------- ZigZag
    zz = p.func("ZigZagGroupIter", "_iter")
    ctx.touch(zz)
    ok, why, where = zigzag_alternation(zz)
    if not ok and why.startswith("unrecognised"):
        raise AnalysisError("C05 I2 cannot follow how ZigZagGroupIter alternates: %s" % why)
    if ok:
        ctx.inst("I2", zz, where, why)
    else:
        ctx.viol("I2", zz, where if where is not None else zz.node, "ZigZag does not yield the level groups of a LevelOrderGroupIter over the "
                 "start node in strict alternation unchanged / reversed starting with unchanged: %s" % why, construct="ZigZag: %s" % why)
    ctx.floor("I1", 16)
    ctx.floor("I2", 7)


class _Unknown(Exception):
    """the abstract run cannot follow a construct (no verdict)"""


class _Dependent(Exception):
    """the unchanged/reversed decision depends on something that is not a constant-initialised position counter"""


def _const_eval(e, env):
    """evaluate a flag/counter expression over known constants (bools and small ints)"""
    if isinstance(e, ast.Constant) and isinstance(e.value, (bool, int)):
        return e.value
    if isinstance(e, ast.Name):
        if e.id in env:
            v = env[e.id]
            if isinstance(v, (bool, int)):
                return v
            raise _Dependent("`%s` (a level group, not a counter)" % e.id)
        raise _Dependent("`%s`, which is not initialised to a constant before the loop" % e.id)
    if isinstance(e, (ast.Attribute, ast.Subscript, ast.Call)):
        raise _Dependent("`%s` (a run-time value, not the position of the group)" % norm(e))
    if isinstance(e, ast.UnaryOp):
        v = _const_eval(e.operand, env)
        if isinstance(e.op, ast.Not):
            return not v
        if isinstance(e.op, ast.USub):
            return -v
        raise _Unknown("unary")
    if isinstance(e, ast.BinOp):
        l, r = _const_eval(e.left, env), _const_eval(e.right, env)
        ops = {ast.Add: lambda: l + r, ast.Sub: lambda: l - r, ast.Mod: lambda: l % r, ast.BitAnd: lambda: l & r,
               ast.BitXor: lambda: l ^ r, ast.Mult: lambda: l * r, ast.FloorDiv: lambda: l // r}
        for k, fn in ops.items():
            if isinstance(e.op, k):
                return fn()
        raise _Unknown("binop")
    if isinstance(e, ast.Compare) and len(e.ops) == 1 and isinstance(e.ops[0], (ast.Is, ast.IsNot)):
        # `<group> is None`: a drawn group is a tuple, never None (the exhaustion sentinel of next(it, None))
        for a, b in ((e.left, e.comparators[0]), (e.comparators[0], e.left)):
            if isinstance(b, ast.Constant) and b.value is None and isinstance(a, ast.Name) and a.id in env \
                    and not isinstance(env[a.id], (bool, int)):
                return isinstance(e.ops[0], ast.IsNot)
    if isinstance(e, ast.Compare) and len(e.ops) == 1:
        l, r = _const_eval(e.left, env), _const_eval(e.comparators[0], env)
        ops = {ast.Eq: l == r, ast.NotEq: l != r, ast.Lt: l < r, ast.Gt: l > r, ast.LtE: l <= r, ast.GtE: l >= r, ast.Is: l is r, ast.IsNot: l is not r}
        for k, v in ops.items():
            if isinstance(e.ops[0], k):
                return v
    if isinstance(e, ast.BoolOp):
        vals = [_const_eval(v, env) for v in e.values]
        return all(vals) if isinstance(e.op, ast.And) else any(vals)
    if isinstance(e, ast.IfExp):
        return _const_eval(e.body if _const_eval(e.test, env) else e.orelse, env)
    raise _Unknown(type(e).__name__)


def accepts_list_start(init_node):
    """AbstractIter.__init treats a value of exactly the builtin type list (or tuple) as a collection of start nodes"""
    for n in ast.walk(init_node):
        if isinstance(n, ast.Compare) and len(n.ops) == 1 and isinstance(n.left, ast.Call) and isinstance(n.left.func, ast.Name) \
                and n.left.func.id == "type" and isinstance(n.ops[0], (ast.In, ast.Is, ast.Eq)):
            names = {x.id for x in ast.walk(n.comparators[0]) if isinstance(x, ast.Name)}
            if "list" in names:
                return True
    return False


def _init_accepts_list_start(zz):
    base = zz.cls
    while base is not None and base.name != "AbstractIter":
        base = base.bases[0] if base.bases else None
    ini = base.lookup("_AbstractIter__init") if base is not None else None
    return ini is not None and accepts_list_start(ini.node)


def zigzag_alternation(zz):
    """Abstract run of ZigZag's loop over a two-valued (parity / boolean) state: the k-th group drawn from the
    LevelOrderGroupIter must be yielded unchanged for even k and reversed for odd k.  Returns (ok, text, node)."""
    from .common import resolve_local
    srcs = [c for c in walk_own(zz.node) if isinstance(c, ast.Call) and norm(c.func).endswith("LevelOrderGroupIter")]
    other_iters = [c for c in walk_own(zz.node) if isinstance(c, ast.Call) and isinstance(c.func, ast.Name) and c.func.id.endswith("Iter")
                   and c not in srcs]
    if not [y for y in walk_own(zz.node) if isinstance(y, (ast.Yield, ast.YieldFrom))]:
        return False, "unrecognised: ZigZagGroupIter._iter is not a generator function (the groups are produced elsewhere)", zz.node
    direct = [c for c in walk_own(zz.node) if isinstance(c, ast.Call) and norm(c.func) == "LevelOrderGroupIter._iter"]
    if len(direct) == 1 and not srcs and not other_iters:
        # the level-order group strategy itself, run on ZigZag's own start sequence and options
        src = direct[0]
        if src.keywords or [norm(a) for a in src.args] != list(zz.posparams[:4]):
            return False, "the level-order group strategy is not run on ZigZag's own (children, filter_, stop, maxlevel): `%s`" % norm(src), src
    else:
        if len(srcs) != 1 or other_iters:
            return False, "groups do not come from exactly one LevelOrderGroupIter", zz.node
        src = srcs[0]
        chp = zz.posparams[0]
        start = src.args[0] if src.args else next((k.value for k in src.keywords if k.arg == "node"), None)
        raw_start = start
        start = resolve_local(zz, start) if start is not None else None
        if isinstance(start, ast.IfExp) and isinstance(raw_start, ast.Name) and isinstance(start.test, ast.Name) and start.test.id == chp \
                and isinstance(start.orelse, ast.Constant) and start.orelse.value is None:
            # `start = children[0] if children else None` followed by `if start is None: return` ahead of everything else
            body = zz.node.body
            guards_ = [i for i, st_ in enumerate(body) if isinstance(st_, ast.If) and not st_.orelse and len(st_.body) == 1
                       and isinstance(st_.body[0], ast.Return) and st_.body[0].value is None
                       and norm(st_.test) == "%s is None" % raw_start.id]
            users = [i for i, st_ in enumerate(body) if any(x is src for x in ast.walk(st_))]
            if guards_ and users and guards_[0] < users[0]:
                start = start.body
        forest_ok = isinstance(start, ast.Name) and start.id == chp and _init_accepts_list_start(zz)
        if not forest_ok and (start is None or norm(start) != "%s[0]" % chp):
            return False, "the group iterator does not start at the start node (%s[0])" % chp, src
    itnames = {t.id for n in walk_own(zz.node) if isinstance(n, ast.Assign) and n.value is src for t in n.targets if isinstance(t, ast.Name)}
    loops = [n for n in walk_own(zz.node) if isinstance(n, (ast.While, ast.For))]
    if len(loops) != 1:
        return False, "unrecognised: expected exactly one loop over the groups", zz.node
    loop = loops[0]
    outside = [y for y in walk_own(zz.node) if isinstance(y, (ast.Yield, ast.YieldFrom)) and not any(y is x for x in ast.walk(loop))]
    if outside:
        return False, "groups are yielded outside the alternation loop", outside[0]
    env = {}
    # constant initialisations before the loop
    for n in walk_own(zz.node):
        if isinstance(n, ast.Assign) and len(n.targets) == 1 and isinstance(n.targets[0], ast.Name) and not any(n is x for x in ast.walk(loop)):
            try:
                env[n.targets[0].id] = _const_eval(n.value, env)
            except (_Unknown, _Dependent):
                pass
    group_var, counter_var, counter_start = None, None, 0

    def is_src(e):
        return e is src or (isinstance(e, ast.Name) and e.id in itnames)
    if isinstance(loop, ast.For):
        it = loop.iter
        if isinstance(it, ast.Call) and norm(it.func) == "enumerate" and it.args and is_src(it.args[0]):
            st = it.args[1] if len(it.args) > 1 else next((k.value for k in it.keywords if k.arg == "start"), None)
            try:
                counter_start = _const_eval(st, env) if st is not None else 0
            except _Unknown:
                return False, "enumerate start is not a constant", it
            if not (isinstance(loop.target, ast.Tuple) and len(loop.target.elts) == 2 and all(isinstance(e, ast.Name) for e in loop.target.elts)):
                return False, "unrecognised loop target", loop
            counter_var, group_var = loop.target.elts[0].id, loop.target.elts[1].id
        elif is_src(it) and isinstance(loop.target, ast.Name):
            group_var = loop.target.id
        else:
            return False, "the loop does not iterate the group iterator", loop
    elif not (isinstance(loop.test, ast.Constant) and loop.test.value is True):
        return False, "unrecognised while condition", loop
    seq = []
    drawn = [0]

    class Group:
        def __init__(self, k, rev=False):
            self.k, self.rev = k, rev

    def gval(e, genv):
        """value of an expression that denotes a group"""
        if isinstance(e, ast.Name) and isinstance(genv.get(e.id), Group):
            return genv[e.id]
        if isinstance(e, ast.Call) and norm(e.func) == "next" and e.args and is_src(e.args[0]) and (
                len(e.args) == 1 or (len(e.args) == 2 and isinstance(e.args[1], ast.Constant) and e.args[1].value is None)):
            g = Group(drawn[0])
            drawn[0] += 1
            return g
        if isinstance(e, ast.Call) and norm(e.func) in ("tuple", "list") and len(e.args) == 1:
            inner = e.args[0]
            if isinstance(inner, ast.Call) and norm(inner.func) == "reversed" and len(inner.args) == 1:
                g = gval(inner.args[0], genv)
                return Group(g.k, not g.rev)
            return gval(inner, genv)
        if isinstance(e, ast.Subscript) and isinstance(e.slice, ast.Slice) and norm(e.slice) == "::-1":
            g = gval(e.value, genv)
            return Group(g.k, not g.rev)
        if isinstance(e, ast.IfExp):
            return gval(e.body if _const_eval(e.test, genv) else e.orelse, genv)
        raise _Unknown("group expression %s" % norm(e))

    def run(stmts, genv):
        for st in stmts:
            if isinstance(st, ast.Try):
                run(st.body, genv)
                continue
            if isinstance(st, ast.Expr) and isinstance(st.value, ast.Yield):
                seq.append(gval(st.value.value, genv))
            elif isinstance(st, ast.Assign) and len(st.targets) == 1 and isinstance(st.targets[0], ast.Name):
                try:
                    genv[st.targets[0].id] = gval(st.value, genv)
                except (_Unknown, _Dependent):
                    genv[st.targets[0].id] = _const_eval(st.value, genv)
            elif isinstance(st, ast.AugAssign) and isinstance(st.target, ast.Name):
                cur = _const_eval(st.target, genv)
                v = _const_eval(st.value, genv)
                genv[st.target.id] = _const_eval(ast.BinOp(left=ast.Constant(value=cur), op=st.op, right=ast.Constant(value=v)), {})
            elif isinstance(st, ast.If):
                run(st.body if _const_eval(st.test, genv) else st.orelse, genv)
            elif isinstance(st, (ast.Pass,)):
                continue
            elif isinstance(st, ast.Expr) and isinstance(st.value, ast.Constant):
                continue
            else:
                raise _Unknown("statement %s" % type(st).__name__)
    try:
        for k in range(6):
            if isinstance(loop, ast.For):
                env[group_var] = Group(drawn[0])
                drawn[0] += 1
                if counter_var:
                    env[counter_var] = counter_start + k
            run(loop.body, env)
    except _Dependent as exc:
        return False, "whether a level is reversed depends on %s" % exc, loop
    except _Unknown as exc:
        return False, "unrecognised alternation idiom (%s)" % exc, loop
    if len(seq) < 6:
        return False, "fewer groups are yielded than drawn", loop
    for i, g in enumerate(seq):
        if g.k != i:
            return False, "the %d-th yield is group %d of the level order (a group is skipped, repeated or reordered)" % (i, g.k), loop
        if g.rev != (i % 2 == 1):
            return False, "level %d is yielded %s" % (i, "reversed" if g.rev else "unchanged"), loop
    if drawn[0] != len(seq):
        return False, "a drawn group is not yielded", loop
    return True, "groups 0..%d of the LevelOrderGroupIter over the start node yielded unchanged/reversed alternately (abstract run over the parity state)" % (len(seq) - 1), loop
