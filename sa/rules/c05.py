"""C05 — iterating does not modify the tree; ZigZag is built from LevelOrderGroup."""

import ast

from .. import tables as T
from ..linkrules import link_write_sites
from ..model import AnalysisError, Func, norm
from ..nodetype import has_node
from ..purity import Purity
from .common import find_calls, typer_for, walk_own

PROP = "C05"
LEVEL = "other"
TECHNIQUE = "static analysis: effect analysis of the iterator package over the resolved call graph; yield-sequence typestate for ZigZag"
EXPLANATION = (
    "Decides the clause 'iterating does not modify the tree' and the structural definition of ZigZag: I1 no function in "
    "anytree/iterators/ contains a link write, an attribute store on anything but the iterator object itself, a mutation of "
    "a non-fresh container, a hook, an opaque callee other than the user's filter_/stop, or a call reaching a structural "
    "entry point (transitive effect analysis); the only node attribute they load is `children`. I2 ZigZagGroupIter._iter "
    "obtains its groups only from a LevelOrderGroupIter over the start node and yields them in strict alternation "
    "unchanged / reversed, starting unchanged; the five iterator classes define only _iter (plus private helpers) on top of "
    "AbstractIter, which yields exactly what _iter yields. Not decided: visiting order and exactly-once (a queue/stack "
    "discipline on runtime shapes)."
)
ASSUMPTIONS = ["filter_/stop are user code and may do anything (their effects are the user's)", "children getter is pure (C04 N1)"]
ITERS = ("PreOrderIter", "PostOrderIter", "LevelOrderIter", "LevelOrderGroupIter", "ZigZagGroupIter")


def run(ctx):
    p = ctx.p
    typer = typer_for(ctx)
    pur = Purity(p, typer)
    funcs = [f for f in p.all_funcs if f.module.relpath.startswith("anytree/iterators/")]
    if len(funcs) < 12:
        raise AnalysisError("only %d functions found under anytree/iterators/" % len(funcs))
    write_funcs = {s[0] for s in link_write_sites(p)}
    for f in funcs:
        ctx.touch(f)
        bad = []
        for e in pur.effects(f):
            if e.kind == "lazyinit":
                continue
            if e.kind == "selfstore" and e.func.cls is not None and e.func.cls.name.endswith("Iter") and e.func.module.relpath.startswith("anytree/iterators/"):
                continue
            if e.kind == "callback" and e.text.split()[-1] in ("filter_", "stop"):
                continue
            bad.append(e)
        if f in write_funcs:
            ctx.viol("I1", f, f.node, "iterator function writes a link field", construct="%s writes a link" % f.qual)
        if not bad:
            ctx.inst("I1", f, f.qual, "no effect on the tree (transitively)")
        for e in bad:
            via = " (through %s)" % e.via[1].qual if e.via else ""
            ctx.viol("I1", f, e.node, "iterating has an effect: %s in %s%s — iteration must not modify the tree or any shared state" % (
                e.text, e.func.qual, via), construct="%s: %s in %s" % (f.qual, e.text, e.func.qual))
        ft = typer.results.get(f)
        if ft is not None:
            for n in walk_own(f.node):
                if isinstance(n, ast.Attribute) and isinstance(n.ctx, ast.Load) and has_node(ft.type_of(n.value)):
                    if n.attr == "children":
                        ctx.inst("I1", f, n, "node API used: children")
                    else:
                        ctx.viol("I1", f, n, "iterator reads node attribute `%s`; the traversal is defined over `children` only" % n.attr)
    # class structure
    base = p.cls("AbstractIter")
    for name in ITERS:
        cls = p.cls(name)
        if [b.name for b in cls.bases] != ["AbstractIter"]:
            ctx.viol("I2", None, cls.node, "%s is not a direct AbstractIter subclass" % name, construct="class %s bases" % name,
                     file=cls.module.relpath, qual=name, line=cls.node.lineno)
        public = [m for m in cls.members if not m.startswith("_%s__" % name) and m not in ("_iter", "_get_grandchildren")]
        if public or "_iter" not in cls.members:
            ctx.viol("I2", None, cls.node, "%s overrides %s / lacks _iter: it no longer is the shared start-up plus its own strategy" % (name, public),
                     construct="class %s members %s" % (name, sorted(cls.members)), file=cls.module.relpath, qual=name, line=cls.node.lineno)
        else:
            ctx.inst("I2", "%s %s" % (cls.module.relpath, name), "members %s" % sorted(cls.members), "strategy only")
    nxt = p.func("AbstractIter", "__next__")
    rets = [r for r in walk_own(nxt.node) if isinstance(r, ast.Return)]
    if len(rets) == 1 and norm(rets[0].value) == "next(self.__iter)":
        ctx.inst("I2", nxt, rets[0], "each item of the strategy generator is passed on unchanged")
    else:
        ctx.viol("I2", nxt, nxt.node, "__next__ does not return next(self.__iter) unchanged", construct="AbstractIter.__next__ return")
    it = p.func("AbstractIter", "__iter__")
    rets = [r for r in walk_own(it.node) if isinstance(r, ast.Return)]
    if not (len(rets) == 1 and norm(rets[0].value) == it.selfname):
        ctx.viol("I2", it, it.node, "__iter__ does not return self", construct="AbstractIter.__iter__ return")
    # the strategy generator is created once (lazily) from __init
    stores = [n for n in walk_own(nxt.node) if isinstance(n, ast.Assign) and norm(n.targets[0]) == "self.__iter"]
    cfg = typer.cfg_of(nxt)
    ok = False
    for s_ in stores:
        if norm(s_.value) == "self.__init()":
            for cn in cfg.nodes_of(s_):
                gs = cfg.guards_of(cn)
                from .common import none_test
                if any(none_test(c) == ("self.__iter", True) and o is True for c, o, _ in gs):
                    ok = True
    if ok and len(stores) == 1:
        ctx.inst("I2", nxt, stores[0], "strategy generator created once, on first use")
    else:
        ctx.viol("I2", nxt, nxt.node, "the strategy generator is not created exactly once (when self.__iter is None)", construct="AbstractIter.__next__ start-up")
    # ---------------------------------------------------------------- ZigZag
    zz = p.func("ZigZagGroupIter", "_iter")
    ctx.touch(zz)
    srcs = find_calls(zz, lambda c: norm(c.func).endswith("LevelOrderGroupIter"))
    others = [c for c in walk_own(zz.node) if isinstance(c, ast.Call) and isinstance(c.func, ast.Name) and c.func.id.endswith("Iter")
              and c not in srcs]
    if len(srcs) != 1 or others:
        ctx.viol("I2", zz, zz.node, "ZigZag groups do not come from exactly one LevelOrderGroupIter", construct="ZigZag: group source")
        return
    src = srcs[0]
    start = src.args[0] if src.args else None
    chp = zz.posparams[0]
    if start is not None and norm(start) == "%s[0]" % chp:
        ctx.inst("I2", zz, src, "LevelOrderGroupIter over the start node")
    else:
        ctx.viol("I2", zz, src, "the group iterator does not start at the start node (children[0])")
    itname = None
    for n in walk_own(zz.node):
        if isinstance(n, ast.Assign) and n.value is src and isinstance(n.targets[0], ast.Name):
            itname = n.targets[0].id
    ys = []
    loop = None
    for n in walk_own(zz.node):
        if isinstance(n, (ast.While, ast.For)):
            loop = n
    if loop is None or itname is None:
        ctx.viol("I2", zz, zz.node, "alternation loop over the group iterator not found", construct="ZigZag: loop")
        return

    def classify(e):
        """U = group unchanged, R = group reversed, ? = anything else"""
        if isinstance(e, ast.Call) and norm(e.func) == "next" and [norm(a) for a in e.args] == [itname]:
            return "U"
        if isinstance(e, ast.Call) and norm(e.func) in ("tuple", "list") and len(e.args) == 1:
            inner = e.args[0]
            if isinstance(inner, ast.Call) and norm(inner.func) == "reversed" and len(inner.args) == 1 and classify(inner.args[0]) == "U":
                return "R"
            if classify(inner) == "U":
                return "U"
        if isinstance(e, ast.Subscript) and isinstance(e.slice, ast.Slice) and norm(e.slice) == "::-1" and classify(e.value) == "U":
            return "R"
        return "?"
    body_stmts = []
    for st in loop.body:
        if isinstance(st, ast.Try):
            body_stmts.extend(st.body)
        else:
            body_stmts.append(st)
    seq = []
    for st in body_stmts:
        for y in ast.walk(st):
            if isinstance(y, ast.Yield):
                seq.append(classify(y.value) if y.value is not None else "?")
    outside = [y for y in walk_own(zz.node) if isinstance(y, (ast.Yield, ast.YieldFrom)) and not any(y is x for x in ast.walk(loop))]
    pattern = "".join(seq)
    if pattern and len(pattern) % 2 == 0 and pattern == "UR" * (len(pattern) // 2) and not outside and isinstance(loop, ast.While):
        ctx.inst("I2", zz, loop, "groups yielded in strict alternation %s starting unchanged" % pattern)
    else:
        ctx.viol("I2", zz, loop, "ZigZag does not yield the level groups in strict alternation unchanged/reversed starting with unchanged "
                 "(yield pattern %r%s)" % (pattern, ", plus yields outside the loop" if outside else ""), construct="ZigZag: yield pattern %s" % pattern)
    # the loop ends only when the group iterator is exhausted
    hs = [h for n in ast.walk(loop) if isinstance(n, ast.Try) for h in n.handlers]
    if any("StopIteration" in norm(h.type) for h in hs if h.type is not None):
        ctx.inst("I2", zz, loop, "loop ends on StopIteration of the group iterator")
    ctx.floor("I1", 16)
    ctx.floor("I2", 9)
