"""C16 — notification hooks fire exactly once and in order around each link change."""

from .. import linkrules
from .mixins import analyses, record_stats, report

PROP = "C16"
LEVEL = "other"
EXPLANATION = (
    "Hook typestate decided on every abstract trace of the three structural entry points of both mixins: H1/H2 every link "
    "change (adjacent write pair) is immediately preceded by its _pre_ hook and followed by its _post_ hook, once each, "
    "called on the moving node with the old resp. new parent, nothing may-raise in between; H3 within one parent "
    "assignment detach precedes attach, at most one of each, no hook on the no-op path (with C02 E1), post-hook "
    "exceptions are not caught inside the assignment; H4/H5 the *_children hooks bracket the per-child loops in the "
    "documented order with the former-children snapshot resp. the validated tuple, children detached/attached one by one "
    "in order; H6 hooks are called at no other site of the package and the eight defaults are empty."
)
ASSUMPTIONS = [
    "abstract traces: hooks/unknown callees opaque, loops unrolled 0..2",
    "what a hook can observe follows from the position of its call relative to the write pair (C01 W2)",
]


def run(ctx):
    mas = analyses(ctx)
    res = []
    sites = set()
    for m, ma in mas.items():
        n, probs = ma.hook_protocol()
        res.append(("H1-H2 hook/step events", n, probs))
        n, probs = ma.pair_problems(("W2",))
        probs = [x for x in probs if "list read" in (x[0].construct or "")]
        for pr, _, _ in probs:
            pr.rule = "H1"
        res.append(("H1 list read after the pre hook", n, probs))
        n, probs = ma.writes_only_via_parent_setter()
        for pr, _, _ in probs:
            pr.rule = "H3"
            pr.why = "a link changes outside a parent assignment, so its hooks are fired with a parent that was not read from the node at " \
                     "that moment (a hook that re-homed the node meanwhile is not noticed): " + pr.why
        res.append(("H3 link changes inside parent assignments", n, probs))
        n, probs = ma.setter_order()
        res.append(("H3 parent assignments", n, probs))
        n, probs = ma.noop_guard_problems()
        for pr, _, _ in probs:
            pr.rule = "H3"
        res.append(("H3 no hook on the no-op path", n, probs))
        n, probs = ma.children_brackets()
        res.append(("H4-H5 bracket obligations", n, probs))
        for name, func, trace, outcome, steps, pr in ma.all_rows():
            for ev in trace:
                if ev.kind == "HOOK":
                    sites.add(id(ev.node))
    report(ctx, res)
    linkrules.rule_H6(ctx, sites)
    record_stats(ctx, mas)
    ctx.floor("H1-H2 hook/step events", 5000)
    ctx.floor("H3 parent assignments", 1000)
    ctx.floor("H4-H5 bracket obligations", 1000)
    ctx.floor("H6", 32)
