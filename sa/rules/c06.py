"""C06 — filter_, stop and maxlevel restrict all five iterators the same way."""

import ast

from ..iterflow import IterFlow
from ..model import AnalysisError, norm
from .common import none_test, typer_for, walk_own
from .exporter_rules import rule_init_stores, rule_optint_truthiness

PROP = "C06"
LEVEL = "other"
TECHNIQUE = "static analysis: abstract interpretation (level offsets, stop-checked and within-maxlevel marks) over the CFGs of the five strategies with constant-difference widening; CFG dominance for filter_"
EXPLANATION = (
    "A forward abstract interpretation of AbstractIter.__init, the five _iter strategies and their helpers tracks, for every "
    "node and node sequence, its level (start node = 1) as constant or symbol+constant, whether stop() was applied and "
    "whether it is known to lie within maxlevel; loop heads are solved with a constant-difference widening, so the five "
    "private level counters / decremented maxlevels are related to the nodes they guard. Decided: S1 a node is yielded or "
    "has its children loaded only after stop(node) was false (or it came from a stop-filtered sequence); S2 every yielded "
    "node/group is restricted by filter_(node), and nothing but the yield is control-dependent on a filter_ outcome "
    "(filter_ hides only the node itself); S3 every node at level l is yielded only under `not _abort_at_level(l, "
    "maxlevel)` with exactly that l (neither stricter nor laxer), every recursive/forwarding call passes a sequence whose "
    "level agrees with the level/maxlevel arguments, the start node is guarded at level 1, _abort_at_level is `maxlevel is "
    "not None and level > maxlevel`, optional ints are never tested by truthiness where 0 is feasible; S4 filter_, stop, "
    "maxlevel are forwarded unchanged (ZigZag → LevelOrderGroup, recursion, constructor → __init → _iter); S5 a group is "
    "yielded for every admitted non-empty level, independent of whether filter_ leaves it empty. S6 every path through a per-node loop "
    "decides filter_ for the admitted node and descends into it unless stop/maxlevel applies. Not decided: traversal "
    "order (C05) and behaviour for user callbacks with side effects."
)
ASSUMPTIONS = ["levels are integers; `_abort_at_level` is the only depth test", "filter_/stop are called with the node only"]
IT = "anytree/iterators/"


def run(ctx):
    p = ctx.p
    typer = typer_for(ctx)
    fl = IterFlow(p).run()
    for f in fl.strategy_funcs():
        ctx.touch(f)
    for o in fl.obligations:
        ctx.inst(o.rule, o.func, o.node, o.what)
    definite = [pr for pr in fl.problems if not pr.undecided]
    undecided = [pr for pr in fl.problems if pr.undecided]
    for pr in definite:
        ctx.viol(pr.rule, pr.func, pr.node, pr.why, construct=pr.construct)
    if undecided and not definite:
        # the abstract domain (levels, stop/maxlevel marks) cannot be related to this code's data structures:
        # that is "no verdict", not a violation
        raise AnalysisError("C06 cannot track this implementation: " + "; ".join(
            "%s %s:%s `%s` — %s" % (pr.rule, pr.func.qual, getattr(pr.node, "lineno", "?"), pr.construct[:60], pr.why[:120]) for pr in undecided[:4]))
    for pr in undecided:
        ctx.viol(pr.rule, pr.func, pr.node, pr.why, construct=pr.construct)
    ctx.extra["inferred_preconditions(checked, admitted)"] = {f.qual: list(v) for f, v in fl.pre.items()}
    # ---- S2 second half: nothing but yields is control-dependent on filter_
    for f in fl.strategy_funcs():
        cfg = typer.cfg_of(f)
        dom = cfg.dominators()
        for g in cfg.nodes:
            if g.kind != "guard" or not isinstance(g.cond, ast.Call):
                continue
            fname = g.cond.func.id if isinstance(g.cond.func, ast.Name) else (g.cond.func.attr if isinstance(g.cond.func, ast.Attribute) else "")
            if fname != "filter_":
                continue
            for n in cfg.nodes:
                if n is g or n.id not in dom or g.id not in dom[n.id]:
                    continue
                if n.kind in ("join", "guard", "exit", "raise", "dead", "continue", "loopdone"):
                    continue
                is_yield = n.kind == "stmt" and isinstance(n.ast, ast.Expr) and isinstance(n.ast.value, ast.Yield)
                is_collect = n.kind == "stmt" and isinstance(n.ast, ast.Expr) and isinstance(n.ast.value, ast.Call) \
                    and isinstance(n.ast.value.func, ast.Attribute) and n.ast.value.func.attr == "append" and len(n.ast.value.args) == 1 \
                    and len(g.cond.args) == 1 and norm(n.ast.value.args[0]) == norm(g.cond.args[0]) and isinstance(n.ast.value.func.value, ast.Name)
                if is_yield and g.outcome is True:
                    ctx.inst("S2", f, n.ast, "only the yield depends on filter_")
                elif is_collect and g.outcome is True:
                    # the node is collected into the group that is yielded later (that the group is yielded restricted is the flow rule)
                    ctx.inst("S2", f, n.ast, "only collecting the node for its level group depends on filter_")
                else:
                    what = n.ast if n.ast is not None else g.cond
                    ctx.viol("S2", f, what, "`%s` is executed only when filter_(node) is %s: filter_ must hide the node itself only — "
                             "its descendants are still visited" % (" ".join(norm(what).split())[:80], g.outcome))
    # ---- S6 completeness: inside a per-node loop no shortcut skips the filter_ decision or the descent
    for f in fl.strategy_funcs():
        cfg = typer.cfg_of(f)
        for li in cfg.nodes:
            if li.kind != "loopin" or not isinstance(li.ast.target, ast.Name):
                continue
            x = li.ast.target.id
            from ..iterflow import Seq as _Seq
            itv = fl.loop_iter_values.get(id(li.ast))
            if not isinstance(itv, _Seq) or itv.rec:
                continue  # only loops over node sequences; elements of a recursive / forwarded strategy call are restricted there
            body_nodes = [n for n in cfg.nodes if n.id in cfg.reach_from(li, labels_excluded=("exc",)) and cfg.dominates(li, n)]
            heads = [n for n in cfg.nodes if n.kind == "fornext" and n.ast is li.ast]
            if not heads:
                continue
            head = heads[0]

            def is_call_on_x(e, names):
                return isinstance(e, ast.Call) and len(e.args) == 1 and isinstance(e.args[0], ast.Name) and e.args[0].id == x and \
                    ((isinstance(e.func, ast.Name) and e.func.id in names) or (isinstance(e.func, ast.Attribute) and e.func.attr in names))
            stop_true = [n for n in body_nodes if n.kind == "guard" and n.outcome is True and is_call_on_x(n.cond, ("stop",))]
            abort_flags = {t.id for a in walk_own(f.node) if isinstance(a, ast.Assign) and any(
                isinstance(c, ast.Call) and norm(c.func).endswith("_abort_at_level") for c in ast.walk(a.value))
                for t in a.targets if isinstance(t, ast.Name)}
            depth_cmp = [n for n in body_nodes if n.kind == "guard" and isinstance(n.cond, ast.Compare) and len(n.cond.ops) == 1 and (
                (isinstance(n.cond.ops[0], (ast.Gt, ast.Lt, ast.GtE, ast.LtE)) and any(
                    isinstance(x, ast.Name) and "maxlevel" in x.id for x in ast.walk(n.cond))))]
            abort_true = depth_cmp + [n for n in body_nodes if n.kind == "guard" and (
                (n.outcome is True and isinstance(n.cond, ast.Call) and norm(n.cond.func).endswith("_abort_at_level")) or
                (isinstance(n.cond, ast.Name) and n.cond.id in abort_flags))]
            # `x is None`: a placeholder in a duck-typed children sequence, not a node - nothing is owed to it
            from .common import none_test
            stop_true = stop_true + [n for n in body_nodes if n.kind == "guard" and none_test(n.cond) is not None and none_test(n.cond)[0] == x
                                     and (none_test(n.cond)[1] is True) == (n.outcome is True)]
            filter_tests = [n for n in body_nodes if n.kind == "test" and is_call_on_x(n.cond, ("filter_",))]
            yields_x = [n for n in body_nodes if n.kind == "stmt" and isinstance(n.ast, ast.Expr) and isinstance(n.ast.value, ast.Yield)
                        and isinstance(n.ast.value.value, ast.Name) and n.ast.value.value.id == x]
            descents = [n for n in body_nodes if n.kind in ("stmt", "foriter", "test", "return") and any(
                isinstance(a, ast.Attribute) and a.attr == "children" and isinstance(a.value, ast.Name) and a.value.id == x
                for a in ast.walk(n.ast.iter if n.kind == "foriter" else (n.cond if n.kind == "test" else n.ast)))]
            if yields_x:
                reach = cfg.reach_from(li, avoid=filter_tests + stop_true, labels_excluded=("exc",))
                if head.id in reach or cfg.exit.id in reach:
                    ctx.viol("S6", f, li.ast.target, "some path through the per-node loop reaches the next node without deciding filter_(%s): "
                             "an admitted node can be skipped without filter_ hiding it" % x, construct="%s: loop over %s skips filter_" % (f.qual, norm(li.ast.iter)))
                else:
                    ctx.inst("S6", f, li.ast.target, "every admitted %s reaches its filter_ decision" % x)
            if descents:
                dom_abort = any(g.kind == "guard" and g.outcome is True and isinstance(g.cond, ast.Call) and norm(g.cond.func).endswith("_abort_at_level")
                                for _, _, g in cfg.guards_of(li))
                if not dom_abort:
                    reach = cfg.reach_from(li, avoid=descents + stop_true + abort_true, labels_excluded=("exc",))
                    if head.id in reach or cfg.exit.id in reach:
                        ctx.viol("S6", f, li.ast.target, "some path through the per-node loop reaches the next node without descending into "
                                 "%s.children although neither stop nor the depth limit applies: part of the admitted subtree is skipped" % x,
                                 construct="%s: loop over %s skips descent" % (f.qual, norm(li.ast.iter)))
                    else:
                        ctx.inst("S6", f, li.ast.target, "every admitted %s is descended into unless stop/maxlevel applies" % x)
    # ---- S5: group yields depend only on non-emptiness of the admitted sequence / depth guard
    for cname in ("LevelOrderGroupIter",):
        f = p.func(cname, "_iter")
        cfg = typer.cfg_of(f)
        for n in cfg.nodes:
            if n.kind == "stmt" and isinstance(n.ast, ast.Expr) and isinstance(n.ast.value, ast.Yield):
                bad = []
                for c, o, _ in cfg.guards_of(n):
                    if isinstance(c, ast.Name) and c.id == f.posparams[0]:
                        continue
                    if isinstance(c, ast.Call) and norm(c.func).endswith("_abort_at_level"):
                        continue
                    bad.append(norm(c))
                if bad:
                    ctx.viol("S5", f, n.ast, "the level group is yielded only if %s: a level whose nodes are all filtered out must still "
                             "yield an (empty) tuple" % bad)
                else:
                    ctx.inst("S5", f, n.ast, "one tuple per admitted level, independent of filter_")
    # ---- helpers and start-up
    ab = p.func("AbstractIter", "_abort_at_level")
    lvp, mxp = ab.posparams[0], ab.posparams[1]
    acfg = typer.cfg_of(ab)

    def aval(e, is_none):
        """value of an expression of _abort_at_level when maxlevel is / is not None: 'F', 'T', 'GT' (level > maxlevel) or '?'"""
        if isinstance(e, ast.Constant) and isinstance(e.value, bool):
            return "T" if e.value else "F"
        nt = none_test(e)
        if nt is not None and nt[0] == mxp:
            return "T" if nt[1] == is_none else "F"
        if isinstance(e, ast.Compare) and len(e.ops) == 1:
            l, r, op = norm(e.left), norm(e.comparators[0]), type(e.ops[0])
            if (l, r, op) == (lvp, mxp, ast.Gt) or (l, r, op) == (mxp, lvp, ast.Lt):
                return "GT"
            return "?"
        if isinstance(e, ast.UnaryOp) and isinstance(e.op, ast.Not):
            v = aval(e.operand, is_none)
            return {"T": "F", "F": "T"}.get(v, "?")
        if isinstance(e, ast.BoolOp):
            vals = [aval(v, is_none) for v in e.values]
            if isinstance(e.op, ast.And):
                for v in vals:
                    if v == "F":
                        return "F"
                    if v != "T":
                        rest = [x for x in vals[vals.index(v):] if x != "T"]
                        return rest[0] if len(rest) == 1 else "?"
                return "T"
            for v in vals:
                if v == "T":
                    return "T"
                if v != "F":
                    rest = [x for x in vals[vals.index(v):] if x != "F"]
                    return rest[0] if len(rest) == 1 else "?"
            return "F"
        if isinstance(e, ast.IfExp):
            t = aval(e.test, is_none)
            if t == "T":
                return aval(e.body, is_none)
            if t == "F":
                return aval(e.orelse, is_none)
        return "?"
    ok = True
    rets_ab = acfg.stmt_nodes(("return",))
    for is_none, want in ((True, "F"), (False, "GT")):
        seen_case = False
        for rn in rets_ab:
            feasible = True
            for c, o, _ in acfg.guards_of(rn):
                v = aval(c, is_none)
                if v in ("T", "F") and (v == "T") != o:
                    feasible = False
            if not feasible or rn.ast.value is None:
                continue
            seen_case = True
            if aval(rn.ast.value, is_none) != want:
                ok = False
        if not seen_case:
            ok = False
    if ok:
        ctx.inst("S3", ab, ab.node.name, "abort ⇔ maxlevel is not None and level > maxlevel (both cases of maxlevel evaluated)")
    else:
        ctx.viol("S3", ab, ab.node, "_abort_at_level is not `maxlevel is not None and level > maxlevel`", construct="_abort_at_level definition")
    gc = p.func("AbstractIter", "_get_children")
    if fl.get_children_ok is None:
        fl.get_children_ok = fl.verify_get_children()
    okg, retv = fl.get_children_ok
    if okg:
        ctx.inst("S1", gc, gc.node.name, "_get_children returns only nodes of its argument for which stop is false (%r)" % (retv,))
    else:
        ctx.viol("S1", gc, gc.node, "_get_children does not return exactly the children for which stop is false (abstract result %r)" % (retv,),
                 construct="_get_children definition")
    # completeness / order of _get_children: every child is either stopped or kept, in order
    gcfg = typer.cfg_of(gc)
    lc = [r.ast.value for r in gcfg.stmt_nodes(("return",)) if isinstance(r.ast.value, ast.ListComp)]
    if lc:
        g0 = lc[0].generators[0]
        if len(lc[0].generators) == 1 and len(g0.ifs) == 1 and norm(lc[0].elt) == norm(g0.target) and norm(g0.iter) == gc.posparams[0]:
            ctx.inst("S1", gc, lc[0], "comprehension keeps the children in order")
        else:
            ctx.viol("S1", gc, lc[0], "_get_children does not keep every non-stopped child in order", construct="_get_children comprehension")
    else:
        for li in gcfg.nodes:
            if li.kind == "loopin":
                heads = [h for h in gcfg.nodes if h.kind == "fornext" and h.ast is li.ast]
                adders = [a for a in gcfg.nodes if a.kind == "stmt" and isinstance(a.ast, ast.Expr) and isinstance(a.ast.value, ast.Call)
                          and isinstance(a.ast.value.func, ast.Attribute) and a.ast.value.func.attr == "append" and gcfg.dominates(li, a)]
                stops = [g for g in gcfg.nodes if g.kind == "guard" and g.outcome is True and isinstance(g.cond, ast.Call) and norm(g.cond.func) == gc.posparams[1]]
                reach = gcfg.reach_from(li, avoid=adders + stops, labels_excluded=("exc",))
                if norm(li.ast.iter) != gc.posparams[0] or any(h.id in reach for h in heads) or gcfg.exit.id in reach:
                    ctx.viol("S1", gc, li.ast, "_get_children does not keep every non-stopped child in order", construct="_get_children loop")
                else:
                    ctx.inst("S1", gc, li.ast, "loop keeps every non-stopped child in order")
    rule_init_stores(ctx, "AbstractIter", rule="S4")
    init = p.func("AbstractIter", "__init")
    # option defaults: `filter_ = self.filter_ or <callable that answers True for every node>`, stop likewise with False
    seen_opts = set()
    for n in walk_own(init.node):
        if isinstance(n, ast.Assign) and isinstance(n.value, ast.BoolOp) and isinstance(n.value.op, ast.Or):
            vals = n.value.values
            first = norm(vals[0])
            t = {"%s.filter_" % init.selfname: "filter_", "%s.stop" % init.selfname: "stop"}.get(first)
            if t is None:
                t = norm(n.targets[0])
                if t in ("filter_", "stop"):
                    seen_opts.add(t)
                    ctx.viol("S4", init, n, "%s is `%s`, expected `self.%s or <default>`" % (t, norm(n.value), t))
                continue
            want = {"filter_": True, "stop": False}[t]
            seen_opts.add(t)
            bad = [v for v in vals[1:] if _const_hook(p, init, v) is not want or _const_hook(p, init, v) is None]
            if bad:
                ctx.viol("S4", init, n, "the default for %s (`%s`) is not a callable that returns %s for every node" % (
                    t, norm(bad[0]), want), construct="%s default" % t)
            else:
                ctx.inst("S4", init, n, "%s option or a default that always answers %s" % (t, want))
                ctx.inst("S4", init, n.value, "default %s returns %s" % (t, want))
    for t in ("filter_", "stop"):
        if t not in seen_opts:
            ctx.viol("S4", init, init.node, "no `%s = self.%s or <default>` found in AbstractIter.__init" % (t, t),
                     construct="%s default missing" % t)
    rule_optint_truthiness(ctx, typer, {m for m in p.modules if m.startswith(IT)}, rule="S3")
    ctx.floor("S1", 8)
    ctx.floor("S2", 8)
    ctx.floor("S3", 8)
    ctx.floor("S4", 10)
    ctx.floor("S5", 1)
    ctx.floor("S6", 4)


def _const_hook(p, func, e, _depth=0):
    """the constant a callable expression answers for every argument, else None: a function/lambda whose only return
    value is that constant, or a call of a factory returning a closure that returns the factory's (constant) argument"""
    from ..model import Func
    if _depth > 3:
        return None

    def returns_of(fnode):
        if isinstance(fnode, ast.Lambda):
            return [fnode.body]
        return [r.value for r in walk_own(fnode) if isinstance(r, ast.Return)]

    def resolve(expr):
        if isinstance(expr, ast.Lambda):
            return expr
        if isinstance(expr, ast.Attribute) and isinstance(expr.value, ast.Name):
            cls = func.cls if expr.value.id in ("self", func.cls.name if func.cls else "") else p.classes.get(expr.value.id)
            if cls is not None:
                from ..model import mangle
                m = cls.lookup(mangle(func.cls.name, expr.attr)) or cls.lookup(expr.attr)
                if isinstance(m, Func):
                    return m.node
        if isinstance(expr, ast.Name):
            # local alias / nested def in straight-line order of the function body
            latest = {}
            for st in func.node.body:
                if isinstance(st, ast.FunctionDef):
                    latest[st.name] = st
                elif isinstance(st, ast.Assign) and len(st.targets) == 1 and isinstance(st.targets[0], ast.Name):
                    v = st.value
                    if isinstance(v, ast.Name) and v.id in latest:
                        latest[st.targets[0].id] = latest[v.id]
                    elif isinstance(v, ast.Lambda):
                        latest[st.targets[0].id] = v
                    else:
                        latest.pop(st.targets[0].id, None)
            if expr.id in latest:
                return latest[expr.id]
            for n in func.module.tree.body:
                if isinstance(n, ast.FunctionDef) and n.name == expr.id:
                    return n
        return None
    if isinstance(e, ast.Call) and not e.keywords and len(e.args) == 1 and isinstance(e.args[0], ast.Constant):
        fac = resolve(e.func)
        if fac is None or isinstance(fac, ast.Lambda):
            return None
        params = [a.arg for a in fac.args.args]
        if len(params) != 1:
            return None
        inner = [n for n in fac.body if isinstance(n, ast.FunctionDef)]
        rets = returns_of(fac)
        if len(rets) != 1:
            return None
        r = rets[0]
        target = None
        if isinstance(r, ast.Lambda):
            target = r
        elif isinstance(r, ast.Name) and len(inner) == 1 and inner[0].name == r.id:
            target = inner[0]
        if target is None:
            return None
        stores = [n for n in ast.walk(fac) if isinstance(n, ast.Name) and n.id == params[0] and isinstance(n.ctx, ast.Store)]
        ir = returns_of(target)
        shadow = [a.arg for a in target.args.args]
        if not stores and len(ir) == 1 and isinstance(ir[0], ast.Name) and ir[0].id == params[0] and params[0] not in shadow:
            v = e.args[0].value
            return v if isinstance(v, bool) else None
        return None
    fn = resolve(e)
    if fn is None:
        return None
    rets = returns_of(fn)
    if len(rets) == 1 and isinstance(rets[0], ast.Constant) and isinstance(rets[0].value, bool):
        return rets[0].value
    return None
