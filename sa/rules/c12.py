"""C12 — DOT export declares exactly the admitted nodes and only edges between them."""

from ..model import AnalysisError

from ..lint_identity import lint_program
from . import exporter_rules as X
from .common import typer_for

PROP = "C12"
LEVEL = "other"
TECHNIQUE = "static analysis: sibling cross-check of node/edge passes via CFG guards, optional-int lint, taint to quoted slots, regex AST of the escaper"
EXPLANATION = (
    "Decides the clauses that make the edge list agree with the node list in DotExporter/UniqueDotExporter: D1a the edge "
    "pass enumerates parents with the same start node, filter_ and stop as the node pass and with depth limit `None if m "
    "is None else m - 1`; D1b an edge is yielded only where filter_(child) is true and stop(child) is false (CFG guards "
    "dominating the yield); D2 optional integers are tested with `is None`, never by truthiness (type-inference driven, "
    "with the one value-range idiom that excludes 0); D3 every nodenamefunc result reaches a double-quoted slot only "
    "through esc(), whose pattern (parsed with re._parser) covers '\"' and '\\' and whose replacement prefixes a backslash; "
    "D4 UniqueDotExporter's identifier map is keyed by id(node), get-or-insert with a counter, assigned only in __init__; "
    "D5 header/options/nodes/edges/'}' order with lines passed on unchanged, to_dotfile writes exactly those lines, the "
    "legacy RenderTreeGraph adds only a forwarding constructor, every constructor option is stored under its own name. "
    "D1c every admitted node/edge reaches its yield on every path of its loop; D6 line templates are constants filled through "
    "%-arguments / format fields only. Not decided: the exact text of the lines."
    " Added in round 18: no branch of the default name / label code is decided by the truth value of the node's name ('' / 0 / None are names); D5 accepts a spelled-out RenderTreeGraph signature equal to DotExporter's."
)
ASSUMPTIONS = ["PreOrderIter admits nodes as C06 states", "user-supplied name/attribute functions are opaque"]
FILES = {"anytree/exporter/dotexporter.py", "anytree/dotexport.py"}


def run(ctx):
    typer = typer_for(ctx)
    X.rule_D1(ctx, typer, "DotExporter")
    X.rule_optint_truthiness(ctx, typer, FILES)
    X.rule_name_truthiness(ctx, typer, FILES)
    X.rule_D1c_complete(ctx, typer, "DotExporter")
    ctx.floor("D1c", 2)
    X.rule_D3_escape(ctx, typer, "DotExporter", quoted=True)
    from .common import rule_format_templates
    rule_format_templates(ctx, typer, [f for f in ctx.p.all_funcs if f.module.relpath in FILES], "D6")
    X.rule_D4_ids(ctx, typer, "UniqueDotExporter")
    X.rule_D5_structure(ctx, typer, "DotExporter", closing="}", writer="to_dotfile")
    X.rule_D5_legacy(ctx)
    X.rule_init_stores(ctx, "DotExporter")
    X.rule_init_stores(ctx, "UniqueDotExporter")
    # UniqueDotExporter overrides nothing of the two passes
    cls = ctx.p.cls("UniqueDotExporter")
    for name in cls.members:
        ctx.instances["D5"] += 1
        if name not in ("__init__", "_default_nodenamefunc", "_default_nodeattrfunc"):
            f = next(iter(cls.funcs()))
            ctx.viol("D5", f, f.node, "UniqueDotExporter overrides %s: its passes no longer are DotExporter's" % name,
                     construct="UniqueDotExporter.%s" % name)
    hits, _ = lint_program(ctx.p, typer, files=FILES)
    for h in hits:
        ctx.viol("D4", h.func, h.node, "identity-only rule %s: %s" % (h.rule, h.why))
    for f in ctx.p.all_funcs:
        if f.module.relpath in FILES:
            ctx.touch(f)
    if ctx.extra.get("undecided") and not ctx.new_findings():
        raise AnalysisError("; ".join(ctx.extra["undecided"][:2]))
    ctx.floor("D1a", 5)
    ctx.floor("D1b", 1)
    ctx.floor("D2", 1)
    ctx.floor("D3", 4)
    ctx.floor("D4", 6)
    ctx.floor("D5", 14)
