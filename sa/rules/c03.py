"""C03 — a refused or hook-vetoed structural change leaves the forest untouched."""

from .mixins import analyses, record_stats, report

PROP = "C03"
LEVEL = "other"
EXPLANATION = (
    "Veto-before-write, decided on every abstract trace of parent.setter, children.setter and children.deleter of both "
    "mixins (callees inlined, hooks may raise wherever called, loops unrolled 0..2): a veto-able raise point (explicit "
    "TreeError/LoopError, failing iteration of the children argument, the first attribute access on an argument nobody "
    "validated as a node, a _pre_* hook) whose exception escapes the entry "
    "point must not be preceded by a link write that is still in effect (A2); a compensation handler must restore every "
    "list written (A2i) and must not itself pass through veto-able code (A2ii). Complete at the abstraction level of "
    "events; the rule is monotone in trace prefixes so two loop iterations exhibit every 'write in iteration k, veto in "
    "iteration k+1' pattern. Known genuine violations (DESIGN section 5, D3-D7) are listed in known_findings.json."
)
ASSUMPTIONS = [
    "post hooks are excluded as veto points (C16: their exceptions propagate without undo)",
    "a successful re-entered `self.children = old_children` restores the node's own list and its former children's parents",
]


def run(ctx):
    mas = analyses(ctx)
    res = []
    for m, ma in mas.items():
        n, probs = ma.veto_before_write()
        res.append(("A2 escaping veto-able raises", n, probs))
    report(ctx, res)
    record_stats(ctx, mas)
    ctx.floor("A2 escaping veto-able raises", 2000)
