"""C10 — dictionary export/import: bookkeeping tables, argument immutability, option forwarding."""

import ast

from .. import tables as T
from ..linkrules import link_fields
from ..model import AnalysisError, norm
from .common import call_binding, cfg_nodes_containing, check_forwarding, find_calls, none_test, typer_for, walk_own
from .exporter_rules import rule_init_stores, rule_optint_truthiness

PROP = "C10"
LEVEL = "other"
TECHNIQUE = "static analysis: table agreement with link storage, alias/effect analysis of the arguments, recursion-forwarding and CFG guard rules"
EXPLANATION = (
    "X1 the attribute names DictExporter skips are exactly NodeMixin's link fields (derived from the mixin's own writes) "
    "and every other item of node.__dict__ is yielded unchanged; X2 alias/effect analysis: DictImporter never applies a "
    "mutating operation to a value that may alias its argument or a nested list obtained from it (dict(data)/copy() break "
    "the alias, plain assignment and pop()/[] results do not), DictExporter never stores to the node; X3 every recursive "
    "export call passes dictcls, attriter, childiter unchanged, children come from childiter(node.children); the depth "
    "parameter's start value, step and guard are evaluated to linear forms over (maxlevel, level) on the path condition of "
    "the recursive call and must amount to `maxlevel is None or level < maxlevel` with the start node on level 1 (counting up "
    "or down, enclosing-if or early-return form; an off-by-k guard, an equality test on the counter, a constant passed down "
    "or a comparison reached with None is reported), every return hands back the node's own dict; X4 the 'children' key is stored only when the exported list is non-empty; X5 the "
    "importer builds nodecls(parent=parent, **attrs) from the copy minus exactly 'children', iterates the children in order "
    "and recurses with parent=<the node just built>; import_ passes data unchanged; X7 a container handed down the import recursion whose membership test ends in a raise has every add undone on every normal path to the exit (it holds the dicts on the current path only, so a dict object that merely occurs twice is not refused); X6 Node/AnyNode constructors put keyword "
    "attributes straight into the instance dict (any key is storable and exported again). Not decided: round-trip equality."
    " Added in round 16: X5 every entry of the children list reaches the recursive import on every normal path (skips only behind `is None` / non-dict tests: `{}` is a legal leaf); an importer that builds the node in several places gets no verdict."
)
ASSUMPTIONS = ["node.__dict__ holds the instance attributes; user nodecls/dictcls/attriter/childiter are opaque"]
DE = "anytree/exporter/dictexporter.py"
DI = "anytree/importer/dictimporter.py"
MUT = {"pop", "popitem", "update", "setdefault", "clear", "__setitem__", "__delitem__", "append", "extend", "insert", "remove",
       "sort", "reverse"}


def _fed_by_rec(func, stmt, rec):
    """the value appended is the result of the recursive export (directly or through a local)"""
    val = stmt.value.args[0] if isinstance(stmt, ast.Expr) else stmt.value
    if any(x in rec for x in ast.walk(val)):
        return True
    if isinstance(val, ast.Name):
        for n in walk_own(func.node):
            if isinstance(n, ast.Assign) and norm(n.targets[0]) == val.id and any(x in rec for x in ast.walk(n.value)):
                return True
    return False


def _skipped_children(cfg, lp, rec):
    """must-pass-through: inside the children loop every normal path from the start of an iteration to the next one passes
    the recursive call, except behind tests no export-shaped entry satisfies (`child is None`, `not isinstance(child, dict)`).
    -> None (every entry imported) | "falsy" (an entry is skipped on its truth value / length) | text of the skipping test"""
    tname = lp.target.id
    li = [n for n in cfg.nodes if n.kind == "loopin" and n.ast is lp]
    heads = [n for n in cfg.nodes if n.kind == "fornext" and n.ast is lp]
    recn = [n for n in cfg.nodes if n.ast is not None and n.kind in ("stmt", "return", "test", "assert") and any(x is rec for x in ast.walk(n.ast))
            and not isinstance(n.ast, (ast.For, ast.While, ast.If, ast.Try, ast.With))]
    if not li or not heads or not recn:
        return "loop not located"

    def admitted(g):
        c_ = g.cond
        if isinstance(c_, ast.Compare) and len(c_.ops) == 1 and norm(c_.left) == tname and isinstance(c_.comparators[0], ast.Constant) \
                and c_.comparators[0].value is None:
            return (isinstance(c_.ops[0], ast.Is) and g.outcome is True) or (isinstance(c_.ops[0], ast.IsNot) and g.outcome is False)
        if isinstance(c_, ast.Call) and norm(c_.func) == "isinstance" and len(c_.args) == 2 and norm(c_.args[0]) == tname \
                and norm(c_.args[1]) in ("dict", "Mapping", "(dict,)"):
            return g.outcome is False
        return False
    guards = [g for g in cfg.nodes if g.kind == "guard"]
    avoid = recn + [g for g in guards if admitted(g)]
    reach = cfg.reach_from(li[0], avoid=avoid, labels_excluded=("exc",))
    if not any(h.id in reach for h in heads) and cfg.exit.id not in reach and not any(n.kind == "loopdone" and n.ast is lp and n.id in reach for n in cfg.nodes):
        return None
    # which test lets an entry through without importing it?
    for g in guards:
        if g.id in reach and not any(r.id in cfg.reach_from(g, avoid=heads, labels_excluded=("exc",)) for r in recn):
            c_ = g.cond
            if (isinstance(c_, ast.Name) and c_.id == tname and g.outcome is False) or \
                    (isinstance(c_, ast.Call) and norm(c_.func) == "len" and c_.args and norm(c_.args[0]) == tname and g.outcome is False):
                return "falsy"
            return "`%s` is %s" % (norm(c_)[:50], g.outcome)
    return "a path through the loop body avoids the recursive call"


def rule_children_all_imported(ctx, typer, rule):
    """the JSON round trip (C11) rests on the same loop: every entry of the children list reaches the recursive import"""
    try:
        imp = ctx.p.func("DictImporter", "__import")
    except AnalysisError:
        ctx.notes.append("%s: DictImporter.__import not located; the children loop is C10's X5" % rule)
        return 0
    n = 0
    for lp in [x for x in walk_own(imp.node) if isinstance(x, ast.For) and isinstance(x.target, ast.Name)]:
        for c in find_calls(imp, lambda c: norm(c.func) == "self.__import"):
            if any(x is c for x in ast.walk(lp)) and any(isinstance(a, ast.Name) and a.id == lp.target.id for a in list(c.args) + [k.value for k in c.keywords]):
                n += 1
                skipped = _skipped_children(typer.cfg_of(imp), lp, c)
                if skipped == "falsy":
                    ctx.viol(rule, imp, lp, "a child entry is skipped when it is falsy: an attribute-less leaf is serialised as `{}`, which is "
                             "falsy after loading, so that node is dropped and import_(export(t)) has fewer nodes than t",
                             construct="__import: falsy children skipped")
                elif skipped:
                    ctx.extra.setdefault("undecided", []).append("%s: DictImporter.__import does not import every entry of the children list (%s)" % (rule, skipped))
                else:
                    ctx.inst(rule, imp, lp, "every entry of the children list reaches the recursive import (skips only behind `is None` / non-dict tests)")
    return n


def run(ctx):
    p = ctx.p
    typer = typer_for(ctx)
    from .common import rule_word_membership
    rule_word_membership(ctx, typer, [g for g in p.all_funcs if g.module.relpath in ("anytree/exporter/dictexporter.py", "anytree/importer/dictimporter.py", "anytree/node/node.py", "anytree/node/anynode.py")], "X1")
    # ---------------------------------------------------------------- X1
    iav = p.func("DictExporter", "_iter_attr_values")
    ctx.touch(iav)
    want = {k for k, (m, _) in link_fields(p).items() if m == "NodeMixin"}
    from ..memo import memo_fields
    want = want | {k for k, mm in memo_fields(p).items() if mm.cls == "NodeMixin"}  # cached link data is bookkeeping too
    tables = []
    for n in walk_own(iav.node):
        if isinstance(n, ast.Compare) and len(n.ops) == 1 and isinstance(n.ops[0], (ast.In, ast.NotIn)):
            from .common import const_strings
            vals = const_strings(p, iav, n.comparators[0])
            if vals is not None:
                tables.append((n, vals))
    if not tables:
        ctx.viol("X1", iav, iav.node, "no skip table for the tree bookkeeping attributes found: parent/children links leak into exports",
                 construct="_iter_attr_values: skip table missing")
    all_links = set(link_fields(p)) | set(memo_fields(p))
    for n, vals in tables:
        if vals == want or (want <= vals <= all_links):
            ctx.inst("X1", iav, n, "skip table %s: the link fields (of NodeMixin, possibly of both mixins) and nothing else" % sorted(vals))
        else:
            ctx.viol("X1", iav, n, "skip table %s differs from NodeMixin's link fields %s: bookkeeping leaks into exports or a user "
                     "attribute is dropped" % (sorted(vals), sorted(want)))
    cfg = typer.cfg_of(iav)
    loops = [n for n in walk_own(iav.node) if isinstance(n, ast.For)]
    def _src_ok(lp):
        if norm(lp.iter) == "node.__dict__.items()":
            return True
        # `items` bound to node.__dict__.items() with a fall-back (slots) only in the AttributeError handler of that very read
        if isinstance(lp.iter, ast.Name):
            asg = [a_ for a_ in walk_own(iav.node) if isinstance(a_, ast.Assign) and any(isinstance(t_, ast.Name) and t_.id == lp.iter.id for t_ in a_.targets)]
            main = [a_ for a_ in asg if norm(a_.value) == "node.__dict__.items()"]
            rest = [a_ for a_ in asg if a_ not in main]
            if len(main) == 1:
                for t_ in walk_own(iav.node):
                    if isinstance(t_, ast.Try) and any(x is main[0] for x in t_.body) and all(
                            any(any(y is r_ for y in ast.walk(h_)) for h_ in t_.handlers if h_.type is not None and norm(h_.type) == "AttributeError") for r_ in rest):
                        return True
                return not rest
        return False
    ok_src = any(_src_ok(l) for l in loops)
    if ok_src:
        ctx.inst("X1", iav, loops[0], "iterates node.__dict__.items()")
    else:
        ctx.viol("X1", iav, iav.node, "attributes are not read from node.__dict__.items()", construct="_iter_attr_values: source")
    ys = [y for y in walk_own(iav.node) if isinstance(y, ast.Yield)]
    for y in ys:
        tgt = loops[0].target if loops else None
        good = tgt is not None and isinstance(y.value, ast.Tuple) and norm(y.value) == norm(tgt).replace("[", "(").replace("]", ")") or \
            (tgt is not None and norm(y.value) == norm(tgt))
        holders = [cn for cn in cfg.nodes if cn.kind == "stmt" and isinstance(cn.ast, ast.Expr) and cn.ast.value is y]
        extra = []
        for cn in holders:
            for c, o, _ in cfg.guards_of(cn):
                if not any(c is t[0] for t in tables):
                    extra.append(norm(c))
                elif (isinstance(c.ops[0], ast.In) and o is True) or (isinstance(c.ops[0], ast.NotIn) and o is False):
                    extra.append("yield inside the skip branch")
        if good and not extra:
            ctx.inst("X1", iav, y, "every non-bookkeeping (key, value) is yielded unchanged")
        else:
            ctx.viol("X1", iav, y, "attribute items are not yielded unchanged for every non-bookkeeping key (%s)" % (extra or "value altered"))
    if not ys:
        ctx.viol("X1", iav, iav.node, "no attribute is yielded", construct="_iter_attr_values: no yield")
    # ---------------------------------------------------------------- X2
    imp = p.func("DictImporter", "__import")
    ctx.touch(imp)
    datap = imp.posparams[1]
    alias = {datap}
    nested = set()  # values that live inside the argument (or inside a shallow copy of it)
    shallow = set()
    changed = True
    while changed:
        changed = False
        for n in walk_own(imp.node):
            if not (isinstance(n, ast.Assign) and len(n.targets) == 1 and isinstance(n.targets[0], ast.Name)):
                continue
            t, v = n.targets[0].id, n.value
            new = None
            if isinstance(v, ast.Name) and v.id in alias:
                new = "alias"
            elif isinstance(v, ast.Name) and v.id in nested:
                new = "nested"
            elif isinstance(v, ast.Name) and v.id in shallow:
                new = "shallow"
            elif isinstance(v, ast.Call) and norm(v.func) in ("dict", "list", "tuple") and v.args and isinstance(v.args[0], ast.Name) \
                    and v.args[0].id in alias | shallow:
                new = "shallow"
            elif isinstance(v, ast.Call) and isinstance(v.func, ast.Attribute) and isinstance(v.func.value, ast.Name) \
                    and v.func.value.id in alias | shallow | nested:
                if v.func.attr == "copy":
                    new = "shallow"
                elif v.func.attr in ("pop", "get", "setdefault"):
                    new = "nested"
            elif isinstance(v, ast.Dict) and any(k is None and isinstance(x, ast.Name) and x.id in alias | shallow for k, x in zip(v.keys, v.values)):
                new = "shallow"
            elif isinstance(v, ast.Subscript) and isinstance(v.value, ast.Name) and v.value.id in alias | shallow | nested:
                new = "nested"
            if new:
                s_ = {"alias": alias, "nested": nested, "shallow": shallow}[new]
                if t not in s_:
                    s_.add(t)
                    changed = True
    for n in walk_own(imp.node):
        if isinstance(n, ast.For) and isinstance(n.iter, ast.Name) and n.iter.id in nested | alias and isinstance(n.target, ast.Name):
            nested.add(n.target.id)
    protected = alias | nested
    n_checked = 0
    for n in walk_own(imp.node):
        if isinstance(n, ast.Call) and isinstance(n.func, ast.Attribute) and isinstance(n.func.value, ast.Name):
            if n.func.attr in MUT:
                n_checked += 1
                if n.func.value.id in protected:
                    ctx.viol("X2", imp, n, "mutating call .%s() on `%s`, which is (part of) the caller's argument: import_ modifies its input" % (
                        n.func.attr, n.func.value.id))
                else:
                    ctx.inst("X2", imp, n, "mutation of the private copy `%s`" % n.func.value.id)
        if isinstance(n, ast.Subscript) and isinstance(n.ctx, (ast.Store, ast.Del)) and isinstance(n.value, ast.Name):
            n_checked += 1
            if n.value.id in protected:
                ctx.viol("X2", imp, n, "item store/delete on `%s`, which is (part of) the caller's argument" % n.value.id)
            else:
                ctx.inst("X2", imp, n, "item store on a private value")
        if isinstance(n, ast.AugAssign) and isinstance(n.target, ast.Name) and n.target.id in protected:
            ctx.viol("X2", imp, n, "augmented assignment on `%s`, which is (part of) the caller's argument" % n.target.id)
    ex = p.func("DictExporter", "__export")
    ctx.touch(ex)
    for f in (ex, iav, p.func("DictExporter", "export")):
        for n in walk_own(f.node):
            if isinstance(n, ast.Attribute) and isinstance(n.ctx, (ast.Store, ast.Del)) and isinstance(n.value, ast.Name) and n.value.id in ("node", "child"):
                ctx.viol("X2", f, n, "the exporter stores to an attribute of the node it exports")
            if isinstance(n, ast.Call) and norm(n.func) in ("setattr", "delattr") and n.args and norm(n.args[0]) in ("node", "child"):
                ctx.viol("X2", f, n, "the exporter modifies the node it exports")
            if isinstance(n, ast.Call) and isinstance(n.func, ast.Attribute) and n.func.attr in MUT and "__dict__" in norm(n.func.value):
                ctx.viol("X2", f, n, "the exporter mutates the node's __dict__")
        ctx.inst("X2", f, f.node.name, "no store to the exported node")
    # ---------------------------------------------------------------- X3
    cfg = typer.cfg_of(ex)
    rec = find_calls(ex, lambda c: norm(c.func) in ("self.__export",))
    has_children_store = any(isinstance(n, ast.Assign) and isinstance(n.targets[0], ast.Subscript) and isinstance(n.targets[0].slice, ast.Constant)
                             and n.targets[0].slice.value == "children" for n in walk_own(ex.node))
    if not rec:
        if has_children_store:
            raise AnalysisError("C10: DictExporter.__export is not recursive - this implementation of the export is not followed")
        ctx.viol("X3", ex, ex.node, "no recursive export of the children", construct="__export: no recursion")
    fixed = ("node", "dictcls", "attriter", "childiter")
    qs = [x for x in ex.posparams if x != ex.selfname and x not in fixed]
    if not qs and rec:
        # no depth is carried: where does the cut come from?
        absolute = [n for n in walk_own(ex.node) if isinstance(n, ast.Attribute) and n.attr in ("depth", "path", "ancestors", "height", "_path")]
        if absolute:
            ctx.viol("X3", ex, absolute[0], "the export carries no depth of its own and consults `%s`: that is the node's position in the "
                     "whole tree, not its level relative to the exported start node - exporting a subtree cuts at the wrong level" % norm(absolute[0]),
                     construct="__export: absolute depth %s" % norm(absolute[0]))
        elif any(isinstance(n, ast.Attribute) and n.attr == "maxlevel" for n in walk_own(ex.node)):
            raise AnalysisError("C10: DictExporter.__export carries no depth parameter; how it applies maxlevel is not followed")
        else:
            ctx.viol("X3", ex, ex.node, "the recursive export neither carries a depth nor reads maxlevel: the limit has no effect",
                     construct="__export: maxlevel unused")
    elif len(qs) != 1:
        raise AnalysisError("C10: cannot identify the depth parameter of DictExporter.__export among %s" % (qs,))
    q = qs[0] if qs else None
    for c in rec:
        check_forwarding(ctx, "X3", ex, c, ex, {"node": lambda e: isinstance(e, ast.Name), "dictcls": "dictcls", "attriter": "attriter",
                                                "childiter": "childiter", **({q: (lambda e: True)} if q else {})})
    top = p.func("DictExporter", "export")
    ctx.touch(top)
    tc = find_calls(top, lambda c: norm(c.func) == "self.__export")
    if len(tc) == 1:
        expect_top = {"node": "node", "dictcls": lambda e: norm(e) == "self.dictcls", "attriter": lambda e: isinstance(e, ast.Name),
                      "childiter": lambda e: norm(e) == "self.childiter"}
        if q is not None and q in call_binding(tc[0], ex):
            expect_top[q] = lambda e: True
        check_forwarding(ctx, "X3", top, tc[0], ex, expect_top)
        for n in walk_own(top.node):
            if isinstance(n, ast.Assign) and norm(n.targets[0]) == "attriter":
                v = n.value
                def _identity(e):
                    if isinstance(e, ast.Lambda):
                        return len(e.args.args) == 1 and norm(e.body) == e.args.args[0].arg
                    if isinstance(e, ast.Name):
                        r_ = p.resolve_name(top.module, e.id)
                        if r_ is not None and r_[0] == "func":
                            from ..model import strip_doc
                            b_ = strip_doc(r_[1].node.body)
                            return len(r_[1].posparams) == 1 and len(b_) == 1 and isinstance(b_[0], ast.Return) and norm(b_[0].value) == r_[1].posparams[0]
                    return False
                good = isinstance(v, ast.BoolOp) and isinstance(v.op, ast.Or) and len(v.values) == 2 and norm(v.values[0]) == "self.attriter" \
                    and _identity(v.values[1])
                if good:
                    ctx.inst("X3", top, n, "attriter option or identity")
                else:
                    ctx.viol("X3", top, n, "attriter is not `self.attriter or identity`")
    else:
        ctx.viol("X3", top, top.node, "export() does not delegate to __export exactly once", construct="export: delegation")
    # attribute values: dictcls(attriter(self._iter_attr_values(node)))
    av = find_calls(ex, lambda c: norm(c.func) == "attriter")
    dc = find_calls(ex, lambda c: norm(c.func) == "dictcls")
    good = len(av) == 1 and len(dc) == 1 and len(av[0].args) == 1 and norm(av[0].args[0]) == "self._iter_attr_values(node)"
    if not good and dc and av:
        # every dictionary built in __export holds attriter(<the attribute items of some node>); the one for `node` itself is there;
        # a dictionary built for a child on the spot (instead of recursing for it) is a short cut that is not followed
        from .common import resolve_local as _rl

        def _items_of(e):
            """name of the node whose attribute items `e` denotes, through a local alias of the bound method"""
            if isinstance(e, ast.Call) and len(e.args) == 1 and isinstance(e.args[0], ast.Name) and not e.keywords:
                fn_ = _rl(ex, e.func) if isinstance(e.func, ast.Name) else e.func
                if norm(fn_) in ("self._iter_attr_values", "DictExporter._iter_attr_values"):
                    return e.args[0].id
            return None
        owners = []
        for d_ in dc:
            a_ = _rl(ex, d_.args[0]) if len(d_.args) == 1 and not d_.keywords else None
            o_ = _items_of(a_.args[0]) if isinstance(a_, ast.Call) and norm(a_.func) == "attriter" and len(a_.args) == 1 and not a_.keywords else None
            owners.append(o_)
        if all(o_ is not None for o_ in owners) and owners.count("node") == 1:
            good = True
            if len(owners) > 1:
                ctx.extra["X3_undecided"] = ctx.extra.get("X3_undecided") or \
                    "C10: DictExporter.__export builds the dictionary of a child on the spot instead of recursing for it: that this happens exactly where the recursion would export no children is not followed"
    if good:
        ctx.inst("X3", ex, av[0], "attriter applied to the node's attribute items")
    else:
        ctx.viol("X3", ex, ex.node, "attributes are not attriter(self._iter_attr_values(node)) in dictcls", construct="__export: attribute pipeline")
    ci = find_calls(ex, lambda c: norm(c.func) == "childiter")
    if len(ci) == 1 and [norm(a) for a in ci[0].args] == ["node.children"]:
        ctx.inst("X3", ex, ci[0], "children come from childiter(node.children)")
    else:
        ctx.viol("X3", ex, ex.node, "children are not obtained as childiter(node.children)", construct="__export: children source")
    # depth guard: start value, step and guard of the depth parameter, decided on the linear model (see depthmodel.py)
    from . import depthmodel as DM
    if len(tc) == 1 and rec and q is not None:
        try:
            ev_ex = DM.DepthEval(cfg, ex, {"self.maxlevel"}, q=q)
            top_cfg = typer.cfg_of(top)
            ev_top = DM.DepthEval(top_cfg, top, {"self.maxlevel"})
            b_top = call_binding(tc[0], ex)
            if q in b_top:
                tn = cfg_nodes_containing(top_cfg, tc[0])
                if not tn:
                    raise DM.Undecided("call site of __export in export()")
                start_alts = ev_top.ev(b_top[q], tn[0])
            else:
                d = ex.defaults.get(q)
                if not (isinstance(d, ast.Constant) and isinstance(d.value, int) and not isinstance(d.value, bool)):
                    raise DM.Undecided("default of `%s`" % q)
                start_alts = [(DM.const(d.value), frozenset())]
            for c in rec:
                rn = cfg_nodes_containing(cfg, c)
                if not rn:
                    raise DM.Undecided("recursive call site")
                got = call_binding(c, ex).get(q)
                if got is None:
                    ctx.viol("X3", ex, c, "the recursive export does not pass the depth on: every level starts counting again",
                             construct="__export: depth not passed")
                    continue
                step_alts = ev_ex.ev(got, rn[0])
                tests = DM.path_dnf(cfg, rn[0])
                DM.decide(ctx, "X3", ex, c, start_alts, step_alts, tests, ev_ex, "__export")
        except DM.Undecided as exc:
            ctx.extra["X3_undecided"] = "C10: the depth arithmetic of DictExporter.__export is not followed: %s" % exc
    for n in walk_own(ex.node):
        if isinstance(n, ast.Assign) and isinstance(n.targets[0], ast.Name) and n.targets[0].id == "maxlevel":
            if norm(n.value) == "self.maxlevel":
                ctx.inst("X3", ex, n, "depth limit read from the exporter option")
            else:
                ctx.viol("X3", ex, n, "depth limit is `%s`, not self.maxlevel" % norm(n.value))
    rets = [r for r in walk_own(ex.node) if isinstance(r, ast.Return)]
    own = {norm(n.targets[0]) for n in walk_own(ex.node) if isinstance(n, ast.Assign) and len(n.targets) == 1 and isinstance(n.targets[0], ast.Name)
           and any(x in dc for x in ast.walk(n.value))}
    for r in rets:
        if r.value is not None and (norm(r.value) in own or any(x in dc for x in ast.walk(r.value))):
            ctx.inst("X3", ex, r, "the node's own dict is returned")
        else:
            ctx.viol("X3", ex, r, "a path of the export returns `%s`, not the node's own dict: the start node must always be exported" % (
                norm(r.value) if r.value is not None else "None"), construct="__export: return of something else")
    if any(lab == "fall" and p.id in cfg.reachable_nodes() for p, lab in cfg.exit.pred):
        ctx.viol("X3", ex, ex.node, "a path of the export falls off the end without returning the node's dict", construct="__export: falls off the end")
    # ---------------------------------------------------------------- X4
    stores = [n for n in walk_own(ex.node) if isinstance(n, ast.Assign) and isinstance(n.targets[0], ast.Subscript)
              and isinstance(n.targets[0].slice, ast.Constant) and n.targets[0].slice.value == "children"]
    if not stores:
        ctx.viol("X4", ex, ex.node, "exported children are never stored under 'children'", construct="__export: no children key")
    for s_ in stores:
        v = s_.value
        okx = False
        for cn in cfg.nodes_of(s_):
            for c, o, _ in cfg.guards_of(cn):
                if isinstance(c, ast.Name) and isinstance(v, ast.Name) and c.id == v.id and o is True:
                    okx = True
        src_ok = False
        if isinstance(v, ast.Name):
            for n in walk_own(ex.node):
                val_ = n.value if isinstance(n, ast.Assign) else None
                if isinstance(val_, ast.Call) and isinstance(val_.func, ast.Name) and val_.func.id in ("list", "tuple") and len(val_.args) == 1 \
                        and isinstance(val_.args[0], (ast.GeneratorExp, ast.ListComp)):
                    val_ = val_.args[0]
                if isinstance(n, ast.Assign) and norm(n.targets[0]) == v.id and isinstance(val_, (ast.ListComp, ast.GeneratorExp)) \
                        and any(x in rec for x in ast.walk(val_.elt)) and len(val_.generators) == 1 and not val_.generators[0].ifs:
                    src_ok = True
            # loop form: for child in childiter(...): <list>.append(<recursive export>) on every path
            for li in cfg.nodes:
                if li.kind == "loopin" and isinstance(li.ast.iter, ast.Call) and norm(li.ast.iter.func) == "childiter":
                    heads = [h for h in cfg.nodes if h.kind == "fornext" and h.ast is li.ast]
                    adders = [a for a in cfg.nodes if a.kind == "stmt" and isinstance(a.ast, (ast.Expr, ast.AugAssign)) and cfg.dominates(li, a) and (
                        (isinstance(a.ast, ast.Expr) and isinstance(a.ast.value, ast.Call) and isinstance(a.ast.value.func, ast.Attribute)
                         and a.ast.value.func.attr == "append" and norm(a.ast.value.func.value) == v.id) or
                        (isinstance(a.ast, ast.AugAssign) and norm(a.ast.target) == v.id))]
                    if adders and heads:
                        reach = cfg.reach_from(li, avoid=adders, labels_excluded=("exc",))
                        fed = all(_fed_by_rec(ex, a.ast, rec) for a in adders)
                        if not any(h.id in reach for h in heads) and cfg.exit.id not in reach and fed:
                            src_ok = True
        if okx and src_ok:
            ctx.inst("X4", ex, s_, "'children' stored only when the exported list is non-empty, all children in order")
        else:
            ctx.viol("X4", ex, s_, "'children' is not stored exactly when the list of all exported children is non-empty")
    # ---------------------------------------------------------------- X5
    ctor = find_calls(imp, lambda c: norm(c.func) == "self.nodecls")
    attrs_name = next(iter(shallow), None)
    builds = find_calls(imp, lambda c: any(k.arg == "parent" for k in c.keywords) and any(k.arg is None for k in c.keywords))
    _orig_viol = ctx.viol
    if (not ctor and builds) or len(builds) > 1:
        # the node is built in more than one place / through something else than self.nodecls (a leaf fast path, the class handed
        # down the recursion): the pinned shape of the import is gone - no verdict for X5 rather than a list of mismatches
        ctx.extra["X3_undecided"] = ctx.extra.get("X3_undecided") or \
            "C10: DictImporter.__import builds the node in %d place(s), not through one self.nodecls(parent=parent, **attrs): this implementation of the import is not followed" % len(builds)
        ctx.viol = lambda rule, *a, **k: None if rule == "X5" else _orig_viol(rule, *a, **k)
    if len(ctor) == 1:
        c = ctor[0]
        kw = {k.arg: k.value for k in c.keywords}
        parentp = imp.posparams[2] if len(imp.posparams) > 2 else "parent"
        good = not c.args and norm(kw.get("parent")) == parentp and None in kw and isinstance(kw[None], ast.Name) and kw[None].id in shallow \
            and len(c.keywords) == 2
        if good:
            ctx.inst("X5", imp, c, "node built as nodecls(parent=parent, **<copy of the dict>)")
        else:
            ctx.viol("X5", imp, c, "node is not built as nodecls(parent=parent, **attrs) from the private copy")
    else:
        ctx.viol("X5", imp, imp.node, "node construction through self.nodecls not found", construct="__import: nodecls call")
    pops = [n for n in walk_own(imp.node) if isinstance(n, ast.Call) and isinstance(n.func, ast.Attribute) and n.func.attr == "pop"]
    keys = [n.args[0].value for n in pops if n.args and isinstance(n.args[0], ast.Constant)]
    if keys == ["children"]:
        ctx.inst("X5", imp, pops[0], "exactly the key 'children' is removed from the attributes")
    else:
        ctx.viol("X5", imp, imp.node, "attributes are the copy minus %s, expected exactly ['children']" % keys, construct="__import: removed keys %s" % keys)
    recs = find_calls(imp, lambda c: norm(c.func) == "self.__import")
    if not recs and any(isinstance(n_, (ast.While, ast.For)) for n_ in walk_own(imp.node)) and ctor:
        # an importer that walks the dictionary with its own stack/queue instead of recursing: order of creation and the parent
        # handed to each node are not followed by the rules below
        ctx.extra["X3_undecided"] = ctx.extra.get("X3_undecided") or "C10: DictImporter.__import is not recursive - this implementation of the import is not followed"
        recs = None
    node_name = None
    for n in walk_own(imp.node):
        if isinstance(n, ast.Assign) and ctor and n.value is ctor[0] and isinstance(n.targets[0], ast.Name):
            node_name = n.targets[0].id
    loops = [n for n in walk_own(imp.node) if isinstance(n, ast.For)]
    okr = recs is None
    recs = recs or []
    for lp in loops:
        if isinstance(lp.iter, ast.Name) and lp.iter.id in nested and isinstance(lp.target, ast.Name):
            for c in recs:
                if any(x is c for x in ast.walk(lp)):
                    b = call_binding(c, imp)
                    parentp = imp.posparams[2] if len(imp.posparams) > 2 else "parent"
                    extra = {k_: v_ for k_, v_ in b.items() if k_ not in (datap, parentp)}
                    # further parameters (bookkeeping such as the set of dicts on the current path) are handed on as they are
                    if norm(b.get(datap)) == lp.target.id and norm(b.get(parentp)) == node_name \
                            and all(isinstance(v_, ast.Name) and v_.id == k_ for k_, v_ in extra.items()):
                        okr = True
                        skipped = _skipped_children(typer.cfg_of(imp), lp, c)
                        if skipped == "falsy":
                            ctx.viol("X5", imp, lp, "a child entry is skipped when it is falsy: an attribute-less leaf is exported as the empty "
                                     "dictionary `{}`, which is falsy, so that node is dropped on import and the imported tree has fewer nodes "
                                     "than the exported one", construct="__import: falsy children skipped")
                        elif skipped:
                            ctx.extra["X3_undecided"] = ctx.extra.get("X3_undecided") or \
                                "C10: DictImporter.__import does not import every entry of the children list (%s): whether an exported child can be skipped is not followed" % skipped
    if okr and ctx.extra.get("X3_undecided", "").startswith("C10: DictImporter"):
        pass
    elif okr:
        ctx.inst("X5", imp, loops[0], "children imported in list order with parent=<node just built>")
    else:
        ctx.viol("X5", imp, imp.node, "children are not imported in list order by recursing with (child, parent=<node just built>)",
                 construct="__import: recursion")
    rets = [r for r in walk_own(imp.node) if isinstance(r, ast.Return)]
    if ctx.extra.get("X3_undecided", "").startswith("C10: DictImporter"):
        pass
    elif len(rets) == 1 and norm(rets[0].value) == node_name:
        ctx.inst("X5", imp, rets[0], "returns the node built for this dict")
    else:
        ctx.viol("X5", imp, imp.node, "__import does not return the node it built", construct="__import: return")
    top = p.func("DictImporter", "import_")
    ctx.touch(top)
    tc = find_calls(top, lambda c: norm(c.func) == "self.__import")
    rets = [r for r in walk_own(top.node) if isinstance(r, ast.Return)]
    def _top_ok(c):
        b = call_binding(c, imp)
        parentp_ = imp.posparams[2] if len(imp.posparams) > 2 else "parent"
        if norm(b.get(datap)) != top.posparams[1]:
            return False
        if parentp_ in b and not (isinstance(b[parentp_], ast.Constant) and b[parentp_].value is None):
            return False
        for k_, v_ in b.items():
            if k_ in (datap, parentp_):
                continue
            fresh = (isinstance(v_, ast.Call) and isinstance(v_.func, ast.Name) and v_.func.id in ("set", "list", "dict") and not v_.args) \
                or (isinstance(v_, (ast.List, ast.Dict, ast.Tuple)) and not getattr(v_, "elts", getattr(v_, "keys", []))) \
                or (isinstance(v_, ast.Constant) and v_.value in (None, 0))
            if not fresh:
                return False
        return True
    if len(tc) == 1 and len(rets) == 1 and rets[0].value is tc[0] and _top_ok(tc[0]):
        ctx.inst("X5", top, tc[0], "import_ delegates with the data unchanged and no parent")
    else:
        ctx.viol("X5", top, top.node, "import_ does not return self.__import(data)", construct="import_: delegation")
    ctx.viol = _orig_viol
    # ---------------------------------------------------------------- X7 bookkeeping that can refuse an input
    # a container handed down the recursion whose membership test ends in a raise: it must hold the dicts on the CURRENT
    # path only (every add is undone on every normal path to the exit) - otherwise a dictionary object that merely occurs
    # twice (a shared leaf) is refused although it is a valid export-shaped input
    icfg = typer.cfg_of(imp)
    params = [q for q in imp.posparams if q != imp.selfname]
    for prm in params:
        adds = [cn for cn in icfg.nodes if cn.kind == "stmt" and isinstance(cn.ast, ast.Expr) and isinstance(cn.ast.value, ast.Call)
                and isinstance(cn.ast.value.func, ast.Attribute) and cn.ast.value.func.attr in ("add", "append")
                and norm(cn.ast.value.func.value) == prm and len(cn.ast.value.args) == 1]
        if not adds:
            continue
        refusing = []
        for rn in icfg.stmt_nodes(("raisestmt",)):
            for c_, o_, _g in icfg.guards_of(rn):
                if isinstance(c_, ast.Compare) and len(c_.ops) == 1 and isinstance(c_.ops[0], (ast.In, ast.NotIn)) and norm(c_.comparators[0]) == prm \
                        and (o_ is True) == isinstance(c_.ops[0], ast.In):
                    refusing.append(rn)
        if not refusing:
            continue
        for an in adds:
            key = norm(an.ast.value.args[0])
            removers = [cn for cn in icfg.nodes if cn.kind == "stmt" and isinstance(cn.ast, ast.Expr) and isinstance(cn.ast.value, ast.Call)
                        and isinstance(cn.ast.value.func, ast.Attribute) and cn.ast.value.func.attr in ("remove", "discard", "pop")
                        and norm(cn.ast.value.func.value) == prm
                        and (not cn.ast.value.args or norm(cn.ast.value.args[0]) == key or cn.ast.value.func.attr == "pop")]
            reach = icfg.reach_from(an, avoid=removers, labels_excluded=("exc",))
            if icfg.exit.id in reach:
                ctx.viol("X7", imp, an.ast, "`%s` is added to `%s`, which is tested before a raise, and is not taken out again on every normal "
                         "path to the end of the call: the container holds every dict seen so far instead of the dicts on the current path, "
                         "so a dictionary object that occurs twice in a valid input is refused" % (key, prm),
                         construct="__import: %s.add(%s) not undone" % (prm, key))
            else:
                ctx.inst("X7", imp, an.ast, "`%s` holds the dicts on the current path only (add undone on every normal path)" % prm)
    # ---------------------------------------------------------------- X6
    for cname in ("Node", "AnyNode"):
        init = p.func(cname, "__init__")
        ctx.touch(init)
        kw = init.node.args.kwarg.arg if init.node.args.kwarg else None
        if kw is None:
            ctx.viol("X6", init, init.node, "%s.__init__ no longer accepts arbitrary keyword attributes" % cname, construct="%s.__init__ kwargs" % cname)
            continue
        direct = [c for c in walk_own(init.node) if isinstance(c, ast.Call) and isinstance(c.func, ast.Attribute) and c.func.attr == "update"
                  and norm(c.func.value) in ("%s.__dict__" % init.selfname, "vars(%s)" % init.selfname) and [norm(a) for a in c.args] == [kw]]
        via_setattr = [c for c in walk_own(init.node) if isinstance(c, ast.Call) and norm(c.func) in ("setattr", "object.__setattr__")
                       and c.args and norm(c.args[0]) == init.selfname]
        item = [n_ for n_ in walk_own(init.node) if isinstance(n_, ast.Subscript) and isinstance(n_.ctx, ast.Store)
                and norm(n_.value) == "%s.__dict__" % init.selfname]
        if via_setattr:
            ctx.viol("X6", init, via_setattr[0], "keyword attributes are stored with setattr(): names that coincide with the read-only "
                     "navigation properties (size, path, depth, ...) are rejected, so such attribute dictionaries no longer import")
        elif direct or item:
            ctx.inst("X6", init, (direct or item)[0], "keyword attributes go straight into the instance dict (any key is storable)")
        else:
            ctx.viol("X6", init, init.node, "keyword attributes are not stored in the instance dict", construct="%s.__init__: kwargs not stored" % cname)
    ctx.floor("X6", 2)
    rule_init_stores(ctx, "DictExporter", rule="X3")
    rule_init_stores(ctx, "DictImporter", rule="X5")
    rule_optint_truthiness(ctx, typer, {DE, DI}, rule="X3")
    if ctx.extra.get("X3_undecided") and not ctx.new_findings():
        raise AnalysisError(ctx.extra["X3_undecided"])
    ctx.floor("X1", 3)
    ctx.floor("X2", 4)
    ctx.floor("X3", 12)
    ctx.floor("X4", 1)
    ctx.floor("X5", 4)
