"""C15 — Walker.walk: structural clauses of "the unique tree path between two nodes"."""

import ast

from ..model import AnalysisError, Func, norm
from ..purity import Purity
from .common import typer_for, walk_own

PROP = "C15"
LEVEL = "other"
TECHNIQUE = ("static analysis: CFG dominance (same-tree guard), provenance evaluation of the returned triple over reaching "
             "definitions with their guards, shape check of the common-prefix helper, effect analysis")
EXPLANATION = (
    "Decides the structural, necessary clauses of the property, not the values for particular trees. K1 every normal "
    "return of Walker.walk is dominated by an identity comparison of start.root with end.root that came out 'same', and the "
    "'different' outcome raises WalkError (nodes of different trees are refused). K2 provenance of the returned triple, "
    "evaluated symbolically over the reaching definitions of every name together with the guards of each definition: the "
    "first component is the reversed part of start's root-down path behind the common prefix (all of it: the slice starts "
    "at len(common)), the third the part of end's path behind the common prefix in path order, the second the LAST "
    "element of the common prefix; an empty tuple is accepted only under the identity guard `start/end is common[-1]`, "
    "where the slice is empty anyway. Swapped paths, a missing or extra `reversed`, a slice that starts one element early "
    "or late, common[0] instead of common[-1] are each reported. K3 the common prefix is computed by pairing the two "
    "root-down paths positionally (zip) and keeping the elements that are identical (`is`) - a filter on value equality or "
    "on one path only is reported (identity itself is also C17's subject); a scan loop over the zipped paths that stops at the "
    "first pair of different objects, and a loop/helper that counts the leading identical positions, are the same computation "
    "(its end test must compare numbers by value, `path[0]` is the root, `last is None` after the scan means different trees). K4 walk is effect-free (it cannot disturb the "
    "tree it describes). Not decided: that paths of nodes of one tree share exactly a prefix (C01/C04), so that the "
    "positional matches are that prefix; the concrete tuples for a given tree. An implementation that derives the triple in "
    "another way (walking parents, sets of ancestors) is answered with 'cannot follow' (ANALYSIS-ERROR), not with a verdict."
    " Added in round 16: K5 neighbour short cuts (`end.parent is start`) are instances of the general walk; a walk that climbs the parent links itself gets no verdict."
)
ASSUMPTIONS = ["node.path is the root-down tuple ending in the node (C04's subject)", "tuple/reversed/zip/len are the builtins"]
WALKER = "anytree/walker.py"


class _Undecided(Exception):
    pass


# abstract values
class V(tuple):
    def __new__(cls, *a):
        return tuple.__new__(cls, a)

    def __repr__(self):
        return "%s(%s)" % (self[0], ", ".join(str(x) for x in self[1:]))


def show(v):
    k = v[0]
    if k == "node":
        return v[1]
    if k == "path":
        return "%s.path" % v[1]
    if k == "root":
        return "%s.root" % v[1]
    if k == "slice":
        return "%s%s.path[%s:]" % ("reversed " if v[3] else "", v[1], v[2])
    if k == "common":
        return "common(%s, %s)" % (v[1], v[2])
    if k == "elem":
        return "common[%s]" % v[1]
    if k == "empty":
        return "()"
    if k == "scanlast":
        return "<last node at which the two paths agree, or None>"
    if k == "int":
        return str(v[1])
    return str(tuple(v))


def _is_climb_helper(h):
    """generator `def f(n, t): while n is not t: yield n; n = n.parent`"""
    ps = [p for p in h.posparams if p != h.selfname]
    body = [st for st in h.node.body if not (isinstance(st, ast.Expr) and isinstance(st.value, ast.Constant))]
    if len(ps) != 2 or len(body) != 1 or not isinstance(body[0], ast.While) or body[0].orelse:
        return False
    n_, t_ = ps
    w = body[0]
    tst = w.test
    if not (isinstance(tst, ast.Compare) and len(tst.ops) == 1 and isinstance(tst.ops[0], ast.IsNot)
            and sorted([norm(tst.left), norm(tst.comparators[0])]) == sorted([n_, t_])):
        return False
    if len(w.body) != 2:
        return False
    y, step = w.body
    return isinstance(y, ast.Expr) and isinstance(y.value, ast.Yield) and norm(y.value.value) == n_ \
        and isinstance(step, ast.Assign) and norm(step.targets[0]) == n_ and norm(step.value) == "%s.parent" % n_


def reaching_defs(cfgnode, name, limit=600):
    """assignment CFG nodes whose binding of ``name`` reaches the node; None if another binding form or the entry
    (unbound / parameter) can reach it"""
    found, seen = [], set()
    stack = [p for p, lab in cfgnode.pred if lab != "exc"]
    steps = 0
    while stack:
        n = stack.pop()
        if n.id in seen:
            continue
        seen.add(n.id)
        steps += 1
        if steps > limit:
            return None
        a = n.ast
        if n.kind == "stmt" and isinstance(a, ast.Assign) and all(isinstance(t, ast.Name) for t in a.targets) \
                and any(t.id == name for t in a.targets):
            found.append(n)
            continue
        if n.kind in ("stmt", "fornext", "with") and a is not None and not isinstance(a, (ast.If, ast.While, ast.Try)):
            tgt = a.target if isinstance(a, ast.For) else a
            if any(isinstance(x, ast.Name) and x.id == name and isinstance(x.ctx, ast.Store) for x in ast.walk(tgt)):
                return None
        preds = [p for p, lab in n.pred if lab != "exc"]
        if not preds:
            return None
        stack.extend(preds)
    return found


class Evaluator:
    """symbolic evaluation of walk's expressions to provenance values; every result is a list of (value, guards) where
    guards are (cond, outcome) pairs the alternative depends on"""

    def __init__(self, ctx, typer, func, start, end):
        self.ctx, self.typer, self.f = ctx, typer, func
        self.cfg = typer.cfg_of(func)
        self.start, self.end = start, end
        self.depth = 0
        self.helpers_checked = {}

    def ev(self, e, at):
        self.depth += 1
        try:
            if self.depth > 60:
                raise _Undecided("expression too deep: %s" % norm(e))
            return self._ev(e, at)
        finally:
            self.depth -= 1

    def _path_guards(self, d, use, others):
        """guards every path from definition d to the use takes when it avoids the other definitions of the name"""
        reach = self.cfg.reach_from(d, avoid=others, labels_excluded=("exc",))
        out = []
        for g in self.cfg.nodes:
            if g.kind != "guard" or g.id not in reach:
                continue
            r2 = self.cfg.reach_from(d, avoid=list(others) + [g], labels_excluded=("exc",))
            if use.id not in r2:
                out.append((g.cond, g.outcome))
        return tuple(out)

    def one(self, e, at):
        r = self.ev(e, at)
        vals = {v for v, g in r}
        if len(vals) != 1:
            raise _Undecided("`%s` has several provenances here: %s" % (norm(e), sorted(show(v) for v in vals)))
        return next(iter(vals))

    def _ev(self, e, at):
        if isinstance(e, ast.Name):
            if e.id in (self.start, self.end):
                stores = [n for n in walk_own(self.f.node) if isinstance(n, ast.Name) and n.id == e.id and isinstance(n.ctx, ast.Store)]
                if not stores:
                    return [(V("node", "start" if e.id == self.start else "end"), ())]
            sc = self._scan_var(e.id, at)
            if sc is None:
                sc = self._while_scan_var(e.id, at)
            if sc is not None:
                return [(sc, ())]
            defs = reaching_defs(at, e.id)
            if not defs:
                raise _Undecided("cannot find the definition of `%s`" % e.id)
            out = []
            for d in defs:
                gs = tuple((c, o) for c, o, _ in self.cfg.guards_of(d))
                if len(defs) > 1:
                    gs = gs + self._path_guards(d, at, [x for x in defs if x is not d])
                for v, g in self.ev(d.ast.value, d):
                    out.append((v, g + gs))
            return out
        if isinstance(e, ast.Constant) and isinstance(e.value, int) and not isinstance(e.value, bool):
            return [(V("int", e.value), ())]
        if isinstance(e, ast.Tuple) and not e.elts:
            return [(V("empty"), ())]
        if isinstance(e, ast.IfExp):
            out = []
            for v, g in self.ev(e.body, at):
                out.append((v, g + ((e.test, True),)))
            for v, g in self.ev(e.orelse, at):
                out.append((v, g + ((e.test, False),)))
            return out
        if isinstance(e, ast.Attribute):
            base = self.one(e.value, at)
            if base[0] == "node" and e.attr == "path":
                return [(V("path", base[1]), ())]
            if base[0] == "node" and e.attr == "root":
                return [(V("root", base[1]), ())]
            raise _Undecided("attribute `%s` is not part of the path computation" % norm(e))
        if isinstance(e, ast.UnaryOp) and isinstance(e.op, ast.USub) and isinstance(e.operand, ast.Constant) and isinstance(e.operand.value, int):
            return [(V("int", -e.operand.value), ())]
        if isinstance(e, ast.BinOp) and isinstance(e.op, (ast.Add, ast.Sub)):
            l, r = self.one(e.left, at), self.one(e.right, at)
            if l[0] == "int" and r[0] == "int":
                sign = 1 if isinstance(e.op, ast.Add) else -1
                if isinstance(l[1], int) and isinstance(r[1], int):
                    return [(V("int", l[1] + sign * r[1]), ())]
                if isinstance(l[1], str) and l[1].startswith("search:") and isinstance(r[1], int):
                    return [(V("int", "%s%+d" % (l[1], sign * r[1])), ())]
                if l[1] == "L" and isinstance(r[1], int):
                    k = sign * r[1]
                    return [(V("int", "L" if k == 0 else "L%+d" % k), ())]
            raise _Undecided("arithmetic `%s`" % norm(e))
        if isinstance(e, ast.Call) and not e.keywords:
            fn = e.func
            if isinstance(fn, ast.Name) and fn.id == "tuple":
                if not e.args:
                    return [(V("empty"), ())]
                return self.ev(e.args[0], at)
            if isinstance(fn, ast.Name) and fn.id == "list" and len(e.args) == 1:
                return self.ev(e.args[0], at)
            if isinstance(fn, ast.Name) and fn.id == "reversed" and len(e.args) == 1:
                out = []
                for v, g in self.ev(e.args[0], at):
                    out.append((self._reverse(v, e), g))
                return out
            if isinstance(fn, ast.Name) and fn.id == "len" and len(e.args) == 1:
                v = self.one(e.args[0], at)
                if v[0] == "common":
                    return [(V("int", "L"), ())]
                raise _Undecided("len of %s" % show(v))
            if isinstance(fn, ast.Attribute) and fn.attr in ("index", "count") and len(e.args) >= 1:
                base = self.one(fn.value, at)
                if base[0] in ("path", "slice", "common"):
                    return [(V("int", "search:%s" % norm(e)), ())]
            callee = self._resolve(e)
            if callee is not None and len(e.args) == 2 and _is_climb_helper(callee):
                # `while n is not t: yield n; n = n.parent`: from the first argument upwards, the second one excluded
                who, bound = self.one(e.args[0], at), self.one(e.args[1], at)
                if who[0] == "node":
                    if bound == V("elem", "last") or bound == V("scanlast"):
                        return [(V("slice", who[1], "L", True), ())]
                    if bound[0] == "root" or bound == V("elem", "first"):
                        return [(V("slice", who[1], 1, True), ())]
                raise _Undecided("climb `%s` from %s up to %s" % (norm(e), show(who), show(bound)))
            if callee is not None:
                args = [self.one(a, at) for a in e.args]
                if len(args) == 2 and all(a[0] == "path" for a in args):
                    if self._is_length_helper(callee):
                        return [(V("int", "L"), ())]
                    self._check_common_helper(callee)
                    return [(V("common", args[0][1], args[1][1]), ())]
                raise _Undecided("call `%s` with %s" % (norm(e), [show(a) for a in args]))
            raise _Undecided("call `%s`" % norm(e))
        if isinstance(e, ast.Subscript):
            base_alts = self.ev(e.value, at)
            out = []
            for base, g in base_alts:
                if isinstance(e.slice, ast.Slice):
                    sl = e.slice
                    step = None
                    if sl.step is not None:
                        st = self.one(sl.step, at)
                        if st != V("int", -1) and st != V("int", 1):
                            raise _Undecided("slice step in `%s`" % norm(e))
                        step = st[1]
                    lo = self.one(sl.lower, at) if sl.lower is not None else None
                    hi = self.one(sl.upper, at) if sl.upper is not None else None
                    if step == -1:
                        if lo is None and hi is not None and hi[0] == "int" and isinstance(hi[1], str) and base[0] == "path":
                            # p[:k-1:-1] walks from the end down to index k: the reversed tail p[k:] (k >= 1)
                            k = {"L-1": "L", "L-2": "L-1", "L": "L+1"}.get(hi[1], "%s+1" % hi[1])
                            out.append((V("slice", base[1], k, True), g))
                            continue
                        if lo is not None or hi is not None:
                            raise _Undecided("reversing slice with bounds `%s`" % norm(e))
                        out.append((self._reverse(base, e), g))
                        continue
                    if hi is not None:
                        raise _Undecided("slice with an upper bound `%s`" % norm(e))
                    lo_t = 0 if lo is None else lo[1]
                    if base[0] == "path":
                        out.append((V("slice", base[1], lo_t, False), g))
                    elif base[0] == "slice" and lo_t == 0:
                        out.append((base, g))
                    else:
                        raise _Undecided("slice of %s" % show(base))
                else:
                    idx = self.one(e.slice, at)
                    if base[0] == "common" and idx[0] == "int":
                        i = idx[1]
                        if i == -1 or i == "L-1":
                            out.append((V("elem", "last"), g))
                        elif i == 0:
                            out.append((V("elem", "first"), g))
                        else:
                            out.append((V("elem", str(i)), g))
                    elif base[0] == "path" and idx == V("int", 0):
                        out.append((V("root", base[1]), g))  # a root-down path starts at the root (C04)
                    elif base[0] == "path" and idx == V("int", "L-1"):
                        out.append((V("elem", "last"), g))  # the first L positions of both paths are the common prefix
                    elif base[0] == "path" and idx[0] == "int" and isinstance(idx[1], str) and idx[1].startswith("L"):
                        out.append((V("elem", "path[%s]" % idx[1]), g))
                    else:
                        raise _Undecided("index `%s`" % norm(e))
            return out
        if isinstance(e, (ast.GeneratorExp, ast.ListComp)) and len(e.generators) == 1:
            g = e.generators[0]
            it = g.iter
            if isinstance(it, ast.Call) and isinstance(it.func, ast.Name) and it.func.id == "zip" and len(it.args) == 2 and not it.keywords:
                a, b = self.one(it.args[0], at), self.one(it.args[1], at)
                if a[0] == "path" and b[0] == "path":
                    self._check_pairing(self.f, e, g.target, True, list(g.ifs), e.elt, "the common part in %s" % self.f.qual)
                    return [(V("common", a[1], b[1]), ())]
            # a selection of (a part of) a path by a per-element filter
            if isinstance(g.target, ast.Name) and isinstance(e.elt, ast.Name) and e.elt.id == g.target.id:
                try:
                    src = self.one(it, at)
                except _Undecided:
                    src = None
                if src is not None and src[0] in ("path", "slice"):
                    who = src[1]
                    return [(V("filtered", who, " and ".join(norm(c) for c in g.ifs) or "no test"), ())]
            raise _Undecided("comprehension `%s`" % norm(e))
        raise _Undecided("expression `%s`" % norm(e))

    def _check_pairing(self, func, where, tgt, zipped, test, kept, what):
        ctx = self.ctx
        names = [x.id for x in tgt.elts] if isinstance(tgt, ast.Tuple) and all(isinstance(x, ast.Name) for x in tgt.elts) else []
        if not zipped or len(names) != 2:
            ctx.viol("K3", func, where, "%s is not computed by pairing the two root-down paths position by position "
                     "(zip of both paths)" % what, construct="%s pairing" % func.qual)
            return
        ok_test = len(test) == 1 and isinstance(test[0], ast.Compare) and len(test[0].ops) == 1 and isinstance(test[0].ops[0], ast.Is) \
            and sorted([norm(test[0].left), norm(test[0].comparators[0])]) == sorted(names)
        if not ok_test:
            ctx.viol("K3", func, test[0] if test else where, "a pair is kept under `%s`, not exactly when the two nodes at that position are "
                     "the same object: nodes that merely compare equal (or any other filter) change the common part" % (
                         " and ".join(norm(t) for t in test) if test else "no test"), construct="%s keeps pairs under a different test" % func.qual)
        elif not (isinstance(kept, ast.Name) and kept.id in names):
            ctx.viol("K3", func, where, "the common part is built from `%s`, not from the paired nodes" % (norm(kept) if kept is not None else "?"),
                     construct="%s element" % func.qual)
        else:
            ctx.inst("K3", func, where, "positional pairs of the two paths kept when identical")

    # ---- prefix scan written as a loop: `for s, e in zip(startpath, endpath): if s is not e: break; last = s; n += 1`
    def _scan_loops(self):
        if hasattr(self, "_scans"):
            return self._scans
        self._scans = []
        for lp in [n for n in walk_own(self.f.node) if isinstance(n, ast.For)]:
            it = lp.iter
            if not (isinstance(it, ast.Call) and isinstance(it.func, ast.Name) and it.func.id == "zip" and len(it.args) == 2 and not it.keywords):
                continue
            node = next((n for n in self.cfg.nodes if n.ast is lp and n.kind in ("foriter", "fornext")), None)
            if node is None:
                continue
            try:
                a, b = self.one(it.args[0], node), self.one(it.args[1], node)
            except _Undecided:
                continue
            if not (a[0] == "path" and b[0] == "path" and {a[1], b[1]} == {"start", "end"}):
                continue
            tgt = lp.target
            names = [x.id for x in tgt.elts] if isinstance(tgt, ast.Tuple) and len(tgt.elts) == 2 and all(isinstance(x, ast.Name) for x in tgt.elts) else None
            if names is None or lp.orelse or not lp.body:
                raise _Undecided("loop over the zipped paths in %s" % self.f.qual)
            first = lp.body[0]
            okbreak = isinstance(first, ast.If) and not first.orelse and len(first.body) == 1 and isinstance(first.body[0], ast.Break)
            if not okbreak:
                raise _Undecided("loop over the zipped paths in %s does not stop at the first difference" % self.f.qual)
            t = first.test
            ident = isinstance(t, ast.Compare) and len(t.ops) == 1 and isinstance(t.ops[0], ast.IsNot) \
                and sorted([norm(t.left), norm(t.comparators[0])]) == sorted(names)
            if not ident:
                self.ctx.viol("K3", self.f, t, "the scan of the two paths stops under `%s`, not exactly when the two nodes at a position are "
                              "different objects: nodes that merely compare equal (or any other test) change the common part" % norm(t),
                              construct="%s scan stops under a different test" % self.f.qual)
            else:
                self.ctx.inst("K3", self.f, lp, "positional pairs of the two paths scanned while identical")
            last, count = set(), set()
            for st_ in lp.body[1:]:
                if isinstance(st_, ast.Assign) and len(st_.targets) == 1 and isinstance(st_.targets[0], ast.Name) \
                        and isinstance(st_.value, ast.Name) and st_.value.id in names:
                    last.add(st_.targets[0].id)
                elif isinstance(st_, ast.AugAssign) and isinstance(st_.op, ast.Add) and isinstance(st_.target, ast.Name) \
                        and isinstance(st_.value, ast.Constant) and st_.value.value == 1:
                    count.add(st_.target.id)
                else:
                    raise _Undecided("statement `%s` in the scan loop of %s" % (norm(st_)[:50], self.f.qual))
            # initial values: None for the last common node, 0 for the counter; no other binding anywhere
            for v in last | count:
                stores = [n for n in walk_own(self.f.node) if isinstance(n, ast.Name) and n.id == v and isinstance(n.ctx, ast.Store)]
                inits = []
                for n in walk_own(self.f.node):
                    if isinstance(n, ast.Assign) and any(isinstance(t_, ast.Name) and t_.id == v for t_ in n.targets) \
                            and not any(n is x for x in ast.walk(lp)):
                        inits.append(n)
                inside = [x for x in ast.walk(lp) if isinstance(x, ast.Name) and x.id == v and isinstance(x.ctx, ast.Store)]
                want = None if v in last else 0
                if len(inits) != 1 or len(stores) != len(inits) + len(inside) or not (isinstance(inits[0].value, ast.Constant) and inits[0].value.value == want
                                                                                         and type(inits[0].value.value) is type(want)) \
                        or inits[0].lineno > lp.lineno:
                    if len(inits) == 1 and isinstance(inits[0].value, ast.Constant) and inits[0].lineno < lp.lineno and v in count \
                            and len(stores) == len(inits) + len(inside):
                        self.ctx.viol("K2", self.f, inits[0], "the counter of common positions starts at %r, not 0: every slice taken with it "
                                      "is shifted" % inits[0].value.value, construct="%s scan counter start" % self.f.qual)
                        continue
                    raise _Undecided("initialisation of `%s` for the scan loop of %s" % (v, self.f.qual))
            self._scans.append((lp, last, count))
        return self._scans

    def _scan_var(self, name, at):
        for lp, last, count in self._scan_loops():
            if name in last or name in count:
                end = getattr(lp, "end_lineno", lp.lineno)
                a = at.ast
                if a is not None and getattr(a, "lineno", 0) > end:
                    return V("scanlast") if name in last else V("int", "L")
                raise _Undecided("`%s` is read inside its scan loop" % name)
        return None

    def _while_scan_var(self, name, at):
        """the counting scan written inline in walk (e.g. after the helper was inlined)"""
        if not hasattr(self, "_wscans"):
            self._wscans = {}
            for wl in [n for n in walk_own(self.f.node) if isinstance(n, ast.While)]:
                if wl.orelse or len(wl.body) != 1:
                    continue
                inc = wl.body[0]
                if not (isinstance(inc, ast.AugAssign) and isinstance(inc.op, ast.Add) and isinstance(inc.target, ast.Name)
                        and isinstance(inc.value, ast.Constant) and inc.value.value == 1):
                    continue
                idx = inc.target.id
                subs = sorted({norm(x.value) for x in ast.walk(wl.test) if isinstance(x, ast.Subscript) and norm(x.slice) == idx
                               and isinstance(x.value, ast.Name)})
                if len(subs) != 2:
                    continue
                node = next((n for n in self.cfg.nodes if n.ast is wl or (n.kind in ("test", "guard") and getattr(n, "cond", None) is wl.test)), None)
                stores = [n for n in walk_own(self.f.node) if isinstance(n, ast.Name) and n.id == idx and isinstance(n.ctx, ast.Store)]
                if len(stores) != 2:
                    continue
                self._wscans[idx] = (wl, subs, None)
        if name not in self._wscans:
            return None
        wl, subs, done = self._wscans[name]
        if getattr(at.ast, "lineno", 0) <= getattr(wl, "end_lineno", wl.lineno):
            raise _Undecided("`%s` is read inside its counting loop" % name)
        if done is None:
            here = next((n for n in self.cfg.nodes if n.ast is not None and getattr(n.ast, "lineno", -1) > getattr(wl, "end_lineno", wl.lineno)), at)
            vals = []
            for nm in subs:
                vals.append(self.one(ast.copy_location(ast.Name(id=nm, ctx=ast.Load()), wl), at))
            if not (all(v[0] == "path" for v in vals) and {v[1] for v in vals} == {"start", "end"}):
                raise _Undecided("counting loop over %s in %s" % (subs, self.f.qual))
            self._parse_count_loop(self.f, self.f.node, wl, name, subs[0], subs[1])
            self._wscans[name] = (wl, subs, True)
        return V("int", "L")

    def _is_length_helper(self, h):
        """`n = 0; while n != size and a[n] is b[n]: n += 1; return n` with size = min(len(a), len(b)): the number of leading
        positions at which the two paths hold the same object.  Anything else that returns a number is not followed."""
        ps = [p for p in h.posparams if p != h.selfname]
        rets = [n for n in walk_own(h.node) if isinstance(n, ast.Return)]
        whiles = [n for n in walk_own(h.node) if isinstance(n, ast.While)]
        if len(ps) != 2 or len(rets) != 1 or len(whiles) != 1 or not isinstance(rets[0].value, ast.Name):
            return False
        idx = rets[0].value.id
        wl = whiles[0]
        if wl.orelse or len(wl.body) != 1:
            return False
        inc = wl.body[0]
        if not (isinstance(inc, ast.AugAssign) and isinstance(inc.op, ast.Add) and isinstance(inc.target, ast.Name) and inc.target.id == idx
                and isinstance(inc.value, ast.Constant) and inc.value.value == 1):
            return False
        if h in self.helpers_checked:
            return self.helpers_checked[h] == "length"
        self.helpers_checked[h] = "length"
        self.ctx.touch(h)
        self._parse_count_loop(h, h.node, wl, idx, ps[0], ps[1])
        return True

    def _parse_count_loop(self, h, fnode, wl, idx, a, b):
        local = {}
        for st_ in walk_own(fnode):
            if isinstance(st_, ast.Assign) and len(st_.targets) == 1 and isinstance(st_.targets[0], ast.Name):
                local[st_.targets[0].id] = st_.value
        init = local.get(idx)
        if not (isinstance(init, ast.Constant) and init.value == 0 and type(init.value) is int):
            raise _Undecided("start value of the counter in %s" % h.qual)
        conj = wl.test.values if isinstance(wl.test, ast.BoolOp) and isinstance(wl.test.op, ast.And) else [wl.test]
        bound, ident, other = [], [], []
        size_txts = ("min(len(%s), len(%s))" % (a, b), "min(len(%s), len(%s))" % (b, a))

        def expand(e_):
            return norm(local[e_.id]) if isinstance(e_, ast.Name) and e_.id in local and e_.id != idx else norm(e_)
        for c in conj:
            if isinstance(c, ast.Compare) and len(c.ops) == 1 and norm(c.left) == idx and expand(c.comparators[0]) in size_txts:
                if isinstance(c.ops[0], (ast.NotEq, ast.Lt)):
                    bound.append(c)
                elif isinstance(c.ops[0], (ast.Is, ast.IsNot)):
                    self.ctx.viol("K3", h, c, "the end of the scan is tested with `%s`: two equal integers need not be the same object "
                                  "(only small ones are shared), so on long paths the scan runs past the end" % norm(c),
                                  construct="%s bound by identity" % h.qual)
                    bound.append(c)
                else:
                    other.append(c)
            elif isinstance(c, ast.Compare) and len(c.ops) == 1 and sorted([norm(c.left), norm(c.comparators[0])]) == sorted(
                    ["%s[%s]" % (a, idx), "%s[%s]" % (b, idx)]):
                if isinstance(c.ops[0], ast.Is):
                    ident.append(c)
                else:
                    self.ctx.viol("K3", h, c, "a position counts as common under `%s`, not exactly when the two nodes at that position are "
                                  "the same object" % norm(c), construct="%s keeps pairs under a different test" % h.qual)
                    ident.append(c)
            else:
                other.append(c)
        if other or len(bound) != 1 or len(ident) != 1 or conj.index(bound[0]) > conj.index(ident[0]):
            raise _Undecided("loop condition `%s` of %s" % (norm(wl.test), h.qual))
        if not any(f.rule == "K3" and f.func == h.qual for f in self.ctx.findings):
            self.ctx.inst("K3", h, wl, "leading positions of the two paths counted while identical")

    def _reverse(self, v, e):
        if v[0] == "slice":
            return V("slice", v[1], v[2], not v[3])
        if v[0] == "path":
            return V("slice", v[1], 0, True)
        if v[0] == "empty":
            return v
        raise _Undecided("reversal of %s in `%s`" % (show(v), norm(e)))

    def _resolve(self, call):
        ft = self.typer.results.get(self.f) or self.typer.analyze(self.f)
        res = ft.calls.get(id(call))
        if res is not None and res.kind == "func" and isinstance(res.target, Func):
            return res.target
        return None

    # ---- K3
    def _check_common_helper(self, h):
        if h in self.helpers_checked:
            return
        self.helpers_checked[h] = True
        ctx = self.ctx
        ctx.touch(h)
        ps = [p for p in h.posparams if p != h.selfname]
        if len(ps) != 2:
            raise _Undecided("common-prefix helper %s does not take the two paths" % h.qual)
        comps = [n for n in walk_own(h.node) if isinstance(n, (ast.GeneratorExp, ast.ListComp))]
        loops = [n for n in walk_own(h.node) if isinstance(n, ast.For)]
        pair, test, kept, where = None, None, None, None
        if len(comps) == 1 and not loops and len(comps[0].generators) == 1:
            g = comps[0].generators[0]
            pair, where = (g.target, g.iter), comps[0]
            kept = comps[0].elt
            test = g.ifs
        elif len(loops) == 1 and not comps and isinstance(loops[0].iter, ast.Call) and norm(loops[0].iter.func) == "range" \
                and isinstance(loops[0].target, ast.Name):
            # for i in range(min(len(a), len(b))): x = a[i]; if x is b[i]: keep x
            lp = loops[0]
            idx = lp.target.id
            rng = lp.iter.args
            okr = len(rng) == 1 and isinstance(rng[0], ast.Call) and norm(rng[0].func) == "min" and len(rng[0].args) == 2 and sorted(
                norm(a) for a in rng[0].args) == sorted("len(%s)" % q for q in ps)
            local = {}
            test, kept, brk = None, None, False
            for st_ in lp.body:
                if isinstance(st_, ast.Assign) and len(st_.targets) == 1 and isinstance(st_.targets[0], ast.Name):
                    local[st_.targets[0].id] = st_.value
                elif isinstance(st_, ast.If) and test is None:
                    test = st_.test
                    apps = [c for c in ast.walk(st_) if isinstance(c, ast.Call) and isinstance(c.func, ast.Attribute) and c.func.attr == "append"]
                    kept = apps[0].args[0] if len(apps) == 1 and apps[0].args else None
                    if st_.orelse and not (len(st_.orelse) == 1 and isinstance(st_.orelse[0], ast.Break)):
                        raise _Undecided("loop form of %s" % h.qual)
                else:
                    raise _Undecided("loop form of %s" % h.qual)

            def sub(e_):
                class R(ast.NodeTransformer):
                    def visit_Name(self, node):
                        if node.id in local and isinstance(node.ctx, ast.Load):
                            return local[node.id]
                        return node
                import copy as _c
                return R().visit(_c.deepcopy(e_))
            if not okr or test is None or kept is None:
                raise _Undecided("loop form of %s" % h.qual)
            t2, k2 = sub(test), sub(kept)
            want = sorted("%s[%s]" % (q, idx) for q in ps)
            good = isinstance(t2, ast.Compare) and len(t2.ops) == 1 and isinstance(t2.ops[0], ast.Is) \
                and sorted([norm(t2.left), norm(t2.comparators[0])]) == want
            if not good:
                ctx.viol("K3", h, test, "a position is kept under `%s`, not exactly when the two nodes at that position are the same "
                         "object" % norm(t2), construct="%s keeps pairs under a different test" % h.qual)
            elif norm(k2) not in want:
                ctx.viol("K3", h, lp, "the common part is built from `%s`, not from the paired nodes" % norm(k2), construct="%s element" % h.qual)
            else:
                ctx.inst("K3", h, lp, "positions of the two paths compared by index and kept when identical")
            return
        elif len(loops) == 1 and not comps:
            lp = loops[0]
            pair, where = (lp.target, lp.iter), lp
            ifs = [s for s in lp.body if isinstance(s, ast.If)]
            apps = [c for c in ast.walk(lp) if isinstance(c, ast.Call) and isinstance(c.func, ast.Attribute) and c.func.attr == "append"]
            if len(ifs) == 1 and len(lp.body) == 2 and lp.body[0] is ifs[0] and len(apps) == 1 and not ifs[0].orelse \
                    and len(ifs[0].body) == 1 and isinstance(ifs[0].body[0], ast.Break) \
                    and isinstance(lp.body[1], ast.Expr) and lp.body[1].value is apps[0]:
                # `if <differ>: break` then append: the pair is kept when the test is false
                t = ifs[0].test
                if isinstance(t, ast.Compare) and len(t.ops) == 1 and isinstance(t.ops[0], ast.IsNot):
                    keep = ast.Compare(left=t.left, ops=[ast.Is()], comparators=t.comparators)
                else:
                    keep = ast.UnaryOp(op=ast.Not(), operand=t)
                ast.copy_location(keep, t)
                ast.fix_missing_locations(keep)
                tgt, it = lp.target, lp.iter
                zipped = isinstance(it, ast.Call) and isinstance(it.func, ast.Name) and it.func.id == "zip" and len(it.args) == 2 \
                    and sorted(norm(a) for a in it.args) == sorted(ps)
                self._check_pairing(h, lp, tgt, zipped, [keep], apps[0].args[0] if apps[0].args else None, "the common prefix")
                return
            if len(ifs) != 1 or len(lp.body) != 1 or len(apps) != 1 or not any(a is apps[0] for s in ifs[0].body for a in ast.walk(s)):
                raise _Undecided("loop form of %s" % h.qual)
            # an else branch may only stop the scan (prefix semantics)
            if ifs[0].orelse and not (len(ifs[0].orelse) == 1 and isinstance(ifs[0].orelse[0], ast.Break)):
                raise _Undecided("loop form of %s" % h.qual)
            kept = apps[0].args[0] if apps[0].args else None
            test = [ifs[0].test]
        else:
            raise _Undecided("cannot follow how %s pairs the two paths" % h.qual)
        tgt, it = pair
        zipped = isinstance(it, ast.Call) and isinstance(it.func, ast.Name) and it.func.id == "zip" and len(it.args) == 2 \
            and sorted(norm(a) for a in it.args) == sorted(ps)
        self._check_pairing(h, where, tgt, zipped, test, kept, "the common prefix")


def run(ctx):
    p = ctx.p
    typer = typer_for(ctx)
    w = p.func("Walker", "walk")
    ctx.touch(w)
    ps = [x for x in w.posparams if x != w.selfname]
    if len(ps) != 2:
        raise AnalysisError("anchor: Walker.walk(start, end) signature changed: %s" % (w.posparams,))
    start, end = ps
    cfg = typer.cfg_of(w)
    # the rules below follow ONE way of computing the walk: from the two root-down paths.  An implementation that climbs the
    # parent links itself (depths, lock-step ascent, ...) is not followed.
    if not any(isinstance(n_, ast.Attribute) and n_.attr in ("path", "_path", "ancestors") for n_ in ast.walk(w.node)) and not any(
            isinstance(n_, ast.Call) and norm(n_.func).endswith("iter_path_reverse") for n_ in ast.walk(w.node)):
        raise AnalysisError("C15: Walker.walk does not compute the walk from the two root-down paths (no .path/.ancestors read): this "
                            "implementation is not followed")
    climbs = [lp for lp in ast.walk(w.node) if isinstance(lp, ast.While) and any(
        isinstance(a_, ast.Assign) and len(a_.targets) == 1 and isinstance(a_.targets[0], ast.Name) and isinstance(a_.value, ast.Attribute)
        and a_.value.attr == "parent" and norm(a_.value.value) == a_.targets[0].id for a_ in ast.walk(lp))]
    if climbs:
        raise AnalysisError("C15: Walker.walk climbs the parent links itself (`while` loop stepping to `.parent`) instead of computing the walk "
                            "from the two root-down paths: this implementation is not followed")
    ev = Evaluator(ctx, typer, w, start, end)
    rets = cfg.stmt_nodes(("return",))
    if not rets:
        raise AnalysisError("anchor: Walker.walk has no return")
    undecided = []

    def side(e, at):
        try:
            return ev.one(e, at)
        except _Undecided:
            return None
    # ---- K1 same-tree guard
    def is_root_compare(c, at):
        if not (isinstance(c, ast.Compare) and len(c.ops) == 1 and isinstance(c.ops[0], (ast.Is, ast.IsNot))):
            return None
        for x, y in ((c.left, c.comparators[0]), (c.comparators[0], c.left)):
            if isinstance(y, ast.Constant) and y.value is None and side(x, at) == V("scanlast"):
                # no position at which the two root-down paths agree <=> the roots differ
                return not isinstance(c.ops[0], ast.Is)
        a, b = side(c.left, at), side(c.comparators[0], at)
        if a is None or b is None:
            return None
        if {tuple(a), tuple(b)} == {("root", "start"), ("root", "end")}:
            return isinstance(c.ops[0], ast.Is)
        return None
    # ---- K5 neighbour short cuts: a return whose triple is written out from start/end/their parents under an identity guard
    from .common import resolve_local

    def canon(e):
        e = resolve_local(w, e) if isinstance(e, ast.Name) and e.id not in (start, end) else e
        t = norm(e)
        return t.replace(start, "S").replace(end, "E") if isinstance(e, (ast.Name, ast.Attribute)) else t

    def triple_of(val):
        if not (isinstance(val, ast.Tuple) and len(val.elts) == 3):
            return None
        out = []
        for el in val.elts:
            if isinstance(el, ast.Tuple):
                if not all(isinstance(x, ast.Name) for x in el.elts):
                    return None
                out.append(tuple(canon(x) for x in el.elts))
            elif isinstance(el, ast.Call) and norm(el.func) == "tuple" and not el.args:
                out.append(())
            elif isinstance(el, ast.Name) or isinstance(el, ast.Attribute):
                out.append(canon(el))
            else:
                return None
        return tuple(out)
    shortcut = set()
    for r in rets:
        tr = triple_of(r.ast.value) if r.ast.value is not None else None
        if tr is None or any(isinstance(x, str) and x not in ("S", "E", "S.parent", "E.parent") for x in tr if not isinstance(x, tuple)):
            continue
        facts_ = set()
        for c, o, g in cfg.guards_of(r):
            if isinstance(c, ast.Compare) and len(c.ops) == 1 and isinstance(c.ops[0], (ast.Is, ast.IsNot)):
                same = isinstance(c.ops[0], ast.Is) == (o is True)
                a_, b_ = canon(c.left), canon(c.comparators[0])
                facts_.add((frozenset([a_, b_]), same))
        def holds(x, y, same=True):
            return (frozenset([x, y]), same) in facts_
        okk = None
        if holds("S", "E"):
            okk = tr == ((), "S", ()) or tr == ((), "E", ())
        elif holds("E.parent", "S"):
            okk = tr == ((), "S", ("E",))
        elif holds("S.parent", "E"):
            okk = tr == (("S",), "E", ())
        elif holds("S.parent", "E.parent") and holds("S.parent", "None", False) | holds("E.parent", "None", False):
            # siblings - or the same node twice: that case must have been taken care of before
            if not holds("S", "E", False):
                ctx.viol("K2", w, r.ast, "the sibling short cut (same parent) is reached although `start is end` has not been excluded: a node "
                         "walked to itself goes up to its parent and down again instead of the empty walk", construct="walk: sibling short cut without start-is-end exclusion")
                shortcut.add(r.id)
                continue
            okk = tr in ((("S",), "S.parent", ("E",)), (("S",), "E.parent", ("E",)))
        if okk is True:
            ctx.inst("K2", w, r.ast, "neighbour short cut %s under its identity guard" % (tr,))
            ctx.inst("K1", w, r.ast, "short cut taken only for nodes linked by a parent reference (same tree)")
            shortcut.add(r.id)
        elif okk is False:
            ctx.viol("K2", w, r.ast, "the short cut returns %s, which is not the walk between the two nodes its guard describes" % (tr,),
                     construct="walk: short cut triple %s" % (tr,))
            shortcut.add(r.id)
    rets = [r for r in rets if r.id not in shortcut]
    for r in rets:
        ok = False
        for c, o, g in cfg.guards_of(r):
            pol = is_root_compare(c, g)
            if pol is not None and (o is True) == pol:
                ok = True
        if ok:
            ctx.inst("K1", w, r.ast, "return only after start.root is end.root")
        else:
            ctx.viol("K1", w, r.ast, "a result is returned on a path that did not establish `start.root is end.root`: nodes of "
                     "different trees are not refused with WalkError", construct="walk: return without same-tree guard")
    n_raise = 0
    for rn in cfg.stmt_nodes(("raisestmt",)):
        for c, o, g in cfg.guards_of(rn):
            pol = is_root_compare(c, g)
            if pol is not None and (o is True) != pol:
                n_raise += 1
                from .common import expand_straightline
                exc = expand_straightline(rn, rn.ast.exc) if rn.ast.exc is not None else None
                cname = norm(exc.func) if isinstance(exc, ast.Call) else (norm(exc) if exc is not None else "")
                if cname.split(".")[-1] == "WalkError":
                    ctx.inst("K1", w, rn.ast, "different roots raise WalkError")
                else:
                    ctx.viol("K1", w, rn.ast, "nodes of different trees raise `%s`, not WalkError" % cname)
    if not n_raise:
        ctx.viol("K1", w, w.node, "no raise under `start.root is not end.root`", construct="walk: no WalkError for different trees")
    # ---- K2 provenance of the triple
    for r in rets:
        val = r.ast.value
        if isinstance(val, ast.Name):
            from .common import straightline_value
            v2 = straightline_value(r, val.id)
            val = v2 if v2 is not None else val
        if not (isinstance(val, ast.Tuple) and len(val.elts) == 3):
            undecided.append("the returned value `%s` is not a 3-tuple display" % norm(val))
            continue
        wants = (("upwards", "start", True), ("common", None, None), ("downwards", "end", False))
        for (role, who, rev), e in zip(wants, val.elts):
            try:
                alts = ev.ev(e, r)
            except _Undecided as exc:
                undecided.append("%s: %s" % (role, exc))
                continue
            for v, guards in alts:
                if role == "common":
                    if v == V("elem", "last") or v == V("scanlast"):
                        ctx.inst("K2", w, e, "second component is the last common node")
                    elif v[0] == "elem":
                        ctx.viol("K2", w, e, "the second component is common[%s], not the LAST node of the common prefix (the lowest "
                                 "common ancestor)" % v[1], construct="walk: common component common[%s]" % v[1])
                    else:
                        ctx.viol("K2", w, e, "the second component is %s, not the last node of the common prefix" % show(v),
                                 construct="walk: common component %s" % show(v))
                    continue
                if v[0] == "slice":
                    problems = []
                    if v[1] != who:
                        problems.append("it is taken from %s's path instead of %s's" % (v[1], who))
                    if v[2] != "L":
                        problems.append("it starts at index %s instead of len(common)" % v[2])
                    if v[3] != rev:
                        problems.append("it is %s" % ("not reversed (must lead from start up towards the common node)" if rev
                                                      else "reversed (must lead from below the common node down to end)"))
                    if problems:
                        ctx.viol("K2", w, e, "%s component is %s: %s" % (role, show(v), "; ".join(problems)),
                                 construct="walk: %s = %s" % (role, show(v)))
                    else:
                        ctx.inst("K2", w, e, "%s = %s" % (role, show(v)))
                elif v[0] == "filtered":
                    ctx.viol("K2", w, e, "%s component is a per-element selection of %s's path (kept under `%s`), not the contiguous part "
                             "behind the common prefix: a node on the private part that passes/fails the test by equality is "
                             "dropped or kept wrongly" % (role, v[1], v[2]), construct="walk: %s filtered by %s" % (role, v[2]))
                elif v[0] == "empty":
                    okg = False
                    for c, o in guards:
                        if isinstance(c, ast.Compare) and len(c.ops) == 1 and isinstance(c.ops[0], (ast.Is, ast.IsNot)):
                            # evaluate both sides where the guard stands (use the return node: names are stable there)
                            a, b = side(c.left, r), side(c.comparators[0], r)
                            if a is not None and b is not None and {tuple(a), tuple(b)} == {("node", who), ("elem", "last")} \
                                    and (o is True) == isinstance(c.ops[0], ast.Is):
                                okg = True
                    if okg:
                        ctx.inst("K2", w, e, "%s empty only when %s is the last common node" % (role, who))
                    else:
                        ctx.viol("K2", w, e, "%s component is the empty tuple on a path that did not establish `%s is common[-1]`: "
                                 "part of the path is dropped" % (role, who), construct="walk: %s empty without guard" % role)
                else:
                    ctx.viol("K2", w, e, "%s component is %s, not a part of %s's root-down path" % (role, show(v), who),
                             construct="walk: %s = %s" % (role, show(v)))
    # ---- K4 effect-free
    pur = Purity(p, typer)
    bad = [e for e in pur.effects(w) if e.kind not in ("lazyinit",)]
    if bad:
        for e in bad[:3]:
            ctx.viol("K4", w, e.node, "Walker.walk has an effect: %s in %s" % (e.text, e.func.qual), construct="walk: %s in %s" % (e.text, e.func.qual))
    else:
        ctx.inst("K4", w, w.qual, "effect-free (transitively)")
    if undecided and not ctx.new_findings():
        raise AnalysisError("C15 cannot follow this implementation of Walker.walk: %s" % "; ".join(undecided[:3]))
    ctx.floor("K1", 2)
    ctx.floor("K2", 3)
    ctx.floor("K3", 1)
    ctx.floor("K4", 1)
