"""C04 — navigation attributes are computed from the current links (freshness)."""

import ast

from .. import tables as T
from ..model import AnalysisError, Func, Prop, mangle, norm
from ..purity import Purity
from .common import typer_for, walk_own

PROP = "C04"
LEVEL = "other"
TECHNIQUE = "static analysis: effect/purity fixpoint over the resolved call graph, decorator and module-state scan"
EXPLANATION = (
    "Decides the clause 'all values are computed from the current links, so they are correct immediately after any "
    "mutation': N1 each of the read-only navigation members of NodeMixin and LightNodeMixin (parent, children, path, "
    "_path, iter_path_reverse, ancestors, anchestors, descendants, root, siblings, leaves, is_leaf, is_root, height, depth, "
    "size) and util.commonancestors/leftsibling/rightsibling is effect-free (no attribute/item store, no mutation of a "
    "non-fresh container, no hook, no opaque callee, transitively over the resolved call graph; the lazy initialisation of "
    "the children list is the one recognised idiom and warnings.warn in the deprecated alias the one reasoned exception), "
    "carries no decorator other than property, and reads no module- or class-level mutable state; the iterators they use "
    "are effect-free apart from their own fields. N3 dependency footprint: the parent-chain attributes (path, ancestors, root, "
    "depth, is_root, ...) read only the parent direction of the links, the subtree attributes (descendants, leaves, height, "
    "size, is_leaf) only the children direction, transitively through getters and iterators. N2 structural definitional checks that are shape-independent: is_root "
    "tests the parent against None by identity, is_leaf tests emptiness of the children list, siblings/ancestors return () "
    "for a root. N4 util.commonancestors reads exactly the `ancestors` chain of every argument. Also N4: a loop over the arguments that carries nothing from one iteration to the next leaves only the last argument in the result. N8 a navigation value cached in a private memo field is dropped in the same atomic step as every write of the links it is computed from (a planted fixture keeps the rule exercised). N5 siblings are assembled from the "
    "parent's children in their stored order (no sort/reverse/set on the way). N6 no deferred computation (lambda, generator "
    "expression, nested function) that outlives a loop captures a variable the loop rebinds, and no loop variable is read after "
    "its loop as if it were the last element. N7 descendants/leaves keep the order of PreOrderIter(self) (no reordering call "
    "on the way to the returned tuple). Not decided: that height, depth, siblings, commonancestors … compute the right value."
    " Added in rounds 15-18: N2 `root` climbs while the parent `is not None` (a hasattr climb steps onto the None of a detached root); N6 no integer is compared with `is`; N7 `leaves` collected with an explicit work list is decided by the discipline of the list (same end + children reversed = pre-order)."
)
ASSUMPTIONS = ["user node classes do not define the navigation names themselves", "getattr/len/tuple/reversed/enumerate/zip/max are pure"]
UTIL = "anytree/util/__init__.py"
ALLOWED = ("lazyinit",)


def members(p):
    out = []
    for m in T.MIXINS:
        cls = p.cls(m)
        for name in T.READONLY_MEMBERS:
            mem = cls.members.get(mangle(m, name))
            if mem is None:
                if name == "anchestors" and m == "LightNodeMixin":
                    continue
                raise AnalysisError("anchor %s.%s not found" % (m, name))
            f = mem.getter if isinstance(mem, Prop) else mem
            out.append(f)
    for name in ("commonancestors", "leftsibling", "rightsibling"):
        out.append(p.modfunc(UTIL, name))
    return out


def _worklist_order(f, cfg, rn, name):
    """`leaves` computed with an explicit work list: out = []; todo = deque((self,)); while todo: node = todo.pop*();
    push node.children | record node; return tuple(out).  The order of the result is decided by the discipline of the
    work list: taken and pushed on the same end with the children reversed = pre-order; children not reversed =
    right-to-left pre-order; taken and pushed on different ends = level order.
    -> ("preorder"|other order, description, node) or None when the shape is not this idiom"""
    if name != "leaves":
        return None
    fn = f.node
    whiles = [w for w in walk_own(fn) if isinstance(w, ast.While)]
    if len(whiles) != 1 or any(isinstance(x, (ast.For, ast.Try, ast.With)) for x in walk_own(fn)):
        return None
    w = whiles[0]
    if not isinstance(w.test, ast.Name) or w.orelse:
        return None
    todo = w.test.id
    inits = [a for a in fn.body if isinstance(a, ast.Assign) and len(a.targets) == 1 and norm(a.targets[0]) == todo]
    if len(inits) != 1:
        return None
    iv = inits[0].value
    if isinstance(iv, ast.Call) and isinstance(iv.func, ast.Name) and iv.func.id in ("deque", "list") and len(iv.args) == 1 and not iv.keywords:
        iv = iv.args[0]
    if not (isinstance(iv, (ast.List, ast.Tuple)) and len(iv.elts) == 1 and norm(iv.elts[0]) == f.selfname):
        return None
    # every use of the work list inside the loop
    pops, pushes, other = [], [], []
    for n in ast.walk(w):
        if isinstance(n, ast.Name) and n.id == todo and n is not w.test:
            other.append(n)
    popped = None
    for st in ast.walk(w):
        if isinstance(st, ast.Assign) and len(st.targets) == 1 and isinstance(st.targets[0], ast.Name) and isinstance(st.value, ast.Call) \
                and isinstance(st.value.func, ast.Attribute) and norm(st.value.func.value) == todo and st.value.func.attr in ("pop", "popleft"):
            c = st.value
            if c.func.attr == "pop" and not c.args:
                side = "R"
            elif c.func.attr == "popleft" and not c.args:
                side = "L"
            elif c.func.attr == "pop" and len(c.args) == 1 and isinstance(c.args[0], ast.Constant) and c.args[0].value in (0, -1):
                side = "L" if c.args[0].value == 0 else "R"
            else:
                return None
            pops.append((st, side))
            popped = st.targets[0].id
        elif isinstance(st, ast.Expr) and isinstance(st.value, ast.Call) and isinstance(st.value.func, ast.Attribute) \
                and norm(st.value.func.value) == todo and st.value.func.attr in ("extend", "extendleft") and len(st.value.args) == 1:
            pushes.append((st, "R" if st.value.func.attr == "extend" else "L", st.value.args[0]))
        elif isinstance(st, ast.AugAssign) and norm(st.target) == todo and isinstance(st.op, ast.Add):
            pushes.append((st, "R", st.value))
    if len(pops) != 1 or len(pushes) != 1 or len(other) != 2 or w.body[0] is not pops[0][0]:
        return None
    # the children of the node just taken (through one local alias)
    kid_alias = {"%s.children" % popped}
    for st in w.body:
        if isinstance(st, ast.Assign) and len(st.targets) == 1 and isinstance(st.targets[0], ast.Name) and norm(st.value) == "%s.children" % popped:
            kid_alias.add(st.targets[0].id)
    pst, pside, px = pushes[0]
    rev = False
    if isinstance(px, ast.Call) and isinstance(px.func, ast.Name) and px.func.id == "reversed" and len(px.args) == 1:
        rev, px = True, px.args[0]
    elif isinstance(px, ast.Subscript) and norm(px.slice) == "::-1":
        rev, px = True, px.value
    if norm(px) not in kid_alias:
        return None
    # the record: out.append(node) exactly when the node has no children; the push whenever it has some
    recs = [st for st in ast.walk(w) if isinstance(st, ast.Expr) and isinstance(st.value, ast.Call) and isinstance(st.value.func, ast.Attribute)
            and st.value.func.attr == "append" and len(st.value.args) == 1 and norm(st.value.args[0]) == popped]
    if len(recs) != 1:
        return None
    out = norm(recs[0].value.func.value)
    rv = rn.ast.value
    if isinstance(rv, ast.Call) and isinstance(rv.func, ast.Name) and rv.func.id in ("tuple", "list") and len(rv.args) == 1:
        rv = rv.args[0]
    if norm(rv) != out:
        return None

    def kid_guards(st):
        g = []
        for cn in cfg.nodes_of(st):
            for c_, o_, _g in cfg.guards_of(cn):
                if norm(c_) == todo:
                    continue
                g.append((norm(c_), o_))
        return g
    rg, pg = kid_guards(recs[0]), kid_guards(pst)
    if len(rg) != 1 or rg[0][0] not in kid_alias or rg[0][1] is not False:
        return None
    if pg and not (len(pg) == 1 and pg[0][0] in kid_alias and pg[0][1] is True):
        return None
    ends = "taken at the %s end, children pushed at the %s end%s" % ("right" if pops[0][1] == "R" else "left", "right" if pside == "R" else "left",
                                                                        " reversed" if rev else " in their order")
    if pops[0][1] != pside:
        return ("level order (first in, first out)", "is used as a queue (%s)" % ends, pst)
    if not rev:
        return ("right-to-left pre-order (last child first)", "is used as a stack with the children pushed in their order (%s)" % ends, pst)
    return ("preorder", ends, pst)


def run(ctx):
    p = ctx.p
    typer = typer_for(ctx)
    pur = Purity(p, typer)
    for f in members(p):
        ctx.touch(f)
        allowed = ALLOWED + (("ext",) if f.srcname == "anchestors" else ())
        bad = [e for e in pur.effects(f) if e.kind not in allowed and not (e.kind == "selfstore" and e.func.cls is not None
                                                                          and e.func.cls.name.endswith("Iter"))
               and not (e.kind == "callback" and e.func.cls is not None and e.func.cls.name.endswith("Iter"))]
        if not bad:
            ctx.inst("N1", f, f.qual, "effect-free (transitively), uncached")
        for e in bad:
            via = " (reached through %s)" % e.via[1].qual if e.via else ""
            ctx.viol("N1", f, e.node, "read-only member %s has an effect: %s in %s%s — its value is no longer a pure function of the "
                     "current links (caching / mutation on read)" % (f.qual, e.text, e.func.qual, via),
                     construct="%s: %s in %s" % (f.qual, e.text, e.func.qual))
        # module / class level mutable state
        for n in walk_own(f.node):
            if isinstance(n, ast.Name) and isinstance(n.ctx, ast.Load):
                r = p.resolve_name(f.module, n.id)
                if r is not None and r[0] == "const" and isinstance(r[1], (ast.Dict, ast.List, ast.Set, ast.Call)) and n.id != "ASSERTIONS" \
                        and n.id not in f.params:
                    ctx.viol("N1", f, n, "read-only member reads module-level mutable state `%s`" % n.id)
            if isinstance(n, ast.Attribute) and isinstance(n.value, ast.Name) and n.value.id in p.classes and f.cls is not None:
                c = p.classes[n.value.id]
                if mangle(c.name, n.attr) in c.assigns and isinstance(c.assigns[mangle(c.name, n.attr)], (ast.Dict, ast.List, ast.Set, ast.Call)):
                    ctx.viol("N1", f, n, "read-only member uses class-level mutable state %s" % norm(n))
        # kind: the property-ness of the member is part of the API
        want_prop = f.srcname != "iter_path_reverse" and f.cls is not None
        if want_prop and f.kind != "getter":
            ctx.viol("N1", f, f.node, "%s is no longer a read-only property" % f.qual, construct="%s kind %s" % (f.qual, f.kind))
    # setters exist only for parent/children
    for m in T.MIXINS:
        cls = p.cls(m)
        for name, mem in cls.members.items():
            if isinstance(mem, Prop) and (mem.setter or mem.deleter) and name not in ("parent", "children"):
                f = mem.setter or mem.deleter
                ctx.viol("N1", f, f.node, "navigation attribute %s became writable" % name, construct="%s.%s setter/deleter" % (m, name))
    # ---- N2: shape-independent definitional checks
    for m in T.MIXINS:
        f = p.func(m, "is_root")
        r = [x for x in walk_own(f.node) if isinstance(x, ast.Return)]
        ok = len(r) == 1 and isinstance(r[0].value, ast.Compare) and len(r[0].value.ops) == 1 and isinstance(r[0].value.ops[0], ast.Is) \
            and {norm(r[0].value.left), norm(r[0].value.comparators[0])} == {"self.parent", "None"}
        if ok:
            ctx.inst("N2", f, r[0], "is_root ⇔ parent is None")
        else:
            ctx.viol("N2", f, f.node, "is_root is not `self.parent is None`", construct="%s.is_root definition" % m)
        f = p.func(m, "is_leaf")
        r = [x for x in walk_own(f.node) if isinstance(x, ast.Return)]
        txt = norm(r[0].value) if len(r) == 1 else ""
        okl = txt in ("len(self.__children_or_empty) == 0", "len(self.children) == 0", "not self.__children_or_empty", "not self.children",
                      "0 == len(self.__children_or_empty)")
        if not okl and len(r) == 1:
            # the raw list read through the optional-field idiom: `not (self.__children if hasattr(self, "<field>") else <empty>)`
            v_ = r[0].value
            inner = None
            if isinstance(v_, ast.UnaryOp) and isinstance(v_.op, ast.Not):
                inner = v_.operand
            elif isinstance(v_, ast.Compare) and len(v_.ops) == 1 and isinstance(v_.ops[0], ast.Eq) and norm(v_.comparators[0]) == "0" \
                    and isinstance(v_.left, ast.Call) and norm(v_.left.func) == "len" and len(v_.left.args) == 1:
                inner = v_.left.args[0]
            fld = mangle(m, "__children")
            if isinstance(inner, ast.IfExp) and isinstance(inner.test, ast.Call) and norm(inner.test.func) == "hasattr" \
                    and len(inner.test.args) == 2 and norm(inner.test.args[0]) == f.selfname and isinstance(inner.test.args[1], ast.Constant) \
                    and inner.test.args[1].value == fld and isinstance(inner.body, ast.Attribute) and norm(inner.body.value) == f.selfname \
                    and mangle(m, inner.body.attr) == fld:
                d_ = inner.orelse
                okl = (isinstance(d_, ast.Constant) and d_.value is None and isinstance(v_, ast.UnaryOp)) \
                    or (isinstance(d_, (ast.Tuple, ast.List)) and not d_.elts)
        if okl:
            ctx.inst("N2", f, r[0], "is_leaf ⇔ no children")
        else:
            ctx.viol("N2", f, f.node, "is_leaf is not an emptiness test of the node's children (`%s`)" % txt, construct="%s.is_leaf definition" % m)
        # root: the climb may only step to a parent it has just found to be not None.  `while hasattr(node, "<parent field>")`
        # is not that test: a node that was attached once and detached again has the field, holding None
        f = p.func(m, "root")
        for lp in [x for x in walk_own(f.node) if isinstance(x, ast.While)]:
            steps = [a_ for a_ in ast.walk(lp) if isinstance(a_, ast.Assign) and len(a_.targets) == 1 and isinstance(a_.targets[0], ast.Name)
                     and any(isinstance(x, ast.Attribute) and x.attr in ("parent", "__parent", mangle(m, "__parent")) and isinstance(x.value, ast.Name)
                             and x.value.id == a_.targets[0].id for x in ast.walk(a_.value))]
            if not steps:
                continue
            t = lp.test
            only_hasattr = isinstance(t, ast.Call) and isinstance(t.func, ast.Name) and t.func.id == "hasattr" and len(t.args) == 2 \
                and isinstance(t.args[1], ast.Constant) and t.args[1].value == mangle(m, "__parent")
            if only_hasattr:
                ctx.viol("N2", f, t, "root climbs while the node merely HAS the parent field (`%s`): a detached node has the field with value None, "
                         "the climb steps onto None and root is None for every node of such a tree" % norm(t), construct="%s.root climbs on hasattr" % m)
            else:
                ctx.inst("N2", f, lp.test, "root climbs under `%s`" % norm(t)[:50])
        for name in ("siblings", "ancestors"):
            f = p.func(m, name)
            cfg = typer.cfg_of(f)
            ok_root = False
            for node in cfg.stmt_nodes(("return",)):
                v = node.ast.value
                empty = (isinstance(v, ast.Call) and norm(v.func) == "tuple" and not v.args) or (isinstance(v, ast.Tuple) and not v.elts)
                if empty:
                    for c, o, _ in cfg.guards_of(node):
                        from .common import none_test
                        nt = none_test(c)
                        if nt is not None and (nt[1] is True) == (o is True):
                            ok_root = True
            if ok_root:
                ctx.inst("N2", f, f.qual, "%s of a root is ()" % name)
            else:
                ctx.viol("N2", f, f.node, "%s does not return () exactly when the parent is None" % name, construct="%s.%s root case" % (m, name))
    # ---- N3: dependency footprint — which link direction each member may read
    PSET = {"parent", "__parent"} | {mangle(m_, "__parent") for m_ in T.MIXINS}
    CSET = {"children", "__children", "__children_or_empty"} | {mangle(m_, a_) for m_ in T.MIXINS for a_ in ("__children", "__children_or_empty")}
    from ..nodetype import has_node
    direct = {}
    from ..nodetype import is_top
    nav_set = set(members(p))
    for f in p.all_funcs:
        ft = typer.results.get(f)
        d = set()
        if ft is not None:
            for n in walk_own(f.node):
                if isinstance(n, ast.Attribute) and isinstance(n.ctx, ast.Load) and (
                        "node" in (ft.type_of(n.value) or ()) or (f in nav_set and is_top(ft.type_of(n.value)))):
                    # (inside a navigation member an untyped receiver - e.g. a node taken from a work list - counts as well)
                    if n.attr in PSET:
                        d.add("P")
                    elif n.attr in CSET:
                        d.add("C")
        direct[f] = d
    total = {f: set(d) for f, d in direct.items()}
    changed = True
    while changed:
        changed = False
        for f in p.all_funcs:
            for site, t in pur.calls.get(f, []):
                if isinstance(t, tuple):
                    t = t[1]
                add = total.get(t, set()) - total[f]
                if add:
                    total[f] |= add
                    changed = True
            for g in f.nested:
                add = total.get(g, set()) - total[f]
                if add:
                    total[f] |= add
                    changed = True
    allowed = {"parent": "P", "path": "P", "_path": "P", "iter_path_reverse": "P", "ancestors": "P", "anchestors": "P", "root": "P",
               "is_root": "P", "depth": "P", "children": "C", "descendants": "C", "leaves": "C", "is_leaf": "C", "height": "C", "size": "C",
               "siblings": "PC", "commonancestors": "P", "leftsibling": "PC", "rightsibling": "PC"}
    for f in members(p):
        want = set(allowed.get(f.srcname, "PC"))
        got = total.get(f, set())
        extra = got - want
        if extra and got & want:
            # the defining direction is read, and the other one as well (e.g. height = number of parent steps from the deepest
            # descendant back to the node): both views agree (C01), so this is no contradiction of the definition - noted only
            ctx.notes.append("N3: %s also reads the %s direction" % (f.qual, "/".join("parent" if x == "P" else "children" for x in sorted(extra))))
            ctx.inst("N3", f, f.qual, "reads its defining direction (and %s)" % "".join(sorted(extra)))
        elif extra:
            ctx.viol("N3", f, f.node, "%s reads the %s direction of the links (directly or through what it calls); by definition it depends only "
                     "on %s — its value is no longer the one the definition gives" % (
                         f.qual, "/".join("parent" if x == "P" else "children" for x in sorted(extra)),
                         "/".join("parent" if x == "P" else "children" for x in sorted(want))),
                     construct="%s footprint %s, allowed %s" % (f.qual, "".join(sorted(got)), "".join(sorted(want))))
        elif not (got & want) and f.srcname not in ("parent", "children"):
            ctx.viol("N3", f, f.node, "%s does not read the links at all: its value cannot follow the current structure" % f.qual,
                     construct="%s footprint empty" % f.qual)
        else:
            ctx.inst("N3", f, f.qual, "reads only the %s direction" % "/".join(sorted(got)))
    # ---- N4: commonancestors treats all its arguments alike
    ca = p.modfunc(UTIL, "commonancestors")
    ft_ca = typer.results.get(ca)
    read = {}
    for n_ in walk_own(ca.node):
        if isinstance(n_, ast.Attribute) and isinstance(n_.ctx, ast.Load) and ft_ca is not None and "node" in (ft_ca.type_of(n_.value) or ()):
            read.setdefault(n_.attr, []).append(n_)
    if set(read) == {"ancestors"}:
        ctx.inst("N4", ca, read["ancestors"][0], "every argument contributes its `ancestors` chain (and nothing else)")
    else:
        ctx.viol("N4", ca, ca.node, "commonancestors reads %s of its arguments; by definition it is the common prefix of the `ancestors` chains "
                 "of all of them alike" % sorted(read), construct="commonancestors reads %s" % sorted(read))
    # every argument also has to reach the result: a loop over the arguments out of which nothing of the earlier iterations
    # survives (no variable carried from one iteration to the next, no in-place accumulation, no exit taken inside it)
    # leaves only its LAST argument in the values read after it
    va = ca.node.args.vararg.arg if ca.node.args.vararg else None
    if va is not None:
        for lp, names in _last_iteration_only_loops(ca.node, va):
            ctx.viol("N4", ca, lp, "the loop over the arguments carries nothing from one iteration to the next: `%s` read after it "
                     "depend(s) on the last argument only, so an argument in the middle does not narrow the common prefix" % ", ".join(sorted(names)),
                     construct="commonancestors: loop over the arguments keeps only its last iteration (%s)" % ", ".join(sorted(names)))
    # ---- N8: a cached navigation value is dropped together with every change of the links it is computed from
    from ..memo import check_fixture, rule_coherence
    check_fixture(ctx)
    rule_coherence(ctx, "N8")
    # ---- N5: siblings keep the parent's child order (structural part: how the result is assembled from the parent's
    # children; the selection test itself is N2/C17's subject)
    from .common import expand_straightline
    for m in T.MIXINS:
        f = p.func(m, "siblings")
        cfg = typer.cfg_of(f)
        for rn in cfg.stmt_nodes(("return",)):
            v = rn.ast.value
            if v is None:
                continue
            e = expand_straightline(rn, v, depth=4)
            verdict = _order_of(e)
            if verdict == "empty":
                continue
            if verdict is True:
                ctx.inst("N5", f, rn.ast, "siblings assembled from the parent's children in their order")
            elif verdict is None:
                ctx.notes.append("N5: the way %s assembles its result is not followed (`%s`)" % (f.qual, norm(e)[:80]))
            else:
                ctx.viol("N5", f, rn.ast, "siblings are not returned in the parent's child order: %s" % verdict,
                         construct="%s.siblings order: %s" % (m, verdict))
    # ---- N7: descendants / leaves take their order from the pre-order iterator over the node itself (the order of a
    # hand-written traversal is not followed: no verdict rather than a silent pass)
    unfollowed = []
    for m in T.MIXINS:
        for name in ("descendants", "leaves"):
            f = p.func(m, name)
            cfg = typer.cfg_of(f)
            for rn in cfg.stmt_nodes(("return",)):
                if rn.ast.value is None:
                    continue
                e = _expand_defs(rn, rn.ast.value)
                src = [c for c in ast.walk(e) if isinstance(c, ast.Call) and norm(c.func) == "PreOrderIter" and c.args
                       and norm(c.args[0]) == f.selfname]
                reord = [c for c in ast.walk(e) if isinstance(c, ast.Call) and isinstance(c.func, ast.Name) and c.func.id in ("reversed", "sorted", "set", "frozenset")]
                if src and not reord:
                    ctx.inst("N7", f, rn.ast, "%s in the order of PreOrderIter(self)" % name)
                elif src:
                    ctx.viol("N7", f, rn.ast, "%s passes the pre-order through %s(): the order is no longer pre-order" % (name, reord[0].func.id))
                else:
                    wl = _worklist_order(f, cfg, rn, name)
                    if wl is None:
                        unfollowed.append("%s.%s is not computed from PreOrderIter(self): its order is not followed" % (m, name))
                    elif wl[0] == "preorder":
                        ctx.inst("N7", f, rn.ast, "%s collected by a work list used as a stack with the children pushed in reverse: pre-order (%s)" % (name, wl[1]))
                    else:
                        ctx.viol("N7", f, wl[2], "%s is collected with a work list that %s: the nodes come out in %s, not in the pre-order of "
                                 "the subtree" % (name, wl[1], wl[0]), construct="%s.%s work list: %s" % (m, name, wl[0]))
    if unfollowed:
        ctx.extra["N7_unfollowed"] = unfollowed
    # ---- N6: no deferred computation (generator expression, lambda, nested function) created inside a loop reads a
    # variable the loop rebinds, unless it is consumed on the spot: when it finally runs it sees the LAST binding
    scope = list(members(p)) + [g for g in p.all_funcs if g.module.relpath == UTIL and g.cls is None and g.outer is None]
    seen_f = set()
    for f in scope:
        if f in seen_f or f.is_lambda:
            continue
        seen_f.add(f)
        for node in ast.walk(f.node):
            # identity of integers is an accident of the interpreter's small-int cache: `idx is len(xs) - 1` holds up to 256 only
            if isinstance(node, ast.Compare) and any(isinstance(o_, (ast.Is, ast.IsNot)) for o_ in node.ops):
                from ..nodetype import INT as _INT
                ft_ = typer.results.get(f) or typer.analyze(f)
                for x_ in [node.left] + list(node.comparators):
                    if (isinstance(x_, ast.BinOp) and isinstance(x_.op, (ast.Add, ast.Sub, ast.Mult, ast.FloorDiv, ast.Mod))) \
                            or (isinstance(x_, ast.Call) and norm(x_.func) == "len") \
                            or (isinstance(x_, ast.Name) and ft_ is not None and ft_.type_of(x_) == _INT) \
                            or (isinstance(x_, ast.Constant) and isinstance(x_.value, int) and not isinstance(x_.value, bool)):
                        ctx.viol("N6", f, node, "`%s` compares an integer by identity: equal numbers are the same object only inside the "
                                 "interpreter's small-integer cache (-5..256), so the test fails for larger positions / counts" % norm(node)[:60],
                                 construct="%s: integer compared with `is`" % f.qual)
                        break
        for why, node in _late_binding(f.node):
            ctx.viol("N6", f, node, why)
        for why, node in _loop_variable_leaks(f.node):
            ctx.viol("N6", f, node, why)
        ctx.inst("N6", f, f.qual, "no deferred computation captures a loop-rebound variable")
    if ctx.extra.get("undecided") and not ctx.new_findings():
        raise AnalysisError("C04 " + "; ".join(ctx.extra["undecided"][:2]))
    if ctx.extra.get("N7_unfollowed") and not ctx.new_findings():
        raise AnalysisError("C04 N7: " + "; ".join(ctx.extra["N7_unfollowed"][:2]))
    ctx.floor("N1", 30)
    ctx.floor("N2", 8)
    ctx.floor("N3", 30)
    ctx.extra["effect_summary"] = {f.qual: sorted({e.kind for e in pur.effects(f)}) for f in members(p)}


def _order_of(e):
    """True: in child order; None: not followed; 'empty'; or a text saying how the order is disturbed"""
    if (isinstance(e, ast.Call) and norm(e.func) == "tuple" and not e.args) or (isinstance(e, ast.Tuple) and not e.elts):
        return "empty"
    if isinstance(e, ast.Call) and isinstance(e.func, ast.Name) and e.func.id in ("tuple", "list") and len(e.args) == 1:
        return _order_of(e.args[0])
    if isinstance(e, ast.Call) and isinstance(e.func, ast.Name) and e.func.id in ("reversed", "sorted", "set", "frozenset"):
        return "the result passes through %s()" % e.func.id
    if isinstance(e, (ast.GeneratorExp, ast.ListComp)):
        if len(e.generators) != 1:
            return None
        g = e.generators[0]
        it = g.iter
        if isinstance(it, ast.Call) and isinstance(it.func, ast.Name) and it.func.id in ("reversed", "sorted", "set", "frozenset"):
            return "the children are iterated through %s()" % it.func.id
        if isinstance(it, ast.Attribute) and it.attr in ("children", "__children_or_empty") and isinstance(e.elt, ast.Name) \
                and isinstance(g.target, ast.Name) and e.elt.id == g.target.id:
            return True
        return None
    if isinstance(e, ast.BinOp) and isinstance(e.op, ast.Add):
        parts = []

        def flat(x):
            if isinstance(x, ast.BinOp) and isinstance(x.op, ast.Add):
                flat(x.left)
                flat(x.right)
            else:
                parts.append(x)
        flat(e)
        rank = []
        base = None
        for prt in parts:
            if isinstance(prt, ast.Call) and isinstance(prt.func, ast.Name) and prt.func.id in ("tuple", "list") and len(prt.args) == 1:
                prt = prt.args[0]
            if not (isinstance(prt, ast.Subscript) and isinstance(prt.slice, ast.Slice) and prt.slice.step is None):
                return None
            b = norm(prt.value)
            if base is not None and b != base:
                return None
            base = b
            lo, hi = prt.slice.lower, prt.slice.upper
            if lo is None and hi is not None:
                rank.append(0)   # [:i]  the part before
            elif lo is not None and hi is None:
                rank.append(1)   # [i+1:] the part behind
            else:
                return None
        if rank == sorted(rank) and len(set(rank)) == len(rank):
            return True
        return "the part behind the node (`%s`) is placed before the part in front of it" % norm(parts[0])
    return None


def _late_binding(fnode):
    CONSUMERS = ("tuple", "list", "set", "frozenset", "any", "all", "sum", "max", "min", "sorted", "next", "dict", "len", "enumerate", "zip")
    out = []
    for loop in [n for n in walk_own(fnode) if isinstance(n, (ast.For, ast.While))]:
        rebound = set()
        for n in ast.walk(loop):
            if isinstance(n, ast.Name) and isinstance(n.ctx, ast.Store):
                rebound.add(n.id)
        parents = {}
        for n in ast.walk(loop):
            for c in ast.iter_child_nodes(n):
                parents[id(c)] = n
        for d in ast.walk(loop):
            if not isinstance(d, (ast.Lambda, ast.GeneratorExp, ast.FunctionDef)):
                continue
            if isinstance(d, ast.GeneratorExp):
                own = {x.id for g in d.generators for x in ast.walk(g.target) if isinstance(x, ast.Name)}
                deferred = [d.elt] + [c for g in d.generators for c in g.ifs] + [g.iter for g in d.generators[1:]]
            elif isinstance(d, ast.Lambda):
                own = {a.arg for a in d.args.args + d.args.kwonlyargs}
                deferred = [d.body]
            else:
                own = {a.arg for a in d.args.args + d.args.kwonlyargs} | {x.id for x in ast.walk(d) if isinstance(x, ast.Name) and isinstance(x.ctx, ast.Store)}
                deferred = list(d.body)
            free = {x.id for part in deferred for x in ast.walk(part) if isinstance(x, ast.Name) and isinstance(x.ctx, ast.Load)} - own
            # names the closure itself rebinds in comprehensions nested inside it do not count
            captured = sorted(free & rebound)
            if not captured:
                continue
            par = parents.get(id(d))
            consumed = False
            if isinstance(par, ast.Call) and any(a is d for a in par.args):
                fn = par.func
                if isinstance(fn, ast.Name) and fn.id in CONSUMERS:
                    consumed = True
                if isinstance(fn, ast.Attribute) and fn.attr in ("join", "extend", "update"):
                    consumed = True
                if isinstance(fn, ast.Name) and fn.id in ("filter", "map"):
                    gp = parents.get(id(par))
                    consumed = isinstance(gp, ast.Call) and isinstance(gp.func, ast.Name) and gp.func.id in CONSUMERS
            if isinstance(par, (ast.For, ast.comprehension)) and getattr(par, "iter", None) is d:
                consumed = True
            if isinstance(par, ast.keyword) and par.arg == "key":
                consumed = True
            if isinstance(d, ast.FunctionDef):
                # a nested def that is only called inside the same iteration
                calls = [c for c in ast.walk(loop) if isinstance(c, ast.Call) and isinstance(c.func, ast.Name) and c.func.id == d.name]
                uses = [x for x in ast.walk(loop) if isinstance(x, ast.Name) and x.id == d.name and isinstance(x.ctx, ast.Load)]
                consumed = bool(calls) and len(calls) == len(uses)
            if not consumed:
                out.append(("a %s created inside the loop reads %s, which the loop rebinds, and is not consumed on the spot: when it runs "
                            "it sees the last value only (late binding), so earlier iterations are ignored" % (
                                {"GeneratorExp": "generator expression", "Lambda": "lambda", "FunctionDef": "nested function"}[type(d).__name__],
                                ", ".join("`%s`" % c for c in captured)), d))
    return out


def _expand_defs(cfgnode, expr, depth=4):
    """names replaced by the value of their unique reaching definition (also when that value is a call)"""
    import copy
    from .common import reaching_def_nodes
    if depth <= 0:
        return expr

    class R(ast.NodeTransformer):
        def visit_Name(self, node):
            if isinstance(node.ctx, ast.Load):
                ds = reaching_def_nodes(cfgnode, node.id)
                if ds and len(ds) == 1:
                    return _expand_defs(ds[0], copy.deepcopy(ds[0].ast.value), depth - 1)
            return node
    return R().visit(copy.deepcopy(expr))


def _loop_variable_leaks(fnode):
    """a `for` target read after its loop (without being rebound) although the loop body did real work: the code goes on
    with the LAST element only (the pure counting idiom `for n, _ in enumerate(x): continue` is exempt)"""
    out = []

    def scan(stmts):
        for i, st in enumerate(stmts):
            for field in ("body", "orelse", "finalbody"):
                blk = getattr(st, field, None)
                if isinstance(blk, list) and blk and isinstance(blk[0], ast.stmt):
                    scan(blk)
            if isinstance(st, ast.Try):
                for h in st.handlers:
                    scan(h.body)
            if not isinstance(st, ast.For):
                continue
            trivial = all(isinstance(b, (ast.Pass, ast.Continue)) for b in st.body)
            if trivial:
                continue
            targets = {x.id for x in ast.walk(st.target) if isinstance(x, ast.Name)}
            for later in stmts[i + 1:]:
                stores = {x.id for x in ast.walk(later) if isinstance(x, ast.Name) and isinstance(x.ctx, ast.Store)}
                # reads that happen before any rebinding inside this later statement (approximation: statement level)
                for x in ast.walk(later):
                    if isinstance(x, ast.Name) and isinstance(x.ctx, ast.Load) and x.id in targets:
                        # a nested loop / comprehension of its own over the same name rebinds it first
                        rebinding = [c for c in ast.walk(later) if isinstance(c, (ast.For, ast.comprehension))
                                     and any(isinstance(t, ast.Name) and t.id == x.id for t in ast.walk(c.target))
                                     and any(y is x for y in ast.walk(c))]
                        if rebinding:
                            continue
                        out.append(("`%s` is the variable of the loop at line %d and is read after that loop ended: only the LAST "
                                    "element is used there (a leaked loop variable)" % (x.id, st.lineno), x))
                        targets = targets - {x.id}
                targets = targets - stores
                if not targets:
                    break
    scan(fnode.body)
    return out


def _last_iteration_only_loops(fnode, seqname):
    """-> [(for node, {names})]: for loops over (a slice / enumeration of) the argument tuple `seqname` in whose body no value
    is carried between iterations although names assigned in it are read after the loop.  Carried = some read of a name the
    body assigns that is not preceded, in the same iteration, by a definite assignment of it; an in-place mutation or
    augmented assignment of such a name; an exit (break/return/raise/yield) of this loop inside the body."""
    def derives(e):
        while True:
            if isinstance(e, ast.Subscript):
                e = e.value
            elif isinstance(e, ast.Call) and isinstance(e.func, ast.Name) and e.func.id in ("enumerate", "iter", "reversed", "list", "tuple") and e.args:
                e = e.args[0]
            else:
                break
        return isinstance(e, ast.Name) and e.id == seqname
    out = []
    body_all = list(ast.walk(fnode))
    for lp in body_all:
        if not (isinstance(lp, ast.For) and derives(lp.iter)):
            continue
        assigned = set()
        for st in lp.body:
            for n in ast.walk(st):
                if isinstance(n, ast.Name) and isinstance(n.ctx, ast.Store):
                    assigned.add(n.id)
        for n in ast.walk(lp.target):
            if isinstance(n, ast.Name):
                assigned.discard(n.id)
        loopvars = {n.id for n in ast.walk(lp.target) if isinstance(n, ast.Name)}
        carried = [False]

        def reads(e, definite):
            for n in ast.walk(e):
                if isinstance(n, ast.Name) and isinstance(n.ctx, ast.Load) and n.id in assigned and n.id not in definite:
                    carried[0] = True
                # in-place accumulation on something that lives across iterations
                if isinstance(n, ast.Call) and isinstance(n.func, ast.Attribute) and isinstance(n.func.value, ast.Name) \
                        and n.func.value.id not in definite and n.func.value.id not in loopvars \
                        and n.func.attr in ("append", "extend", "add", "update", "insert", "appendleft", "intersection_update", "difference_update", "pop", "remove", "clear", "setdefault"):
                    carried[0] = True

        def stores(t, definite):
            for n in ast.walk(t):
                if isinstance(n, ast.Name) and isinstance(n.ctx, ast.Store):
                    definite.add(n.id)
                elif isinstance(n, (ast.Subscript, ast.Attribute)) and isinstance(n.ctx, ast.Store):
                    carried[0] = True  # a store into an object: survives the iteration

        def block(stmts, definite, inner):
            for st in stmts:
                if isinstance(st, (ast.Return, ast.Raise)) or (isinstance(st, ast.Break) and not inner):
                    carried[0] = True
                if isinstance(st, ast.Assign):
                    reads(st.value, definite)
                    for t in st.targets:
                        stores(t, definite)
                elif isinstance(st, ast.AugAssign):
                    reads(st.value, definite)
                    if isinstance(st.target, ast.Name):
                        if st.target.id not in definite:
                            carried[0] = True
                    else:
                        carried[0] = True
                elif isinstance(st, ast.AnnAssign):
                    if st.value is not None:
                        reads(st.value, definite)
                        stores(st.target, definite)
                elif isinstance(st, ast.If):
                    reads(st.test, definite)
                    d1, d2 = set(definite), set(definite)
                    block(st.body, d1, inner)
                    block(st.orelse, d2, inner)
                    definite |= (d1 & d2)
                elif isinstance(st, (ast.For, ast.While)):
                    if isinstance(st, ast.For):
                        reads(st.iter, definite)
                        d1 = set(definite)
                        stores(st.target, d1)
                    else:
                        reads(st.test, definite)
                        d1 = set(definite)
                    block(st.body, d1, True)
                    block(st.orelse, set(definite), inner)
                elif isinstance(st, ast.Try):
                    d1 = set(definite)
                    block(st.body, d1, inner)
                    for h in st.handlers:
                        block(h.body, set(definite), inner)
                    block(st.orelse, d1, inner)
                    block(st.finalbody, set(definite), inner)
                elif isinstance(st, ast.With):
                    for it in st.items:
                        reads(it.context_expr, definite)
                        if it.optional_vars is not None:
                            stores(it.optional_vars, definite)
                    block(st.body, definite, inner)
                elif isinstance(st, (ast.Expr, ast.Assert, ast.Delete)):
                    for ch in ast.iter_child_nodes(st):
                        reads(ch, definite)
                    if isinstance(st, ast.Expr) and isinstance(st.value, (ast.Yield, ast.YieldFrom)):
                        carried[0] = True
                elif isinstance(st, (ast.Pass, ast.Continue, ast.Break, ast.Return, ast.Raise)):
                    for ch in ast.iter_child_nodes(st):
                        reads(ch, definite)
                else:
                    carried[0] = True  # anything else: do not judge
        block(lp.body, set(loopvars), False)
        if carried[0] or lp.orelse:
            continue
        after = set()
        end = getattr(lp, "end_lineno", lp.lineno)
        for n in body_all:
            if isinstance(n, ast.Name) and isinstance(n.ctx, ast.Load) and n.lineno > end and n.id in (assigned | loopvars):
                after.add(n.id)
        if after:
            out.append((lp, after))
    return out
