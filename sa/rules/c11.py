"""C11 — JSON export/import: delegation, option storage, maxlevel forwarding."""

import ast

from ..model import Func, AnalysisError, norm
from .common import find_calls, none_test, typer_for, walk_own
from .exporter_rules import rule_init_stores, rule_optint_truthiness

PROP = "C11"
LEVEL = "other"
TECHNIQUE = "static analysis: sibling agreement of export/write and import_/read, option def-use, optional-int lint"
EXPLANATION = (
    "J1 JsonExporter.export and .write obtain their data from the same callee applied to the node argument and pass "
    "**self.kwargs to json.dumps resp. json.dump (write also passes the file handle) and return/emit that result; "
    "JsonImporter.import_ and .read pass **self.kwargs to json.loads resp. json.load and hand the result to the same "
    "callee; the text parsed is the argument itself (or the handle's read()), at most through a helper that only skips a "
    "leading marker no JSON text can start with - any other alteration of the text is reported. J2 every constructor option is stored under its own name and every stored option is read on the "
    "export/import path. J3 maxlevel, when not None (None-test, not truthiness), is set on the dict exporter that is then "
    "used; the supplied dictexporter/dictimporter is used when given, a default DictExporter()/DictImporter() otherwise; "
    "the exported node / parsed data is passed unchanged. Not decided: value fidelity of json itself and of the dict "
    "round trip (C10)."
    " Added in round 16: J2 the children loop of DictImporter imports every entry (same clause as C10 X5)."
)
ASSUMPTIONS = ["json.dumps/json.dump and json.loads/json.load agree with each other for the same keyword options"]
JE = "anytree/exporter/jsonexporter.py"
JI = "anytree/importer/jsonimporter.py"


def _star_kwargs(call, selfname):
    return [k for k in call.keywords if k.arg is None and norm(k.value) == "%s.kwargs" % selfname]


def _fallback_var(func, cfg, field, default_cls):
    """variable holding `self.<field>` unless that is falsy/None, else `<default_cls>()`;
    recognises `x = self.f or D()`, `x = self.f` + `if not x: x = D()`, and the conditional-expression form"""
    selfattr = "%s.%s" % (func.selfname, field)

    def is_default(e):
        return isinstance(e, ast.Call) and norm(e.func) == default_cls and not e.args and not e.keywords
    cands = {}
    for n in walk_own(func.node):
        if isinstance(n, ast.Assign) and len(n.targets) == 1 and isinstance(n.targets[0], ast.Name):
            cands.setdefault(n.targets[0].id, []).append(n)
    for var, asg in cands.items():
        if len(asg) == 1:
            v = asg[0].value
            if isinstance(v, ast.BoolOp) and isinstance(v.op, ast.Or) and len(v.values) == 2 and norm(v.values[0]) == selfattr and is_default(v.values[1]):
                return var, asg[0]
            if isinstance(v, ast.IfExp) and norm(v.body) == selfattr and is_default(v.orelse) and norm(v.test) in (selfattr, selfattr + " is not None"):
                return var, asg[0]
        if len(asg) == 2:
            first = [a for a in asg if norm(a.value) == selfattr]
            second = [a for a in asg if is_default(a.value)]
            if len(first) == 1 and len(second) == 1:
                ok = False
                for cn in cfg.nodes_of(second[0]):
                    gs = cfg.guards_of(cn)
                    if len(gs) == 1:
                        c, o, _ = gs[0]
                        if norm(c) in (var, selfattr) and o is False:
                            ok = True
                        nt = none_test(c)
                        if nt is not None and nt[0] in (var, selfattr) and nt[1] == o:
                            ok = True
                if ok and not cfg.guards_of(cfg.nodes_of(first[0])[0]):
                    return var, first[0]
    return None, None


_JSON_START = set(' \t\r\n{["-0123456789tfnIN')


def _text_argument(p, f, call, argname, jf):
    """how the text handed to json.load(s) derives from the function's argument: "ok" (the argument itself, its .read(), or
    either through a helper that only skips a leading marker no JSON text can start with), ("<what>", node) when the text
    is altered, "undecided" otherwise; None when the plain pinned form applies"""
    a = call.args[0]
    if isinstance(a, ast.Name) and a.id != argname:
        # a local that is assigned more than once: every assignment must leave the text as it is
        defs = [n_ for n_ in walk_own(f.node) if isinstance(n_, ast.Assign) and any(isinstance(t_, ast.Name) and t_.id == a.id for t_ in n_.targets)]
        if len(defs) > 1:
            for d_ in defs:
                for x in ast.walk(d_.value):
                    if isinstance(x, ast.Call) and isinstance(x.func, ast.Attribute) and x.func.attr in ("replace", "strip", "lstrip", "rstrip", "translate", "lower", "upper"):
                        return (".%s()" % x.func.attr, x)
            return "undecided"
        from .common import resolve_local
        r_ = resolve_local(f, a)  # a temporary (e.g. from an inlined helper) standing for the argument
        if isinstance(r_, ast.Name) and r_.id == argname:
            return None if norm(call.func) == jf else "ok"
        a = r_ if r_ is not None else a
    if norm(call.func) == jf and isinstance(a, ast.Name) and a.id == argname:
        return None

    def plain(e):
        if isinstance(e, ast.Name) and e.id == argname:
            return norm(call.func) == "json.loads" and jf == "json.loads"
        if isinstance(e, ast.Call) and isinstance(e.func, ast.Attribute) and e.func.attr == "read" and not e.args and norm(e.func.value) == argname:
            return jf == "json.load"
        return False
    if plain(a):
        return "ok"
    if isinstance(a, ast.Call) and len(a.args) == 1 and not a.keywords and plain(a.args[0]):
        h = None
        if isinstance(a.func, ast.Attribute) and norm(a.func.value) in (f.selfname, f.cls.name if f.cls else ""):
            mem = f.cls.lookup(a.func.attr) if f.cls else None
            h = mem if isinstance(mem, Func) else None
        elif isinstance(a.func, ast.Name):
            r = p.resolve_name(f.module, a.func.id)
            h = r[1] if r is not None and r[0] == "func" else None
        if h is None:
            return "undecided"
        return _prefix_skip_helper(h)
    for x in ast.walk(a):
        if isinstance(x, ast.Call) and isinstance(x.func, ast.Attribute) and x.func.attr in ("replace", "strip", "lstrip", "rstrip", "translate", "lower", "upper"):
            return (".%s()" % x.func.attr, x)
    return "undecided"


def _prefix_skip_helper(h):
    ps = [q for q in h.posparams if q != h.selfname]
    if len(ps) != 1:
        return "undecided"
    t = ps[0]
    consts = {k: v.value for k, v in (h.module.assigns or {}).items() if isinstance(v, ast.Constant) and isinstance(v.value, str)}

    def const_of(e):
        if isinstance(e, ast.Constant) and isinstance(e.value, str):
            return e.value
        if isinstance(e, ast.Name) and e.id in consts:
            return consts[e.id]
        return None
    for x in walk_own(h.node):
        if isinstance(x, ast.Call) and isinstance(x.func, ast.Attribute) and norm(x.func.value) == t \
                and x.func.attr in ("replace", "strip", "lstrip", "rstrip", "translate", "lower", "upper"):
            return (".%s() in %s" % (x.func.attr, h.qual), x)
    vals = []
    for r in walk_own(h.node):
        if isinstance(r, ast.Return) and r.value is not None:
            vals.extend([(r.value.body, r.value.test), (r.value.orelse, None)] if isinstance(r.value, ast.IfExp) else [(r.value, None)])
    if not vals:
        return "undecided"
    for v, test in vals:
        if isinstance(v, ast.Name) and v.id == t:
            continue
        # t[len(P):] / t[k:] under t.startswith(P)
        if isinstance(v, ast.Subscript) and norm(v.value) == t and isinstance(v.slice, ast.Slice) and v.slice.upper is None and v.slice.step is None \
                and v.slice.lower is not None:
            guards = [test] if test is not None else []
            for n_ in walk_own(h.node):
                if isinstance(n_, ast.If) and any(y is v for st_ in n_.body for y in ast.walk(st_)):
                    guards.append(n_.test)
            pref = None
            for g in guards:
                for c_ in ast.walk(g):
                    if isinstance(c_, ast.Call) and isinstance(c_.func, ast.Attribute) and c_.func.attr == "startswith" and norm(c_.func.value) == t \
                            and len(c_.args) == 1 and const_of(c_.args[0]):
                        pref = const_of(c_.args[0])
            lo = v.slice.lower
            k = None
            if isinstance(lo, ast.Constant) and isinstance(lo.value, int):
                k = lo.value
            elif isinstance(lo, ast.Call) and norm(lo.func) == "len" and len(lo.args) == 1 and const_of(lo.args[0]) is not None:
                k = len(const_of(lo.args[0]))
            if pref and k == len(pref) and pref[0] not in _JSON_START:
                continue
            return ("a slice `%s` that is not the removal of a leading marker no JSON text starts with" % norm(v), v)
        return "undecided"
    return "ok"


def run(ctx):
    p = ctx.p
    typer = typer_for(ctx)
    from .common import rule_word_membership
    rule_word_membership(ctx, typer, [g for g in p.all_funcs if g.module.relpath in ("anytree/exporter/jsonexporter.py", "anytree/importer/jsonimporter.py", "anytree/exporter/dictexporter.py", "anytree/importer/dictimporter.py")], "J1")
    # ------------------------------------------------------------ exporter
    exp, wr, _exp = p.func("JsonExporter", "export"), p.func("JsonExporter", "write"), p.func("JsonExporter", "_export")
    sources = {}
    for f, jf, nargs in ((exp, "json.dumps", 1), (wr, "json.dump", 2)):
        ctx.touch(f)
        calls = find_calls(f, lambda c: norm(c.func) == jf)
        if len(calls) != 1:
            ctx.viol("J1", f, f.node, "%s does not call %s exactly once" % (f.qual, jf), construct="%s: %s call" % (f.qual, jf))
            continue
        c = calls[0]
        if _star_kwargs(c, f.selfname) and len(c.keywords) == 1:
            ctx.inst("J1", f, c, "**self.kwargs passed to %s" % jf)
        else:
            ctx.viol("J1", f, c, "%s is called without exactly **self.kwargs: the exporter's json options are dropped or altered" % jf,
                     construct="%s: %s keywords" % (f.qual, jf))
        # first argument: data = self._export(node)
        a0 = c.args[0] if c.args else None
        src = a0
        if isinstance(a0, ast.Name):
            for n in walk_own(f.node):
                if isinstance(n, ast.Assign) and any(isinstance(t, ast.Name) and t.id == a0.id for t in n.targets):
                    src = n.value
        sources[f.srcname] = norm(src) if src is not None else None
        good = isinstance(src, ast.Call) and norm(src.func) == "%s._export" % f.selfname and len(src.args) == 1 \
            and norm(src.args[0]) == "node" and not src.keywords
        if good:
            ctx.inst("J1", f, c, "data is self._export(node)")
        else:
            ctx.viol("J1", f, c, "%s serialises `%s`, not self._export(node)" % (f.qual, norm(src) if src is not None else "?"),
                     construct="%s: data source" % f.qual)
        if nargs == 2:
            if len(c.args) == 2 and norm(c.args[1]) == "filehandle":
                ctx.inst("J1", f, c, "written to the given file handle")
            else:
                ctx.viol("J1", f, c, "json.dump is not given (data, filehandle)", construct="write: json.dump positional args")
        elif len(c.args) != 1:
            ctx.viol("J1", f, c, "json.dumps is not given exactly the data", construct="export: json.dumps positional args")
        rets = [r for r in walk_own(f.node) if isinstance(r, ast.Return)]
        if f is exp:
            if len(rets) == 1 and rets[0].value is c:
                ctx.inst("J1", f, rets[0], "returns the json.dumps text")
            elif any(r.value is c for r in rets) and all(r.value is c or (isinstance(r.value, ast.Call) and isinstance(r.value.func, ast.Attribute)
                                                          and r.value.func.attr == "encode") for r in rets):
                # the text may also come from a json.JSONEncoder kept by the exporter: that this encoder is the one json.dumps would
                # build for the current options is knowledge about the json module and about object state over calls
                ctx.extra.setdefault("undecided", []).append("J1: JsonExporter.export also returns `%s`: an encoder object used in place of json.dumps is not followed" % next(
                    norm(r.value) for r in rets if r.value is not c)[:50])
            else:
                ctx.viol("J1", f, f.node, "export() does not return the json.dumps result unchanged", construct="export: return value")
    if len(set(sources.values())) > 1:
        ctx.viol("J1", wr, wr.node, "export() and write() serialise different data: %s" % sources, construct="export/write data sources differ")
    # _export: J3
    ctx.touch(_exp)
    cfg = typer.cfg_of(_exp)
    de, de_stmt = _fallback_var(_exp, cfg, "dictexporter", "DictExporter")
    if de is not None:
        ctx.inst("J3", _exp, de_stmt, "supplied dictexporter if given, else DictExporter()")
    scope_fns = [_exp]
    for n_ in walk_own(_exp.node):
        if isinstance(n_, ast.Call) and isinstance(n_.func, ast.Attribute) and norm(n_.func.value) == _exp.selfname and _exp.cls is not None:
            mem_ = _exp.cls.lookup(n_.func.attr)
            if isinstance(mem_, Func) and mem_ not in scope_fns:
                scope_fns.append(mem_)
    scope_nodes = [n_ for g_ in scope_fns for n_ in walk_own(g_.node)]
    uses_given = any(isinstance(n_, ast.Attribute) and n_.attr == "dictexporter" and isinstance(n_.value, ast.Name) and n_.value.id == "self" for n_ in scope_nodes)
    builds_default = any(isinstance(n_, ast.Call) and norm(n_.func) == "DictExporter" for n_ in scope_nodes)
    sets_level = any(isinstance(n_, ast.Assign) and any(isinstance(t_, ast.Attribute) and t_.attr == "maxlevel" for t_ in n_.targets)
                     and norm(n_.value) == "self.maxlevel" for n_ in scope_nodes)
    if de is None and uses_given and builds_default and not sets_level:
        ctx.viol("J3", _exp, _exp.node, "self.maxlevel is never assigned to the dict exporter that is used: a supplied dictexporter ignores the "
                 "JsonExporter's maxlevel", construct="_export: maxlevel forwarding")
    elif de is None and uses_given and builds_default:
        # both sources are there but combined in another way (e.g. the built-in exporter kept in a private field and reused):
        # whether a reused exporter always follows self.maxlevel is not decided by this rule
        ctx.extra.setdefault("undecided", []).append("J3: how JsonExporter._export chooses / reuses its dict exporter is not followed")
    elif de is None:
        ctx.viol("J3", _exp, _exp.node, "the dict exporter used is not `self.dictexporter or DictExporter()`", construct="_export: exporter selection")
    else:
        st = [n for n in walk_own(_exp.node) if isinstance(n, ast.Assign) and isinstance(n.targets[0], ast.Attribute)
              and norm(n.targets[0]) == "%s.maxlevel" % de]
        ok = False
        from .common import reaching_def_nodes

        def _val(e_, at_):
            """text of the value: a local whose only reaching binding is `x = self.maxlevel` stands for self.maxlevel"""
            if isinstance(e_, ast.Name):
                ds_ = reaching_def_nodes(at_, e_.id)
                if ds_ and len(ds_) == 1:
                    return norm(ds_[0].ast.value)
            return norm(e_)
        for s_ in st:
            for cn in cfg.nodes_of(s_):
                if _val(s_.value, cn) != "self.maxlevel":
                    continue
                gs = cfg.guards_of(cn)
                if len(gs) == 1:
                    nt = none_test(gs[0][0])
                    subj = gs[0][0].left if isinstance(gs[0][0], ast.Compare) else None
                    if nt is not None and subj is not None and _val(subj, gs[0][2]) == "self.maxlevel" and (nt[1] is False) == (gs[0][1] is True):
                        ok = True
        if ok:
            ctx.inst("J3", _exp, st[0], "maxlevel forwarded to the dict exporter when it is not None")
        else:
            ctx.viol("J3", _exp, _exp.node, "self.maxlevel is not forwarded to the dict exporter under exactly `self.maxlevel is not None`",
                     construct="_export: maxlevel forwarding")
        rets = [r for r in walk_own(_exp.node) if isinstance(r, ast.Return)]
        good = len(rets) == 1 and isinstance(rets[0].value, ast.Call) and norm(rets[0].value.func) == "%s.export" % de \
            and [norm(a) for a in rets[0].value.args] == ["node"] and not rets[0].value.keywords
        if good:
            ctx.inst("J3", _exp, rets[0], "exports the given node with that exporter")
        else:
            ctx.viol("J3", _exp, _exp.node, "_export does not return <dictexporter>.export(node)", construct="_export: return value")
    rule_init_stores(ctx, "JsonExporter", rule="J2")
    rule_init_stores(ctx, "JsonImporter", rule="J2")
    init = p.func("JsonExporter", "__init__")
    if init.node.args.kwarg is None or not any(isinstance(n, ast.Assign) and norm(n.targets[0]) == "self.kwargs" and norm(n.value) == init.node.args.kwarg.arg
                                               for n in walk_own(init.node)):
        ctx.viol("J2", init, init.node, "JsonExporter.__init__ does not store **kwargs as self.kwargs", construct="JsonExporter.__init__: kwargs")
    else:
        ctx.inst("J2", init, "self.kwargs = kwargs", "json options stored")
    # stored options are read
    for clsname, fields in (("JsonExporter", ("dictexporter", "maxlevel", "kwargs")), ("JsonImporter", ("dictimporter", "kwargs"))):
        cls = p.cls(clsname)
        for fld in fields:
            read = False
            for f in cls.funcs():
                if f.srcname == "__init__":
                    continue
                for n in walk_own(f.node):
                    if isinstance(n, ast.Attribute) and isinstance(n.ctx, ast.Load) and n.attr == fld and norm(n.value) == f.selfname:
                        read = True
            if read:
                ctx.inst("J2", "%s %s" % (cls.module.relpath, clsname), "self.%s" % fld, "stored option is read on the export/import path")
            else:
                f = p.func(clsname, "__init__")
                ctx.viol("J2", f, f.node, "option %s is stored but never read: the setting has no effect" % fld, construct="%s.%s unread" % (clsname, fld))
    # ------------------------------------------------------------ importer
    imp, rd, _imp = p.func("JsonImporter", "import_"), p.func("JsonImporter", "read"), p.func("JsonImporter", "__import")
    ctx.touch(_imp)
    helper_params = _imp.posparams[1:]
    results = {}
    for f, jf, argname in ((imp, "json.loads", "data"), (rd, "json.load", "filehandle")):
        ctx.touch(f)
        argname = f.posparams[1]
        rets = [r for r in walk_own(f.node) if isinstance(r, ast.Return)]
        outer = rets[0].value if len(rets) == 1 else None
        direct = find_calls(f, lambda c: norm(c.func) == jf)
        parsed_via = None
        if not direct and jf == "json.load":
            # json.load(fh) is json.loads(fh.read()): reading the handle and parsing the text is the same call sequence
            direct = find_calls(f, lambda c: norm(c.func) == "json.loads")
        if len(direct) == 1:
            c = direct[0]
            verdict = _text_argument(p, f, c, argname, jf) if (_star_kwargs(c, f.selfname) and len(c.keywords) == 1 and len(c.args) == 1) else None
            if verdict == "undecided":
                ctx.extra.setdefault("undecided", []).append("J1: how %s prepares the text for %s (`%s`) is not followed" % (f.qual, norm(c.func), norm(c.args[0])[:60]))
                ctx.inst("J1", f, c, "json call found (text preparation not followed)")
            elif isinstance(verdict, tuple):
                ctx.viol("J1", f, verdict[1], "the JSON text is altered before it is parsed (%s): what is imported is no longer what was "
                         "exported" % verdict[0], construct="%s: text altered by %s" % (f.qual, verdict[0]))
            elif verdict == "ok":
                ctx.inst("J1", f, c, "%s(<the text of %s>, **self.kwargs)" % (norm(c.func), argname))
            elif _star_kwargs(c, f.selfname) and len(c.keywords) == 1 and [norm(a) for a in c.args] == [argname]:
                ctx.inst("J1", f, c, "%s(%s, **self.kwargs)" % (jf, argname))
            else:
                ctx.viol("J1", f, c, "%s is not called as %s(%s, **self.kwargs)" % (jf, jf, argname), construct="%s: %s arguments" % (f.qual, jf))
            src = c
            if isinstance(outer, ast.Call) and outer.args and isinstance(outer.args[0], ast.Name):
                for n in walk_own(f.node):
                    if isinstance(n, ast.Assign) and any(isinstance(t, ast.Name) and t.id == outer.args[0].id for t in n.targets) and n.value is c:
                        src = outer.args[0]
            if isinstance(outer, ast.Call) and len(outer.args) == 1 and (outer.args[0] is c or outer.args[0] is src) and not outer.keywords \
                    and norm(outer.func) == "%s.__import" % f.selfname:
                parsed_via = "direct"
                ctx.inst("J1", f, outer, "parsed data handed to self.__import")
            else:
                ctx.viol("J1", f, f.node, "%s does not return self.__import(<parsed json>)" % f.qual, construct="%s: return value" % f.qual)
        elif isinstance(outer, ast.Call) and norm(outer.func) == "%s.__import" % f.selfname and not outer.keywords and len(outer.args) == 2 \
                and len(helper_params) == 2 and norm(outer.args[0]) == jf and norm(outer.args[1]) == argname:
            # the json function is passed to the private helper, which applies it: self.__import(json.loads, data)
            lp, sp = helper_params
            applied = [c for c in walk_own(_imp.node) if isinstance(c, ast.Call) and isinstance(c.func, ast.Name) and c.func.id == lp]
            okh = len(applied) == 1 and [norm(a) for a in applied[0].args] == [sp] and _star_kwargs(applied[0], _imp.selfname) and len(applied[0].keywords) == 1
            if okh:
                parsed_via = "helper"
                ctx.inst("J1", f, outer, "%s is applied by the shared helper as load(source, **self.kwargs)" % jf)
            else:
                ctx.viol("J1", f, outer, "the helper does not apply the json function as load(source, **self.kwargs)", construct="%s: helper application" % f.qual)
        else:
            ctx.viol("J1", f, f.node, "%s does not parse its argument with %s(%s, **self.kwargs) and hand the result to self.__import" % (f.qual, jf, argname),
                     construct="%s: %s call" % (f.qual, jf))
        results[f.srcname] = parsed_via
    if len(set(results.values())) > 1:
        ctx.viol("J1", rd, rd.node, "import_() and read() reach the dict importer in different ways: %s" % results, construct="import_/read differ")
    icfg = typer.cfg_of(_imp)
    di, di_stmt = _fallback_var(_imp, icfg, "dictimporter", "DictImporter")
    if di is not None:
        ctx.inst("J3", _imp, di_stmt, "supplied dictimporter if given, else DictImporter()")
    rets = [r for r in walk_own(_imp.node) if isinstance(r, ast.Return)]
    from .common import resolve_local
    good = False
    if di and len(rets) == 1 and isinstance(rets[0].value, ast.Call) and norm(rets[0].value.func) == "%s.import_" % di \
            and len(rets[0].value.args) == 1 and not rets[0].value.keywords:
        a0 = rets[0].value.args[0]
        if results.get("import_") == "helper":
            r0 = resolve_local(_imp, a0)
            good = isinstance(r0, ast.Call) and isinstance(r0.func, ast.Name) and r0.func.id == helper_params[0]
        else:
            good = norm(a0) == _imp.posparams[1]
    if good:
        ctx.inst("J3", _imp, rets[0], "imports the parsed data unchanged with that importer")
    else:
        ctx.viol("J3", _imp, _imp.node, "__import does not return (self.dictimporter or DictImporter()).import_(<parsed data>)", construct="JsonImporter.__import")
    rule_optint_truthiness(ctx, typer, {JE, JI}, rule="J3")
    from .c10 import rule_children_all_imported
    rule_children_all_imported(ctx, typer, "J2")
    if ctx.extra.get("undecided") and not ctx.new_findings():
        raise AnalysisError("C11 " + "; ".join(ctx.extra["undecided"][:2]))
    ctx.floor("J1", 6)
    ctx.floor("J2", 6)
    ctx.floor("J3", 4)
