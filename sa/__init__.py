"""Static-analysis engine for the anytree verification checks (stdlib only).

Nothing under /repo is imported or executed: every module is parsed with
``ast`` and the checks decide rules on the resulting program model.
"""
