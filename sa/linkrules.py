"""Syntax/dataflow rules about the link storage of the mixins:
W1 (who may write a link), W6 (no mutable list escapes), W8 (assertions are
guarded and pure), E3 (duplicates by identity), E5c (constructors delegate),
H6 (hooks are called nowhere else, defaults are empty)."""

import ast

from . import tables as T
from .model import AnalysisError, Func, Prop, mangle, norm, strip_doc
from .rules.common import walk_own

WRITER_FUNCS = ("__detach", "__attach", "__children_or_empty")
STRING_WRITE_CALLS = ("setattr", "delattr", "__setattr__", "__delattr__", "pop", "update", "setdefault", "__setitem__",
                      "__delitem__", "popitem")


def link_fields(program):
    out = {}
    for m in T.MIXINS:
        program.cls(m)
        out["_%s__parent" % m] = (m, "parent")
        out["_%s__children" % m] = (m, "children")
    return out


def _mangled(func, attr):
    return mangle(func.cls.name, attr) if func.cls is not None else attr


def children_aliases(func, fields):
    """local names bound (by plain assignment) to a raw children list"""
    al = set()
    changed = True
    while changed:
        changed = False
        for n in walk_own(func.node):
            if isinstance(n, ast.Assign) and len(n.targets) == 1 and isinstance(n.targets[0], ast.Name):
                if is_raw_children(func, n.value, fields, al) and n.targets[0].id not in al:
                    al.add(n.targets[0].id)
                    changed = True
    return al


def is_raw_children(func, e, fields, aliases):
    if isinstance(e, ast.Attribute):
        m = _mangled(func, e.attr)
        if m in fields and fields[m][1] == "children":
            return True
        if m.endswith("__children_or_empty") and m.startswith("_"):
            return True
        return False
    if isinstance(e, ast.Name):
        return e.id in aliases
    if isinstance(e, ast.IfExp):
        return is_raw_children(func, e.body, fields, aliases) or is_raw_children(func, e.orelse, fields, aliases)
    if isinstance(e, ast.BoolOp):
        return any(is_raw_children(func, v, fields, aliases) for v in e.values)
    if isinstance(e, ast.NamedExpr):
        return is_raw_children(func, e.value, fields, aliases)
    return False


def link_write_sites(program):
    """Every construct that writes a link field: list of (func, node, field key, how)."""
    fields = link_fields(program)
    sites = []
    for func in program.all_funcs:
        aliases = children_aliases(func, fields)
        for n in walk_own(func.node):
            if isinstance(n, ast.Attribute) and isinstance(n.ctx, (ast.Store, ast.Del)):
                m = _mangled(func, n.attr)
                if m in fields:
                    sites.append((func, n, m, "store" if isinstance(n.ctx, ast.Store) else "delete"))
            elif isinstance(n, ast.Call) and isinstance(n.func, ast.Attribute):
                if n.func.attr in T.MUTATING_METHODS and is_raw_children(func, n.func.value, fields, aliases):
                    owner = _owner_of(func, n.func.value, fields)
                    sites.append((func, n, owner, "mutating call .%s()" % n.func.attr))
                if n.func.attr in STRING_WRITE_CALLS:
                    for a in list(n.args) + [k.value for k in n.keywords]:
                        for c in ast.walk(a):
                            if isinstance(c, ast.Constant) and c.value in fields:
                                sites.append((func, n, c.value, "string-named write via %s" % n.func.attr))
            elif isinstance(n, ast.Call) and isinstance(n.func, ast.Name) and n.args and is_raw_children(func, n.args[0], fields, aliases) \
                    and _removal_helper(program, func, n.func.id):
                # the raw list handed to a package helper that deletes one element (found by identity) in place
                sites.append((func, n, _owner_of(func, n.args[0], fields), "in-place removal through %s()" % n.func.id))
            elif isinstance(n, ast.Call) and isinstance(n.func, ast.Name) and n.func.id in ("setattr", "delattr"):
                for a in n.args:
                    if isinstance(a, ast.Constant) and a.value in fields:
                        sites.append((func, n, a.value, "string-named write via %s" % n.func.id))
            elif isinstance(n, ast.Subscript) and isinstance(n.ctx, (ast.Store, ast.Del)):
                if is_raw_children(func, n.value, fields, aliases):
                    sites.append((func, n, _owner_of(func, n.value, fields), "item store on the children list"))
                elif isinstance(n.slice, ast.Constant) and n.slice.value in fields:
                    if isinstance(n.value, ast.Name) and _only_fresh_reaches(func, n):
                        continue  # every definition that reaches this store is a private copy (dict(state), {...}, x.copy())
                    sites.append((func, n, n.slice.value, "string-keyed store (__dict__)"))
            elif isinstance(n, ast.AugAssign) and isinstance(n.target, ast.Name) and n.target.id in aliases:
                sites.append((func, n, _owner_of(func, n.target, fields), "augmented assignment on the children list"))
    return sites


def _only_fresh_reaches(func, sub):
    """the subscripted name holds, at this statement, only values freshly built by dict(...)/{...}/.copy()"""
    from .cfg import CFG
    from .rules.depthmodel import reaching_defs
    from .rules.common import cfg_nodes_containing
    cfg = CFG(func.node, func.body, name=func.where)
    hs = cfg_nodes_containing(cfg, sub)
    if not hs:
        return False
    defs = reaching_defs(hs[0], sub.value.id)
    if not defs:
        return False
    for d in defs:
        v = d.ast.value
        fresh = (isinstance(v, ast.Call) and isinstance(v.func, ast.Name) and v.func.id == "dict") or isinstance(v, (ast.Dict, ast.DictComp)) \
            or (isinstance(v, ast.Call) and isinstance(v.func, ast.Attribute) and v.func.attr == "copy" and not v.args)
        if not fresh:
            return False
    return True


def _removal_helper(program, func, name):
    from .events import _is_identity_removal_helper
    r = program.resolve_name(func.module, name)
    return r is not None and r[0] == "func" and _is_identity_removal_helper(r[1].node)


def _owner_of(func, e, fields):
    if func.cls is not None and func.cls.name in T.MIXINS:
        return "_%s__children" % func.cls.name
    return "?children"


def is_new_unused_api(ctx, func):
    """a public method that does not exist at the pinned commit and that nothing else in the package uses: new API, not
    part of what the property is stated for (it is judged as soon as an existing member calls it)"""
    from .newoptions import load_signatures
    pinned = load_signatures()
    top = func
    while getattr(top, "outer", None) is not None:
        top = top.outer
    if top.cls is None or top.srcname.startswith("_") or top.kind != "method":
        return False
    if "%s.%s" % (top.cls.name, top.srcname) in pinned.get(top.module.relpath, {}):
        return False
    for g in ctx.p.all_funcs:
        if g is top:
            continue
        for x in walk_own(g.node):
            if isinstance(x, ast.Attribute) and x.attr == top.srcname:
                return False
            if isinstance(x, ast.Constant) and x.value == top.srcname:
                return False
    return True


def rule_W1(ctx):
    fields = link_fields(ctx.p)
    sites = link_write_sites(ctx.p)
    per = {m: 0 for m in T.MIXINS}
    for func, node, field, how in sites:
        owner = fields[field][0] if field in fields else (func.cls.name if func.cls else "?")
        private = func.srcname.startswith("__") and not func.srcname.endswith("__")
        accessor = func.kind in ("setter", "deleter") and func.srcname in ("parent", "children")
        ok = func.cls is not None and func.cls.name == owner and (func.srcname in WRITER_FUNCS or private or accessor) and func.outer is None
        if ok:
            per[owner] = per.get(owner, 0) + 1
            ctx.inst("W1", func, node, "link write (%s) inside the owning mixin's writer" % how)
        elif func.cls is not None and func.cls.name == owner and is_new_unused_api(ctx, func):
            # a new public method that edits the links directly: whether it keeps both views paired is a new obligation that the
            # rules for the existing entry points do not cover
            ctx.extra.setdefault("undecided", []).append("W1: the new public method %s writes the link field %s directly (%s): that it keeps the "
                                                         "parent and children views paired is not followed" % (func.qual, field, how))
        else:
            ctx.viol("W1", func, node, "link field %s written (%s) outside the private machinery of %s (its name-mangled methods "
                     "and the parent/children accessors): the parent/children views can be changed without the paired update" % (
                         field, how, owner))
    for m, cnt in per.items():
        if cnt < 2:
            raise AnalysisError("W1 found only %d link-write sites in %s (5 confirmed on the pinned tree)" % (cnt, m))
    return sites


def rule_W10_one_shot(ctx):
    """a generator object (the result of calling a generator method of the mixin, e.g. iter_path_reverse()) kept in a local
    is exhausted by its first consumer: reading that local inside a loop, or more than once, gives the later readers nothing"""
    n = 0
    for m in T.MIXINS:
        cls = ctx.p.cls(m)
        gens = {f.srcname for f in cls.funcs() if f.kind == "method" and any(isinstance(x, (ast.Yield, ast.YieldFrom)) for x in walk_own(f.node))}
        for func in cls.funcs():
            for a in walk_own(func.node):
                if not (isinstance(a, ast.Assign) and len(a.targets) == 1 and isinstance(a.targets[0], ast.Name) and isinstance(a.value, ast.Call)
                        and isinstance(a.value.func, ast.Attribute) and a.value.func.attr in gens):
                    continue
                v = a.targets[0].id
                n += 1
                consuming = set()
                for y in walk_own(func.node):
                    if isinstance(y, (ast.For, ast.comprehension)) and isinstance(y.iter, ast.Name) and y.iter.id == v:
                        consuming.add(id(y.iter))
                    elif isinstance(y, ast.Call):
                        for arg in list(y.args) + [k.value for k in y.keywords]:
                            if isinstance(arg, ast.Name) and arg.id == v:
                                consuming.add(id(arg))
                            elif isinstance(arg, ast.Starred) and isinstance(arg.value, ast.Name) and arg.value.id == v:
                                consuming.add(id(arg.value))
                reads = [x for x in walk_own(func.node) if isinstance(x, ast.Name) and x.id == v and isinstance(x.ctx, ast.Load) and id(x) in consuming]
                in_loop = []
                for lp in walk_own(func.node):
                    if isinstance(lp, (ast.For, ast.While)):
                        body_ids = {id(y) for st in lp.body for y in ast.walk(st)}
                        in_loop += [x for x in reads if id(x) in body_ids]
                if in_loop or len(reads) > 1:
                    ctx.viol("W10", func, (in_loop or reads)[0], "`%s` holds a generator (%s()): its first consumer exhausts it, so %s sees an empty "
                             "sequence - a check made against it passes vacuously" % (v, a.value.func.attr, "every later loop iteration" if in_loop else "the second reader"),
                             construct="%s: one-shot generator `%s` reused" % (func.qual, v))
                else:
                    ctx.inst("W10", func, a, "generator consumed once")
    return n


def rule_W6(ctx):
    fields = link_fields(ctx.p)
    n = 0
    for m in T.MIXINS:
        cls = ctx.p.cls(m)
        for func in cls.funcs():
            aliases = children_aliases(func, fields)
            private = func.name.startswith("_%s__" % m)
            for node in walk_own(func.node):
                val = None
                if isinstance(node, ast.Return) and node.value is not None:
                    val = node.value
                elif isinstance(node, (ast.Yield, ast.YieldFrom)) and node.value is not None:
                    val = node.value
                if val is None:
                    continue
                raw = is_raw_children(func, val, fields, aliases)
                if private:
                    if raw:
                        ctx.inst("W6", func, node, "raw list returned by a name-mangled private member (not reachable from outside)")
                        n += 1
                    continue
                n += 1
                if raw:
                    ctx.viol("W6", func, node, "public member hands out the mutable children list itself: callers can edit "
                             "one direction of the link without the other")
                else:
                    ctx.inst("W6", func, node, "does not alias the children list")
    # the private raw accessor must not be reachable under its mangled name from elsewhere
    for func in ctx.p.all_funcs:
        for node in walk_own(func.node):
            name = None
            if isinstance(node, ast.Attribute):
                name = node.attr
            elif isinstance(node, ast.Constant) and isinstance(node.value, str):
                name = node.value
            if name is None:
                continue
            for m in T.MIXINS:
                if name == "_%s__children_or_empty" % m and not (func.cls is not None and func.cls.name == m):
                    ctx.viol("W6", func, node, "the raw-list accessor of %s is used from outside the class" % m)
    return n


def rule_W8(ctx, typer):
    from .cfg import CFG
    from .purity import Purity
    purity = Purity(ctx.p, typer)
    n = 0
    # the assertion switch belongs to the structural code: the node package (an assert elsewhere is not C01's subject)
    for func in [g for g in ctx.p.all_funcs if g.module.relpath.startswith("anytree/node/")]:
        asserts = [x for x in walk_own(func.node) if isinstance(x, ast.Assert)]
        if not asserts:
            continue
        cfg = typer.cfg_of(func)
        ft = typer.results.get(func)
        in_finally = set()
        for t_ in walk_own(func.node):
            if isinstance(t_, ast.Try):
                for s_ in t_.finalbody:
                    for x in ast.walk(s_):
                        if isinstance(x, ast.Assert):
                            in_finally.add(id(x))
        for a in asserts:
            n += 1
            if id(a) in in_finally:
                ctx.viol("W8", func, a, "assert sits in a `finally` clause: it is also evaluated when the guarded block was left by an "
                         "exception (a refused or vetoed call), where the state it describes was never reached - with assertions "
                         "on, an AssertionError replaces the caller's exception")
                continue
            nodes = cfg.nodes_of(a)
            guarded = bool(nodes)
            for cn in nodes:
                gs = cfg.guards_of(cn)
                if not any(isinstance(c, ast.Name) and c.id == "ASSERTIONS" and outcome is True for c, outcome, _ in gs):
                    guarded = False
            t = a.test
            if isinstance(t, ast.BoolOp) and isinstance(t.op, ast.Or) and isinstance(t.values[0], ast.UnaryOp) \
                    and isinstance(t.values[0].op, ast.Not) and isinstance(t.values[0].operand, ast.Name) and t.values[0].operand.id == "ASSERTIONS":
                guarded = True  # `assert not ASSERTIONS or <test>`: the test is evaluated only when assertions are on
            r = ctx.p.resolve_name(func.module, "ASSERTIONS")
            from_config = r is not None and r[0] == "const" and "ANYTREE_ASSERTIONS" in norm(r[1])
            if not guarded or not from_config:
                ctx.viol("W8", func, a, "assert is not control-dependent on anytree.config.ASSERTIONS: the two settings of "
                         "ANYTREE_ASSERTIONS no longer run the same code")
                continue
            impure = None
            for c in ast.walk(a.test):
                if isinstance(c, ast.Call):
                    res = ft.calls.get(id(c)) if ft is not None else None
                    pure = res is not None and res.kind == "builtin" and res.name in T.PURE_BUILTINS
                    if not pure and res is not None and res.kind == "func" and purity is not None:
                        ts = res.target if isinstance(res.target, list) else [res.target]
                        pure = all(not [e for e in purity.effects(t) if e.kind != "lazyinit"] for t in ts)
                    if not pure:
                        impure = c
                elif isinstance(c, (ast.NamedExpr, ast.Yield, ast.YieldFrom, ast.Await)):
                    impure = c
            if impure is not None:
                ctx.viol("W8", func, a, "assertion test contains a call that is not a pure builtin (%s): enabling "
                         "assertions could change behaviour" % norm(impure))
            else:
                ctx.inst("W8", func, a, "guarded by ASSERTIONS, pure test")
    return n


def rule_E3(ctx, typer):
    """duplicate children are detected by id(), not by equality/hash of the node (wherever the validation lives:
    the private checker or, after a refactoring, the children setter itself)"""
    from .nodetype import has_node, show
    n = 0
    for m in T.MIXINS:
        cls = ctx.p.cls(m)
        found = False
        setter = ctx.p.func(m, "children", "setter")
        for func in cls.funcs():
            ft = typer.results.get(func) or typer.analyze(func)
            cfg = typer.cfg_of(func)
            for node in cfg.stmt_nodes(("raisestmt",)):
                if "TreeError" not in norm(node.ast.exc):
                    continue
                for cond, outcome, g in cfg.guards_of(node):
                    if isinstance(cond, ast.Compare) and len(cond.ops) == 1 and isinstance(cond.ops[0], (ast.In, ast.NotIn)):
                        tl = ft.type_of(cond.left)
                        n += 1
                        found = True
                        if tl is not None and tl == frozenset(["id"]):
                            ctx.inst("E3", func, cond, "duplicate test on id() values (%s)" % show(tl))
                        else:
                            ctx.viol("E3", func, cond, "duplicate-children test is a membership test on %s, not on id() values: "
                                     "distinct nodes that compare equal are refused (or unhashable nodes fail)" % show(tl))
        if not found:
            ctx.viol("E3", setter, setter.node, "no duplicate-children refusal (TreeError guarded by an id() membership test) "
                     "found: a child listed twice is no longer refused", construct="%s: duplicate refusal missing" % m)
    return n


def rule_E5_constructors(ctx, typer):
    """Node / AnyNode / SymlinkNode constructors delegate to the setters."""
    n = 0
    for cname in ("Node", "AnyNode", "SymlinkNode"):
        func = ctx.p.func(cname, "__init__")
        cfg = typer.cfg_of(func)
        params = func.posparams
        if "parent" not in params or "children" not in params:
            raise AnalysisError("anchor %s.__init__(parent, children) changed signature" % cname)
        selfn = func.selfname
        parent_ok = False
        children_ok = False
        for node in cfg.stmt_nodes(("stmt",)):
            s = node.ast
            if not isinstance(s, ast.Assign):
                continue
            for t in s.targets:
                if isinstance(t, ast.Attribute) and isinstance(t.value, ast.Name) and t.value.id == selfn \
                        and t.attr in ("parent", "children"):
                    n += 1
                    gs = cfg.guards_of(node)
                    if t.attr == "parent":
                        from .rules.common import none_test as _nt
                        only_not_none = bool(gs) and all(_nt(c) is not None and _nt(c)[0] == "parent" and (_nt(c)[1] is True) != (outcome is True)
                                                        for c, outcome, _ in gs)
                        if isinstance(s.value, ast.Name) and s.value.id == "parent" and not gs:
                            parent_ok = True
                            ctx.inst("E5c", func, s, "unconditional self.parent = parent")
                        elif isinstance(s.value, ast.Name) and s.value.id == "parent" and only_not_none:
                            # skipped only for `parent is None`: assigning None to the parent of a node that has none is a no-op
                            parent_ok = True
                            ctx.inst("E5c", func, s, "self.parent = parent unless parent is None (a no-op on a fresh node)")
                        else:
                            ctx.viol("E5c", func, s, "constructor does not simply assign the parent argument "
                                     "(unconditionally, unchanged) to self.parent")
                    else:
                        good_guard = all(_is_truth_or_none_test(c, "children") and outcome is True for c, outcome, _ in gs)
                        if isinstance(s.value, ast.Name) and s.value.id == "children" and good_guard:
                            children_ok = True
                            ctx.inst("E5c", func, s, "self.children = children when children is given")
                        else:
                            ctx.viol("E5c", func, s, "constructor does not simply assign the children argument to "
                                     "self.children when it is given")
        if not parent_ok:
            ctx.viol("E5c", func, func.node, "constructor never assigns self.parent = parent: the parent= argument does not "
                     "behave like the assignment", construct="%s: no self.parent = parent" % func.qual)
        if not children_ok:
            ctx.viol("E5c", func, func.node, "constructor never assigns self.children = children",
                     construct="%s: no self.children = children" % func.qual)
    return n


def _is_truth_or_none_test(cond, name):
    if isinstance(cond, ast.Name) and cond.id == name:
        return True
    if isinstance(cond, ast.Compare) and len(cond.ops) == 1 and isinstance(cond.ops[0], ast.IsNot) \
            and isinstance(cond.left, ast.Name) and cond.left.id == name and isinstance(cond.comparators[0], ast.Constant) \
            and cond.comparators[0].value is None:
        return True
    return False


def rule_H6(ctx, hook_event_sites):
    """hooks are called only where the traces of the entry points call them;
    the default implementations are empty"""
    n = 0
    allowed = set(hook_event_sites)  # ids of ast statements
    def new_api(func):
        return is_new_unused_api(ctx, func)
    for func in ctx.p.all_funcs:
        for node in walk_own(func.node):
            if isinstance(node, ast.Call) and isinstance(node.func, ast.Attribute) and node.func.attr in T.HOOKS:
                n += 1
                # find the enclosing statement
                if id(node) in allowed or any(id(s) in allowed for s in _enclosing_stmts(func, node)):
                    ctx.inst("H6", func, node, "hook call site exercised by the entry-point traces")
                elif new_api(func):
                    ctx.notes.append("H6: %s is a new public method unused by the package; its hook calls are outside the stated entry points" % func.qual)
                else:
                    ctx.viol("H6", func, node, "notification hook called outside the attach/detach protocol of the "
                             "structural entry points")
            if isinstance(node, ast.Call) and isinstance(node.func, ast.Name) and node.func.id == "getattr":
                for a in node.args[1:2]:
                    if isinstance(a, ast.Constant) and a.value in T.HOOKS:
                        ctx.viol("H6", func, node, "notification hook fetched by name outside the protocol")
    for m in T.MIXINS:
        cls = ctx.p.cls(m)
        for h in T.HOOKS:
            f = cls.members.get(h)
            n += 1
            if not isinstance(f, Func):
                ctx.viol("H6", None, None, "default hook %s.%s is missing" % (m, h), construct="%s.%s missing" % (m, h),
                         file=cls.module.relpath, qual=m, line=cls.node.lineno)
                continue
            body = strip_doc(f.node.body)
            if any(not isinstance(s, ast.Pass) for s in body):
                ctx.viol("H6", f, f.node, "default implementation of the hook is not empty",
                         construct="%s has a body" % f.qual)
            elif len(f.posparams) != 2:
                ctx.viol("H6", f, f.node, "hook signature changed", construct="%s(%s)" % (f.qual, ", ".join(f.posparams)))
            else:
                ctx.inst("H6", f, "def %s" % h, "empty default")
    return n


def _enclosing_stmts(func, target):
    out = []
    for s in walk_own(func.node):
        if isinstance(s, ast.stmt):
            for c in ast.walk(s):
                if c is target:
                    out.append(s)
                    break
    return out
