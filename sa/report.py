"""Findings, rule-instance accounting, known-findings matching, evidence."""

import collections
import json
import os
import time

from .model import AnalysisError, Func, norm, short

VERIF = os.path.dirname(os.path.dirname(os.path.abspath(__file__)))
KNOWN_FILE = os.path.join(VERIF, "known_findings.json")


class Finding:
    def __init__(self, prop, rule, file, func, construct, line, why, trace=None):
        self.prop = prop
        self.rule = rule
        self.file = file
        self.func = func
        self.construct = construct
        self.line = line
        self.why = why
        self.trace = trace

    def key(self):
        return (self.prop, self.rule, self.file, self.func, self.construct)

    def text(self):
        return "%s:%s  %s  %s  `%s`  — %s" % (self.file, self.line, self.rule, self.func, self.construct, self.why)

    def to_json(self):
        d = {"property": self.prop, "rule": self.rule, "file": self.file, "function": self.func,
             "construct": self.construct, "line": self.line, "why": self.why}
        if self.trace:
            d["trace"] = self.trace
        return d


class Ctx:
    """Accumulates what one check run analysed and found."""

    def new_findings(self):
        """findings that are not listed as known"""
        return split_known(self)[1]

    def __init__(self, prop, program, tier="quick", seed=0):
        self.prop = prop
        self.p = program
        self.tier = tier
        self.seed = seed
        self.findings = []
        self.instances = collections.Counter()
        self.samples = []
        self.floors = {}
        self.notes = []
        self.functions = set()
        self.extra = {}
        self._seen_keys = set()
        self.t0 = time.time()

    # rule instances ---------------------------------------------------------
    def inst(self, rule, where, what, verdict="ok"):
        """Record one rule instance (an obligation that was decided)."""
        self.instances[rule] += 1
        if isinstance(where, Func):
            self.functions.add(where.where)
            where = "%s:%d %s" % (where.module.relpath, getattr(what, "lineno", where.lineno), where.qual)
        if len(self.samples) < 400:
            self.samples.append("%s  %s  %s → %s" % (where, rule, short(what, 90), verdict))

    def floor(self, rule, n):
        self.floors[rule] = n

    def touch(self, func):
        self.functions.add(func.where)

    def viol(self, rule, func, node, why, construct=None, trace=None, file=None, qual=None, line=None):
        if isinstance(func, Func):
            file = func.module.relpath
            qual = func.qual
            self.functions.add(func.where)
            if line is None:
                line = getattr(node, "lineno", None) or func.lineno
        cons = construct if construct is not None else " ".join(norm(node).split())
        f = Finding(self.prop, rule, file, qual, cons, line or 0, why, trace)
        if f.key() in self._seen_keys:
            return f
        self._seen_keys.add(f.key())
        self.findings.append(f)
        self.instances[rule] += 1
        if len(self.samples) < 400:
            self.samples.append("%s:%s %s  %s  %s → VIOLATION (%s)" % (file, f.line, qual, rule, short(cons, 90), why))
        return f

    def check_floors(self):
        for rule, n in sorted(self.floors.items()):
            if self.instances[rule] < n:
                raise AnalysisError("rule %s matched %d instance(s), fewer than the %d confirmed by hand on the pinned "
                                    "tree — the rule has lost its subject" % (rule, self.instances[rule], n))


def load_known():
    if not os.path.exists(KNOWN_FILE):
        return {"findings": [], "fixed": []}
    with open(KNOWN_FILE, encoding="utf-8") as fh:
        return json.load(fh)


def split_known(ctx):
    known = load_known()
    index = {}
    for k in known.get("findings", []):
        index[(k["property"], k["rule"], k["file"], k["function"], k["construct"])] = k
    hits, new, pending = [], [], []
    matched = set()
    for f in ctx.findings:
        k = index.get(f.key())
        if k is not None:
            hits.append((f, k))
            matched.add(id(k))
        else:
            pending.append(f)
    # a recorded finding whose construct now sits in another function of the same file (the defective statements were
    # moved by a refactoring, e.g. two private helpers merged): still the same finding - but only if it was not also
    # found at its recorded place, so a second occurrence elsewhere is reported as new
    for f in pending:
        key = f.key()
        cand = [k for kk, k in index.items() if kk[0] == key[0] and kk[1] == key[1] and kk[2] == key[2] and kk[4] == key[4]
                and id(k) not in matched]
        if cand:
            hits.append((f, cand[0]))
            matched.add(id(cand[0]))
        else:
            new.append(f)
    return hits, new


def write_evidence(ctx, level, explanation, assumptions, hits, new, extra_cov=None, error=None):
    os.makedirs(os.path.join(VERIF, "evidence"), exist_ok=True)
    path = os.path.join(VERIF, "evidence", "%s.json" % ctx.prop)
    digests = ctx.p.digests() if ctx.p is not None else {}
    n_inst = sum(ctx.instances.values())
    cov = {
        "explanation": explanation,
        "rule": "one case = one rule instance: a (rule, construct) obligation found in /repo's parsed source and decided "
                "on the program model; distinct by (rule, file, function, normalised construct)",
        "evaluations": n_inst,
        "distinct_nontrivial": len(set(ctx.samples)) if n_inst <= 400 else n_inst,
        "obligations": n_inst,
        "discharged": n_inst - len(ctx.findings),
        "instances_per_rule": dict(sorted(ctx.instances.items())),
        "floors": dict(sorted(ctx.floors.items())),
        "functions_analysed": sorted(ctx.functions),
        "modules_parsed": len(digests),
        "module_digests": digests,
        "samples": ctx.samples[:120] or ["(none)"],
        "known_findings_matched": [f.text() for f, _ in hits],
        "new_violations": [f.text() for f in new],
        "notes": ctx.notes,
        "exhaustive": True,
        # analysis-only rewrites applied before the rules ran (sa/inline.py, sa/normalize.py); empty on code
        # written in the pinned tree's style
        "normalisations_applied": dict(sorted((ctx.p.inlined if ctx.p is not None else {}).items())),
    }
    cov.update(ctx.extra)
    if extra_cov:
        cov.update(extra_cov)
    if error:
        cov["analysis_error"] = error
    ev = {
        "property_id": ctx.prop,
        "tier": ctx.tier,
        "seed": int(ctx.seed),
        "level": level,
        "coverage": cov,
        "assumptions": assumptions,
        "wall_s": round(time.time() - ctx.t0, 3),
        "violations": len(new),
    }
    with open(path, "w", encoding="utf-8") as fh:
        json.dump(ev, fh, indent=1, ensure_ascii=False, sort_keys=True)
        fh.write("\n")
    return path


def write_replay(ctx, finding, idx):
    d = os.path.join(VERIF, "out", "replay")
    os.makedirs(d, exist_ok=True)
    path = os.path.join(d, "%s-%d.json" % (ctx.prop, idx))
    with open(path, "w", encoding="utf-8") as fh:
        json.dump({"repo": ctx.p.repo, "tier": ctx.tier, "finding": finding.to_json(),
                   "how_to_replay": "cd /verif && /venv/bin/python -m sa.check %s --tier %s  (static: re-analyses /repo and "
                                    "re-reports this construct)" % (ctx.prop, ctx.tier)}, fh, indent=1)
    return path
