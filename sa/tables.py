"""Facts of the anytree code base, frozen as tables (DESIGN section 2).

Each table is re-checked against the parsed program by the rules that use it
(anchors); a mismatch is an ANALYSIS-ERROR, never a silent pass."""

MIXINS = ("NodeMixin", "LightNodeMixin")

HOOKS = (
    "_pre_detach", "_post_detach", "_pre_attach", "_post_attach",
    "_pre_detach_children", "_post_detach_children", "_pre_attach_children", "_post_attach_children",
)
PRE_HOOKS = tuple(h for h in HOOKS if h.startswith("_pre_"))

# user supplied callables: opaque, may raise, not assumed pure
CALLBACKS = (
    "filter_", "stop", "childiter", "attriter", "dictcls", "nodecls", "nodenamefunc", "nodeattrfunc",
    "edgeattrfunc", "edgetypefunc", "nodefunc", "edgefunc", "style", "attrname", "cmp_",
)
# callbacks whose result is (a re-ordering / subset of) their node-sequence argument
CALLBACKS_SEQ_PRESERVING = ("childiter",)

OPT_INTS = ("maxlevel", "mincount", "maxcount")

# node-valued API, used to type attribute loads on node-typed receivers
NODE_ATTR_OPTNODE = ("parent",)
NODE_ATTR_NODE = ("root", "target")
NODE_ATTR_SEQ = ("children", "path", "_path", "ancestors", "anchestors", "descendants", "siblings", "leaves")
NODE_ATTR_BOOL = ("is_leaf", "is_root")
NODE_ATTR_INT = ("height", "depth", "size")
NODE_ATTR_STR = ("separator",)
NODE_METHOD_SEQ = ("iter_path_reverse",)

READONLY_MEMBERS = (
    "parent", "children", "path", "_path", "iter_path_reverse", "ancestors", "anchestors", "descendants", "root",
    "siblings", "leaves", "is_leaf", "is_root", "height", "depth", "size",
)

# builtins that neither raise on well-typed arguments nor have effects, and
# that never call a special method of a *node* when the node is an element
# (the C17 lint separately restricts which of them may take a node directly)
PURE_BUILTINS = {
    "len", "any", "all", "tuple", "list", "reversed", "enumerate", "zip", "isinstance", "hasattr", "getattr",
    "id", "str", "repr", "max", "min", "hex", "iter", "next", "sorted", "filter", "callable", "bool", "int",
    "dict", "set", "frozenset", "range", "map", "type", "super", "issubclass", "sum", "abs", "print",
    "NotImplementedError", "object", "hash",
}
EFFECT_BUILTINS = {"setattr", "delattr", "open", "exec", "eval"}
EXC_BUILTINS = {
    "Exception", "RuntimeError", "AttributeError", "KeyError", "IndexError", "ValueError", "TypeError",
    "StopIteration", "NotImplementedError", "ImportError", "BaseException", "LookupError", "RecursionError",
    "DeprecationWarning", "AssertionError",
}
BUILTIN_EXC_PARENT = {
    "RuntimeError": "Exception", "AttributeError": "Exception", "KeyError": "LookupError",
    "IndexError": "LookupError", "LookupError": "Exception", "ValueError": "Exception", "TypeError": "Exception",
    "StopIteration": "Exception", "NotImplementedError": "RuntimeError", "ImportError": "Exception",
    "RecursionError": "RuntimeError", "AssertionError": "Exception", "Exception": "BaseException",
    "BaseException": None,
}

# str / list / dict / regex methods used in the package (pure w.r.t. the tree)
PURE_METHODS = {
    "join", "split", "splitlines", "startswith", "endswith", "upper", "lower", "format", "ljust", "encode",
    "items", "keys", "values", "get", "group", "match", "sub", "index", "count", "copy", "strip", "isascii", "casefold",
}
MUTATING_METHODS = {
    "appendleft", "popleft", "extendleft", "rotate",
    "append", "extend", "insert", "remove", "pop", "clear", "sort", "reverse", "update", "add", "discard",
    "setdefault", "popitem", "__setitem__", "__delitem__", "write", "flush",
}
LIST_ORDER_METHODS = {"remove", "index", "count", "sort", "reverse", "insert", "pop"}

# effectful / external stdlib callees
EXT_EFFECTFUL = {
    "json.dump", "json.dumps", "json.load", "json.loads", "re.compile", "codecs.open", "warnings.warn",
    "subprocess.check_call", "os.remove", "os.path.splitext", "tempfile.NamedTemporaryFile",
    "logging.getLogger", "itertools.count", "collections.namedtuple", "os.environ.get", "re.escape",
    "six.text_type", "functools.wraps", "six.python_2_unicode_compatible",
}

# parameter seeds for node-type inference: name -> kind
PARAM_NODE = {"node", "child", "subnode", "target", "root", "n", "c"}
PARAM_OPTNODE = {"parent", "value"}
PARAM_SEQ = {"children", "nodes", "matches", "result", "pchildren", "parentchildren", "common", "upwards", "down",
             "old_children"}
