"""Normalisation: inline private helper functions that did not exist on the
pinned tree.

"Extract a few lines into a private helper" is the most common behaviour-
preserving refactoring; rules phrased over one function's CFG/AST would see a
different decomposition.  Before the program model is indexed, every call of a
*new* private helper (module-level `_name` or name-mangled `__name` method
that is not part of the pinned tree's private vocabulary) is replaced by the
helper's body with parameters substituted, to a fixpoint; helpers that are no
longer referenced are dropped.  The transformation is only used for analysis
(evaluation order of hoisted arguments is not preserved exactly) and keeps
the helper's own line numbers on the inlined statements."""

import ast
import copy

# private names that exist on the pinned tree: rules anchor on these, they are never inlined
PINNED_PRIVATE = set("""
__attach __calc_common __check_children __check_loop __children_or_empty __cmp __default_filter __default_stop __detach
__export __find __get __glob __import __init __item __iter __iter_edges __iter_nodes __iter_options __match __next __start
__translate _abort_at_level _cache _default_edgeattrfunc _default_edgefunc _default_edgetypefunc _default_filter
_default_nodeattrfunc _default_nodefunc _default_nodenamefunc _export _filter_by_name _find _findall _format_row_any
_get_children _get_grandchildren _getattr _index _is_last _iter _iter_attr_values _path _post_attach _post_attach_children
_post_detach _post_detach_children _pre_attach _pre_attach_children _pre_detach _pre_detach_children _repr
""".split())

_counter = [0]


def _fresh():
    _counter[0] += 1
    return _counter[0]


def _is_docstring(s):
    return isinstance(s, ast.Expr) and isinstance(s.value, ast.Constant) and isinstance(s.value.value, str)


def _body(fn):
    b = list(fn.body)
    if b and _is_docstring(b[0]):
        b = b[1:]
    return b


def _contains(node, types, stop_at_defs=True):
    stack = list(ast.iter_child_nodes(node)) if not isinstance(node, list) else list(node)
    while stack:
        n = stack.pop()
        if isinstance(n, types):
            return True
        if stop_at_defs and isinstance(n, (ast.FunctionDef, ast.AsyncFunctionDef, ast.Lambda, ast.ClassDef)):
            continue
        stack.extend(ast.iter_child_nodes(n))
    return False


class Helper:
    def __init__(self, fn, cls, kind):
        self.fn = fn
        self.cls = cls  # class name or None
        self.kind = kind  # function | method | static
        self.name = fn.name
        a = fn.args
        self.params = [x.arg for x in a.posonlyargs + a.args]
        self.vararg = a.vararg.arg if a.vararg else None
        self.defaults = {}
        pos = a.posonlyargs + a.args
        for p, d in zip(pos[len(pos) - len(a.defaults):], a.defaults):
            self.defaults[p.arg] = d


def _candidate(fn, in_class):
    name = fn.name
    if name in PINNED_PRIVATE:
        return None
    if in_class:
        if not (name.startswith("__") and not name.endswith("__")):
            return None
    else:
        if not name.startswith("_") or name.startswith("__") and name.endswith("__"):
            return None
    a = fn.args
    if a.kwarg or a.kwonlyargs:
        return None
    decos = [d.id if isinstance(d, ast.Name) else None for d in fn.decorator_list]
    kind = "method" if in_class else "function"
    for d in decos:
        if d == "staticmethod" and in_class:
            kind = "static"
        else:
            return None
    if _contains(fn, (ast.Yield, ast.YieldFrom, ast.Await, ast.Global, ast.Nonlocal)):
        return None
    if _contains(fn, (ast.ClassDef,), stop_at_defs=False):
        return None
    # not recursive
    for n in ast.walk(fn):
        if isinstance(n, ast.Attribute) and n.attr == name:
            return None
        if isinstance(n, ast.Name) and n.id == name:
            return None
    return kind


class _Subst(ast.NodeTransformer):
    def __init__(self, mapping, rename):
        self.mapping = mapping  # param -> expr
        self.rename = rename  # local -> new local

    def visit_Name(self, node):
        if node.id in self.mapping and isinstance(node.ctx, ast.Load):
            return copy.deepcopy(self.mapping[node.id])
        if node.id in self.rename:
            return ast.copy_location(ast.Name(id=self.rename[node.id], ctx=node.ctx), node)
        return node

    def visit_Lambda(self, node):
        # lambda parameters shadow
        shadow = {a.arg for a in node.args.args}
        saved_m, saved_r = self.mapping, self.rename
        self.mapping = {k: v for k, v in saved_m.items() if k not in shadow}
        self.rename = {k: v for k, v in saved_r.items() if k not in shadow}
        self.generic_visit(node)
        self.mapping, self.rename = saved_m, saved_r
        return node


def _locals_of(fn, params):
    out = []
    for n in ast.walk(fn):
        if isinstance(n, ast.Name) and isinstance(n.ctx, (ast.Store, ast.Del)) and n.id not in params and n.id not in out:
            out.append(n.id)
        elif isinstance(n, ast.ExceptHandler) and n.name and n.name not in out:
            out.append(n.name)
    return out


# attributes that are computed from the tree on every read (navigation properties): an argument like `self.children` must be
# evaluated once, where the call stands, not re-read wherever the helper uses its parameter
_COMPUTED_ATTRS = {"parent", "children", "path", "_path", "ancestors", "anchestors", "descendants", "root", "siblings", "leaves",
                   "is_leaf", "is_root", "height", "depth", "size"}


def _simple(e):
    return isinstance(e, (ast.Name, ast.Constant)) or (isinstance(e, ast.Attribute) and e.attr not in _COMPUTED_ATTRS and _simple(e.value))


class Inliner:
    def __init__(self, tree):
        self.tree = tree
        self.helpers = {}  # (clsname or None, name) -> Helper
        self.n_inlined = 0
        self.inlined_names = set()
        self.local = {}  # nested step functions of the function being transformed
        for st in tree.body:
            if isinstance(st, ast.FunctionDef):
                k = _candidate(st, False)
                if k:
                    self.helpers[(None, st.name)] = Helper(st, None, k)
            elif isinstance(st, ast.ClassDef):
                for m in st.body:
                    if isinstance(m, ast.FunctionDef):
                        k = _candidate(m, True)
                        if k:
                            self.helpers[(st.name, m.name)] = Helper(m, st.name, k)

    # ------------------------------------------------------------ resolution
    def resolve(self, call, clsname, selfname):
        """-> (Helper, receiver expr or None) for a call of a candidate helper"""
        f = call.func
        if any(isinstance(a, ast.Starred) for a in call.args) or any(k.arg is None for k in call.keywords):
            return None
        if isinstance(f, ast.Name):
            h = self.local.get(f.id) or self.helpers.get((None, f.id))
            return (h, None) if h else None
        if isinstance(f, ast.Attribute) and isinstance(f.value, ast.Name) and clsname is not None:
            h = self.helpers.get((clsname, f.attr))
            if h is None:
                return None
            if f.value.id == selfname and h.kind in ("method", "static"):
                return (h, f.value if h.kind == "method" else None)
            if f.value.id == clsname:
                return (h, "first-arg" if h.kind == "method" else None)
        return None

    def bind(self, h, recv, call):
        params = list(h.params)
        mapping = {}
        args = list(call.args)
        if h.kind == "method":
            sp = params.pop(0)
            if recv == "first-arg":
                if not args:
                    return None
                mapping[sp] = args.pop(0)
            else:
                mapping[sp] = recv
        if len(args) > len(params) and h.vararg is None:
            return None
        if h.vararg is not None:
            mapping[h.vararg] = ast.Tuple(elts=args[len(params):], ctx=ast.Load())
        for p, a in zip(params, args):
            mapping[p] = a
        for k in call.keywords:
            if k.arg not in params or k.arg in mapping:
                return None
            mapping[k.arg] = k.value
        for p in params:
            if p not in mapping:
                if p in h.defaults:
                    mapping[p] = h.defaults[p]
                else:
                    return None
        return mapping

    # ------------------------------------------------------- statement level
    def inline_stmt(self, st, clsname, selfname):
        """returns a list of statements replacing ``st`` or None"""
        call, mode = None, None
        if isinstance(st, ast.Return) and isinstance(st.value, ast.Call):
            call, mode = st.value, ("return",)
        elif isinstance(st, ast.Assign) and isinstance(st.value, ast.Call):
            call, mode = st.value, ("assign", st.targets)
        elif isinstance(st, ast.Expr) and isinstance(st.value, ast.Call):
            call, mode = st.value, ("expr",)
        if call is None:
            return None
        r = self.resolve(call, clsname, selfname)
        if r is None:
            return None
        h, recv = r
        mapping = self.bind(h, recv, call)
        if mapping is None:
            return None
        body = copy.deepcopy(_body(h.fn))
        n = _fresh()
        pre = []
        final_map = {}
        assigned = set(_locals_of(h.fn, ()))
        rename = {v: "%s__inl%d" % (v, n) for v in assigned if v not in mapping}
        for p, a in mapping.items():
            if _simple(a) and p not in assigned:
                final_map[p] = a
            else:
                tmp = "%s__inl%d" % (p, n)
                asg = ast.Assign(targets=[ast.Name(id=tmp, ctx=ast.Store())], value=copy.deepcopy(a))
                ast.copy_location(asg, st)
                pre.append(asg)
                rename[p] = tmp
        sub = _Subst(final_map, rename)
        body = [sub.visit(s) for s in body]
        out = self.tail(body, mode, st)
        if out is None:
            return None
        for s in pre + out:
            ast.fix_missing_locations(s)
        self.n_inlined += 1
        self.inlined_names.add(h.name)
        return pre + out

    def tail(self, stmts, mode, site):
        """rewrite returns of an inlined body according to the call context"""
        if mode[0] == "return":
            out = list(stmts)
            if not out or not self._always_returns(out):
                r = ast.Return(value=ast.Constant(value=None))
                ast.copy_location(r, site)
                out.append(r)
            return out
        if not stmts:
            return self._result(None, mode, site)
        s, rest = stmts[0], stmts[1:]
        if isinstance(s, ast.Return):
            return self._result(s.value, mode, s)
        if isinstance(s, ast.Raise):
            return [s]
        if isinstance(s, ast.If):
            if not _contains([s], ast.Return):
                r = self.tail(rest, mode, site)
                return None if r is None else [s] + r
            a = self.tail(list(s.body) + copy.deepcopy(rest) if not self._always_exits(s.body) else list(s.body), mode, site)
            b = self.tail(list(s.orelse) + rest if not self._always_exits(s.orelse) else list(s.orelse), mode, site)
            if a is None or b is None:
                return None
            new = ast.If(test=s.test, body=a or [ast.Pass()], orelse=b)
            ast.copy_location(new, s)
            return [new]
        if _contains([s], ast.Return):
            return None  # return inside a loop / try / with: cannot be expressed without a jump
        r = self.tail(rest, mode, site)
        return None if r is None else [s] + r

    def _always_returns(self, stmts):
        return self._always_exits(stmts)

    def _always_exits(self, stmts):
        if not stmts:
            return False
        last = stmts[-1]
        if isinstance(last, (ast.Return, ast.Raise)):
            return True
        if isinstance(last, ast.If):
            return bool(last.orelse) and self._always_exits(last.body) and self._always_exits(last.orelse)
        return False

    def _result(self, value, mode, site):
        if value is None:
            value = ast.Constant(value=None)
        if mode[0] == "assign":
            s = ast.Assign(targets=copy.deepcopy(mode[1]), value=value)
        else:
            s = ast.Expr(value=value)
        ast.copy_location(s, site)
        return [s]

    # ------------------------------------------------------ expression level
    def inline_exprs(self, node, clsname, selfname):
        inliner = self

        class T(ast.NodeTransformer):
            def visit_FunctionDef(self, n):
                return n

            def visit_Lambda(self, n):
                self.generic_visit(n)
                return n

            def visit_Call(self, n):
                self.generic_visit(n)
                r = inliner.resolve(n, clsname, selfname)
                if r is None:
                    return n
                h, recv = r
                b = _body(h.fn)
                if len(b) != 1 or not isinstance(b[0], ast.Return) or b[0].value is None:
                    return n
                mapping = inliner.bind(h, recv, n)
                if mapping is None:
                    return n
                e = _Subst(mapping, {}).visit(copy.deepcopy(b[0].value))
                inliner.n_inlined += 1
                inliner.inlined_names.add(h.name)
                return e
        return T().visit(node)

    # --------------------------------------------------------------- driver
    def hoist(self, st, clsname, selfname):
        """`... f(args) ...` with a multi-statement helper f in a header expression of a simple statement,
        a for-iterable or an if-test: bind the call to a temporary first (then inlined as an assignment)"""
        if isinstance(st, (ast.Return, ast.Assign, ast.Expr)) and isinstance(st.value, ast.Call) and self.resolve(st.value, clsname, selfname):
            return []
        if isinstance(st, (ast.Return, ast.Assign, ast.AugAssign, ast.Expr, ast.AnnAssign)):
            roots = [("value", st.value)] if getattr(st, "value", None) is not None else []
        elif isinstance(st, (ast.For,)):
            roots = [("iter", st.iter)]
        elif isinstance(st, ast.If):
            roots = [("test", st.test)]
        elif isinstance(st, ast.Raise) and st.exc is not None:
            roots = [("exc", st.exc)]
        else:
            return []
        pre = []
        inl = self

        class H(ast.NodeTransformer):
            def visit_Lambda(self, n):
                return n

            def visit_ListComp(self, n):
                return n
            visit_GeneratorExp = visit_SetComp = visit_DictComp = visit_ListComp

            def visit_Call(self, n):
                self.generic_visit(n)
                r = inl.resolve(n, clsname, selfname)
                if r is None:
                    return n
                b = _body(r[0].fn)
                if len(b) == 1 and isinstance(b[0], ast.Return):
                    return n  # expression-level inlining handles it
                tmp = "%s__call%d" % (r[0].name.lstrip("_"), _fresh())
                asg = ast.Assign(targets=[ast.Name(id=tmp, ctx=ast.Store())], value=n)
                ast.copy_location(asg, st)
                ast.fix_missing_locations(asg)
                pre.append(asg)
                return ast.copy_location(ast.Name(id=tmp, ctx=ast.Load()), n)
        for field, root in roots:
            setattr(st, field, H().visit(root))
        return pre

    def transform_body(self, stmts, clsname, selfname):
        out = []
        work = []
        for st in stmts:
            work.extend(self.hoist(st, clsname, selfname))
            work.append(st)
        for st in work:
            rep = self.inline_stmt(st, clsname, selfname)
            if rep is not None:
                out.extend(self.transform_body(rep, clsname, selfname) if self._depth_ok() else rep)
                continue
            if isinstance(st, (ast.FunctionDef, ast.AsyncFunctionDef, ast.ClassDef)):
                out.append(st)
                continue
            # compound statements: recurse into blocks, inline expressions in headers
            for field in ("body", "orelse", "finalbody"):
                blk = getattr(st, field, None)
                if isinstance(blk, list) and blk and isinstance(blk[0], ast.stmt):
                    setattr(st, field, self.transform_body(blk, clsname, selfname))
            if isinstance(st, ast.Try):
                for h in st.handlers:
                    h.body = self.transform_body(h.body, clsname, selfname)
            for field, val in ast.iter_fields(st):
                if isinstance(val, ast.expr):
                    setattr(st, field, self.inline_exprs(val, clsname, selfname))
                elif isinstance(val, list) and val and isinstance(val[0], ast.expr):
                    setattr(st, field, [self.inline_exprs(v, clsname, selfname) for v in val])
                elif isinstance(val, list) and val and isinstance(val[0], ast.withitem):
                    for it in val:
                        it.context_expr = self.inline_exprs(it.context_expr, clsname, selfname)
            out.append(st)
        return out

    # ---------------------------------------------------- nested step functions
    def _nested_defs(self, fn):
        """FunctionDefs nested in fn's blocks (not inside other defs) with their owning statement lists"""
        out = []

        def walk(stmts):
            for st in stmts:
                if isinstance(st, ast.FunctionDef):
                    out.append((st, stmts))
                    continue
                if isinstance(st, (ast.AsyncFunctionDef, ast.ClassDef)):
                    continue
                for field in ("body", "orelse", "finalbody"):
                    blk = getattr(st, field, None)
                    if isinstance(blk, list) and blk and isinstance(blk[0], ast.stmt):
                        walk(blk)
                if isinstance(st, ast.Try):
                    for h in st.handlers:
                        walk(h.body)
        walk(fn.body)
        return out

    def _local_candidate(self, d, fn):
        """a nested def is a step function when it is plain (no decorator, generator, nonlocal, recursion, *kw) and its
        name is only ever called directly in the enclosing function (never passed or stored as a value)"""
        if d.decorator_list or d.args.kwarg or d.args.kwonlyargs:
            return False
        if _contains(d, (ast.Yield, ast.YieldFrom, ast.Await, ast.Global, ast.Nonlocal)):
            return False
        if _contains(d, (ast.ClassDef, ast.FunctionDef, ast.AsyncFunctionDef), stop_at_defs=False):
            return False
        for n in ast.walk(d):
            if isinstance(n, ast.Name) and n.id == d.name:
                return False
        called = set()
        n_defs = 0
        for n in ast.walk(fn):
            if isinstance(n, ast.FunctionDef) and n.name == d.name:
                n_defs += 1
            if isinstance(n, ast.Call) and isinstance(n.func, ast.Name) and n.func.id == d.name:
                called.add(id(n.func))
        if n_defs != 1:
            return False
        for n in ast.walk(fn):
            if isinstance(n, ast.Name) and n.id == d.name and id(n) not in called:
                return False
        # parameters of the step function must not be captured by a lambda/closure default trick; keep it simple
        return True

    def transform_function(self, fn, clsname, selfname):
        saved = self.local
        self.local = {}
        nested = self._nested_defs(fn)
        for d, _owner in nested:
            if self._local_candidate(d, fn):
                self.local[d.name] = Helper(d, None, "function")
        fn.body = self.transform_body(fn.body, clsname, selfname)
        if self.local:
            for d, _owner in self._nested_defs(fn):
                if d.name in self.local and d.name in self.inlined_names:
                    still = any(isinstance(n, ast.Name) and n.id == d.name for n in ast.walk(fn))
                    if not still:
                        self._remove_stmt(fn, d)
        self.local = saved

    def _remove_stmt(self, fn, target):
        for n in ast.walk(fn):
            for field in ("body", "orelse", "finalbody"):
                blk = getattr(n, field, None)
                if isinstance(blk, list) and any(x is target for x in blk):
                    new = [x for x in blk if x is not target]
                    if not new and field == "body":
                        new = [ast.Pass()]
                    setattr(n, field, new)
                    return

    def _depth_ok(self):
        self._depth = getattr(self, "_depth", 0) + 1
        return self._depth < 200

    def run(self):
        for _ in range(4):
            before = self.n_inlined
            self._depth = 0
            for st in self.tree.body:
                if isinstance(st, ast.FunctionDef):
                    self.transform_function(st, None, None)
                elif isinstance(st, ast.ClassDef):
                    for m in st.body:
                        if isinstance(m, ast.FunctionDef):
                            selfname = None
                            decos = [d.id for d in m.decorator_list if isinstance(d, ast.Name)]
                            if "staticmethod" not in decos and m.args.args:
                                selfname = m.args.args[0].arg
                            self.transform_function(m, st.name, selfname)
            if self.n_inlined == before:
                break
        self._drop_unreferenced()
        ast.fix_missing_locations(self.tree)
        return self.n_inlined

    def _drop_unreferenced(self):
        def referenced(name, skip):
            for n in ast.walk(self.tree):
                if n is skip:
                    continue
                if isinstance(n, ast.Attribute) and n.attr == name and not _inside(skip, n):
                    return True
                if isinstance(n, ast.Name) and n.id == name and not _inside(skip, n):
                    return True
                if isinstance(n, ast.Constant) and isinstance(n.value, str) and n.value.endswith(name) and not _inside(skip, n):
                    return True
            return False

        def _inside(fn, node):
            return any(x is node for x in ast.walk(fn))
        for (cls, name), h in list(self.helpers.items()):
            if name not in self.inlined_names:
                continue
            if referenced(name, h.fn):
                continue
            if cls is None:
                self.tree.body = [s for s in self.tree.body if s is not h.fn]
            else:
                for st in self.tree.body:
                    if isinstance(st, ast.ClassDef) and st.name == cls:
                        st.body = [s for s in st.body if s is not h.fn] or [ast.Pass()]


def inline_module(tree):
    """in-place; returns (number of call sites inlined, helper names)"""
    inl = Inliner(tree)
    n = inl.run()
    return n, sorted(inl.inlined_names)


# ---------------------------------------------------------------------------
# second normalisation: copy propagation of attribute / bound-method aliases
# ---------------------------------------------------------------------------
def _attr_chain(e):
    return isinstance(e, ast.Name) or (isinstance(e, ast.Attribute) and _attr_chain(e.value))


def propagate_aliases(tree, property_names):
    """`x = a.b.c` bound exactly once in a function, never rebound, `a.b.c` not a property of the package and its
    last attribute never assigned in that function: replace the uses of `x` by `a.b.c` and drop the binding.
    Undoes "cache the attribute / bound method in a local" micro-optimisations (analysis only)."""
    n_done = 0
    for fn in [n for n in ast.walk(tree) if isinstance(n, (ast.FunctionDef, ast.AsyncFunctionDef))]:
        params = {a.arg for a in fn.args.posonlyargs + fn.args.args + fn.args.kwonlyargs}
        if fn.args.vararg:
            params.add(fn.args.vararg.arg)
        if fn.args.kwarg:
            params.add(fn.args.kwarg.arg)
        stores = {}
        nodes = []
        stack = list(fn.body)
        while stack:
            n = stack.pop()
            nodes.append(n)
            for c in ast.iter_child_nodes(n):
                if isinstance(c, (ast.FunctionDef, ast.AsyncFunctionDef, ast.Lambda, ast.ClassDef)):
                    nodes.append(c)  # names used inside closures still count as uses
                    stack.append(c)
                else:
                    stack.append(c)
        for n in nodes:
            if isinstance(n, ast.Name) and isinstance(n.ctx, (ast.Store, ast.Del)):
                stores.setdefault(n.id, 0)
                stores[n.id] += 1
        attr_stores = {n.attr for n in nodes if isinstance(n, ast.Attribute) and isinstance(n.ctx, (ast.Store, ast.Del))}
        cands = {}
        # a read inside a try body may be there FOR its exception (`d = target.__dict__` / except AttributeError): moving it to
        # the uses would move it out of the protected region
        in_try = {id(a) for t in ast.walk(fn) if isinstance(t, ast.Try) and t.handlers for b in t.body for a in ast.walk(b) if isinstance(a, ast.Assign)}
        for st in fn.body:
            for n in ast.walk(st):
                if isinstance(n, ast.Assign) and len(n.targets) == 1 and isinstance(n.targets[0], ast.Name) \
                        and isinstance(n.value, ast.Attribute) and _attr_chain(n.value) and id(n) not in in_try:
                    name = n.targets[0].id
                    if stores.get(name) == 1 and name not in params and n.value.attr not in property_names \
                            and n.value.attr not in attr_stores:
                        root = n.value
                        while isinstance(root, ast.Attribute):
                            root = root.value
                        # the root name must itself be stable (parameter or single-assignment local)
                        if root.id in params or stores.get(root.id, 0) <= 1:
                            cands[name] = n
        if not cands:
            continue

        class R(ast.NodeTransformer):
            def visit_Name(self, node):
                if node.id in cands and isinstance(node.ctx, ast.Load):
                    return ast.copy_location(copy.deepcopy(cands[node.id].value), node)
                return node

            def visit_Assign(self, node):
                if any(node is c for c in cands.values()):
                    return None
                self.generic_visit(node)
                return node
        for i, st in enumerate(list(fn.body)):
            fn.body[i] = R().visit(st)
        fn.body = [s_ for s_ in fn.body if s_ is not None] or [ast.Pass()]
        _prune_empty(fn)
        n_done += len(cands)
    if n_done:
        ast.fix_missing_locations(tree)
    return n_done


def _prune_empty(fn):
    for n in ast.walk(fn):
        for field in ("body", "orelse", "finalbody"):
            blk = getattr(n, field, None)
            if isinstance(blk, list) and field == "body" and not blk and not isinstance(n, ast.Module):
                setattr(n, field, [ast.Pass()])
